#!/usr/bin/env python3
"""Rust-subset -> Lean 4 translator for the Shadowsocks CLIENT codecs `octo-squirrel-client/src/client/shadowsocks.rs`.

usage:  translate_ssclient.py <path/to/octo-squirrel-client/src/client/shadowsocks.rs> <out.lean>

Translated from the argument (located by name, inside `mod udp { .. }`): `struct DatagramPacketCodec`,
`impl Encoder<DatagramPacket> for DatagramPacketCodec { fn encode }` (the packet id: `checked_add(1)`, the session ends
rather than wrap), `impl Decoder for DatagramPacketCodec { fn decode }` (replies: the session check, then the replay
window, then the server session id), and the free functions `new_key`, `to_outbound_send`, `to_inbound_recv`.
Everything else of the file (`mod tcp`, `struct Client`, `new_plain_outbound`, `DatagramPacketCodec::new` - it draws the
session id at random -, cfg-gated items, `use` items) is skipped by balanced-bracket matching and listed in the generated
header.

The inner codec `SessionCodec::decode` / `AEADCipherCodec::decode` (`octo-squirrel/src/codec/shadowsocks/udp.rs`) is NOT
translated again: translate_ssudp.py is run in-process on that file (with all the files it reads and all its checks), the
generated calls go to the functions of `Octo.SsUdpGen` (`lean/Octo/Gen/SsUdpGen.lean`), and a `SsUdpGen.lean` next to the
output that was generated from other sources is a usage error (exit 2).  `SessionCodec::is_aead_2022` (skipped by
translate_ssudp.py) IS translated here, from the same udp.rs.  `PacketWindowFilter::validate_packet_id` is the one of
`Octo.PWGen` (`lean/Octo/Gen/PacketWindowGen.lean`, translate_pw.py); its Rust signature is compared token for token and a
`PacketWindowGen.lean` next to the output that was generated from another packet_window.rs is a usage error (exit 2).
Further source files, found relative to the argument (`<root>` = three directories above the argument's directory) or - for
copies kept in one directory - under the flat name:

  codec     <root>/octo-squirrel/src/codec/shadowsocks/udp.rs | <dir>/codec_shadowsocks_udp.rs   (and, relative to it, the
                                                                side files of translate_ssudp.py)
  window    <root>/octo-squirrel/src/manager/packet_window.rs | <dir>/packet_window.rs            signature of `validate_packet_id`
  datagram  <root>/octo-squirrel/src/codec.rs                 | <dir>/codec.rs                    `type DatagramPacket = (BytesMut, Address);`

Assumed externals of its own (record `ClientExt`, parameter `Y`): `SessionCodec::encode` (udp.rs: the datagram ENcoders are
not translated by translate_ssudp.py; the signature is compared token for token).  The record `Octo.SsUdpGen.Ext`
(cryptography, clock, cipher cache, user table) is passed through to `SessionCodec::decode` as `X`.

Extends the parser / type checker / emitter of translate_ssudp.py (which extends translate_sstcp / _trojan / _addr / _nonce /
_pw) by: items nested in one named `mod` with their own `use` items, trait impls with a const generic and associated types
(`Self::Item`), a tuple pattern / `_` as a function parameter (`(content, addr): DatagramPacket` = a parameter plus
`let (content, addr) = <it>;`), `a.checked_add(b)`, `opt.ok_or_else(|| anyhow!(..))`, `u64::MAX`, `.clone()` of a
`#[derive(Clone)]` struct, a tuple pattern inside a constructor pattern, the opaque type `SocketAddr`.

Exit status: 0 a Lean module was written | 2 usage / IO error | 3 a construct outside the supported subset inside a
target item (or a target item / source file / external signature is missing or changed); one line on stderr; nothing is
written (never a guess).
"""
import copy
import hashlib
import os
import re
import sys

sys.path.insert(0, os.path.dirname(os.path.abspath(__file__)))
import translate_pw as pw  # noqa: E402
import translate_nonce as tn  # noqa: E402
import translate_addr as ta  # noqa: E402
import translate_trojan as tt  # noqa: E402
import translate_sstcp as st  # noqa: E402
import translate_ssudp as su  # noqa: E402
from translate_pw import Unsupported, Node  # noqa: E402
from translate_sstcp import ExtFn, FnSig  # noqa: E402

TARGET_MOD = "udp"
TARGET_STRUCT = "DatagramPacketCodec"
TARGET_FNS = {"Encoder": "encode", "Decoder": "decode"}
FREE_FNS = ("new_key", "to_outbound_send", "to_inbound_recv")
ALIAS = "DatagramPacket"
Y = "Y"
lean_name = st.lean_name
type_str = st.type_str
show_expr = st.show_expr
show_type = st.show_type

USE_SUFFIX_MORE = {
    "Context": ["codec", "shadowsocks", "udp", "Context"],
    "Session": ["codec", "shadowsocks", "udp", "Session"],
    "SessionCodec": ["codec", "shadowsocks", "udp", "SessionCodec"],
    "AEADCipherCodec": ["codec", "shadowsocks", "udp", "AEADCipherCodec"],
    "PacketWindowFilter": ["manager", "packet_window", "PacketWindowFilter"],
    ALIAS: ["codec", ALIAS],
    "SocketAddr": ["net", "SocketAddr"],
    "Decoder": ["codec", "Decoder"],
    "Encoder": ["codec", "Encoder"],
    "warn": ["log", "warn"],
    "anyhow": ["anyhow", "anyhow"],
}

# the assumed external of this layer (checked against udp.rs token for token)
CLIENT_EXT = {
    ("SessionCodec", "encode"): ExtFn(
        "SessionCodec_encode", ("SessionCodec", "ref"), [(("tuple", ("BytesMut", "Address", "Session")), False), ("BytesMut", True)],
        ("result", "unit"), "codec", "SessionCodec",
        "fn encode ( & self , ( content , address , session ) : SessionPacket < N > , dst : & mut BytesMut ) -> anyhow :: Result < ( ) >",
        "`SessionCodec::encode(&self, (content, address, session), dst)`: `AEADCipherCodec::encode` under the codec's context "
        "(salt / nonce / padding drawn at random, the clock, AEAD seal); appends the datagram to `dst`"),
}
PW_SIG = "pub fn validate_packet_id ( & mut self , packet_id : u64 , limit : u64 ) -> bool"

_st_lean_type = st.lean_type
_st_type_str = st.type_str


def lean_type(t):
    if t == "SocketAddr":
        return "SocketAddr"
    if isinstance(t, tuple) and t[0] == "option":
        return "Option %s" % lean_atom(t[1])
    if isinstance(t, tuple) and t[0] == "tuple":
        return " × ".join(lean_atom(x) for x in t[1])
    if isinstance(t, tuple) and t[0] == "result":
        return "RResult %s" % lean_atom(t[1])
    return _st_lean_type(t)


def lean_atom(t):
    s = lean_type(t)
    return "(%s)" % s if " " in s else s


def type_str2(t):
    if t == "SocketAddr":
        return "SocketAddr"
    return _st_type_str(t)


for _m in (ta, tt, st, su):
    _m.lean_type = lean_type
    _m.lean_atom = lean_atom
    _m.type_str = type_str2
type_str = type_str2


# --------------------------------------------------------------------------------------------
# parser
# --------------------------------------------------------------------------------------------

class Parser(su.Parser):
    """roles of translate_ssudp, and: cmain (the argument) | datagram (codec.rs: the alias `DatagramPacket`)"""

    def __init__(self, toks, role):
        su.Parser.__init__(self, toks, role)
        self.in_target = False
        self.found_mod = 0
        self.mod_uses = {}
        self.nparam = 0
        self.idents = set(t.text for t in toks if t.kind == "ident")
        if role == "datagram":
            self.scan_one_alias(ALIAS)

    def scan_one_alias(self, want):
        """`type <want> = ..;` at the top level (the other aliases of the file are not read)"""
        toks = self.toks
        depth = 0
        for i, t in enumerate(toks):
            if t.kind == "punct" and t.text == "{":
                depth += 1
            elif t.kind == "punct" and t.text == "}":
                depth -= 1
            elif depth == 0 and t.kind == "ident" and t.text == "type" and toks[i + 1].kind == "ident" and toks[i + 1].text == want:
                if want in self.aliases:
                    raise Unsupported("two `type %s`" % want, t.line)
                save = self.pos
                self.pos = i + 1
                name = self.ident().text
                gen = self.parse_generics()
                self.expect("=")
                ty = self.parse_type()
                self.expect(";")
                self.aliases[name] = (gen, ty)
                self.pos = save

    def wanted_enum(self, name, depth):
        if self.role in ("cmain", "datagram"):
            return False
        return su.Parser.wanted_enum(self, name, depth)

    def wanted_struct(self, name):
        if self.role == "cmain":
            return self.in_target and name == TARGET_STRUCT
        if self.role == "datagram":
            return False
        return su.Parser.wanted_struct(self, name)

    def wanted_impl(self, trait, targs, ty):
        if self.role == "cmain":
            return self.in_target and ty == TARGET_STRUCT and trait in TARGET_FNS
        if self.role == "datagram":
            return False
        return su.Parser.wanted_impl(self, trait, targs, ty)

    def parse_items(self, depth, stop, modname=None):
        if self.role == "datagram":
            # only the alias is read (scan_aliases); nothing else of codec.rs is parsed
            while self.tok.kind != "eof":
                self.advance()
            return
        if self.role != "cmain":
            return su.Parser.parse_items(self, depth, stop, modname)
        while not (self.tok.kind == "eof" or (stop == "}" and self.at("}"))):
            if self.at(";"):
                self.advance()
                continue
            first = self.tok
            attrs = self.parse_attrs()
            self.parse_vis()
            t = self.tok
            nxt = self.peek()
            gated = any(re.sub(r"\s+", "", text).startswith(("cfg(", "test")) for text, _ in attrs)
            kw = t.text
            name = nxt.text if nxt.kind == "ident" else ""
            if gated:
                end = self.skip_item()
                self.note_skip("cfg/test-gated %s %s" % (kw, name), first.line, end)
                continue
            if self.at("use"):
                if depth == 0:
                    self.parse_use()
                elif self.in_target:
                    outer, self.uses = self.uses, self.mod_uses
                    try:
                        self.parse_use()
                    finally:
                        self.uses = outer
                else:
                    self.skip_item()
                continue
            if self.at("mod") and self.peek(2).text == "{":
                if depth == 0 and name == TARGET_MOD:
                    self.advance()
                    self.advance()
                    self.expect("{")
                    self.in_target = True
                    self.found_mod += 1
                    self.parse_items(depth + 1, "}")
                    self.in_target = False
                    self.expect("}")
                    continue
                end = self.skip_item()
                self.note_skip("mod %s" % name, first.line, end)
                continue
            if self.in_target:
                if self.at("struct") and self.wanted_struct(name):
                    self.check_attrs(attrs)
                    self.structs.append(self.parse_struct())
                    continue
                if t.kind == "ident" and kw in ("struct", "enum", "union", "trait", "type", "mod", "static", "fn", "const") \
                        and (name in tt.LIB_NAMES or name in su.MAIN_STRUCTS or name in su.OPAQUE
                             or name in ("Mode", "CipherKind", "PacketWindowFilter", ALIAS, "SocketAddr", "Address")):
                    raise Unsupported("`%s %s`: a local definition of a name the translator reads as an imported name" % (kw, name), t.line)
                if self.at("fn") and name in FREE_FNS:
                    self.check_attrs(attrs)
                    self.fns.append(self.parse_fn())
                    continue
                if self.at("impl"):
                    hdr = self.impl_header()
                    if hdr is not None and self.wanted_impl(*hdr[:3]):
                        self.check_attrs(attrs)
                        self.impls.append(self.parse_impl(hdr))
                        continue
                    end = self.skip_item()
                    self.note_skip("impl block `%s`" % self.header_text(first), first.line, end)
                    continue
            if self.at("macro_rules") and nxt.text == "!":
                name = self.peek(2).text
            if (self.at("async") or self.at("const") or self.at("unsafe")) and nxt.text == "fn":
                kw, name = "fn", self.peek(2).text
            end = self.skip_item()
            what = "%s %s" % (kw, name) if name else "item starting with `%s`" % kw
            self.note_skip(what + (" (in `mod %s`)" % TARGET_MOD if self.in_target else ""), first.line, end)

    def parse_impl(self, hdr):
        if self.role != "cmain":
            return su.Parser.parse_impl(self, hdr)
        trait, targs, ty, brace, gen = hdr
        line = self.tok.line
        # the trait's type argument (`Encoder<DatagramPacket>`)
        k = self.pos
        texts = [x.text for x in self.toks[k:brace]]
        targ = None
        if trait in texts:
            i = texts.index(trait)
            if texts[i + 1:i + 2] == ["<"] and texts[i + 3:i + 4] == [">"]:
                targ = texts[i + 2]
        self.pos = brace
        self.expect("{")
        self.generic = gen
        types, fns = {}, []
        while not self.at("}"):
            attrs = self.parse_attrs()
            self.check_attrs(attrs)
            self.parse_vis()
            if self.at("type"):
                self.advance()
                n = self.ident().text
                self.expect("=")
                types[n] = self.parse_type()
                self.expect(";")
            elif self.at("fn"):
                fn = self.parse_fn()
                fn.generic = gen
                fns.append(fn)
            else:
                raise Unsupported("`%s` item in `impl %s for %s`" % (self.tok.text, trait, ty), self.tok.line)
        self.expect("}")
        self.generic = None
        return Node("impl", line, trait=trait, targs=targs, targ=targ, ty=ty, types=types, fns=fns, generic=gen)

    def parse_fn(self):
        if self.role != "cmain":
            return su.Parser.parse_fn(self)
        # a tuple pattern / `_` in parameter position: replaced by a fresh name; the pattern becomes the first `let` of the body
        k = self.pos
        assert self.toks[k].text == "fn"
        j = k + 2
        if self.toks[j].text != "(":
            return su.Parser.parse_fn(self)
        pats = []
        depth = 0
        at_start = False
        while True:
            t = self.toks[j]
            if t.kind == "eof":
                raise Unsupported("fn without a body", self.toks[k].line)
            if t.text == "(" and t.kind == "punct":
                depth += 1
                if depth == 1:
                    at_start = True
                    j += 1
                    continue
                if depth == 2 and at_start:
                    # a tuple pattern
                    m = j + 1
                    names = []
                    while True:
                        x = self.toks[m]
                        if x.kind != "ident" or (x.text in pw.RUST_KEYWORDS and x.text != "_"):
                            raise Unsupported("parameter pattern (only a tuple of names)", x.line)
                        names.append(x.text)
                        m += 1
                        if self.toks[m].text == ",":
                            m += 1
                            if self.toks[m].text == ")":
                                break
                            continue
                        if self.toks[m].text == ")":
                            break
                        raise Unsupported("parameter pattern (only a tuple of names)", self.toks[m].line)
                    if self.toks[m + 1].text != ":":
                        raise Unsupported("parameter pattern without a type", self.toks[m].line)
                    self.nparam += 1
                    fresh = "param_%d" % self.nparam
                    if fresh in self.idents:
                        raise Unsupported("the source uses the identifier `%s`, which is a generated name" % fresh, t.line)
                    nt = copy.copy(t)
                    nt.kind, nt.text = "ident", fresh
                    self.toks[j:m + 1] = [nt]
                    pats.append((fresh, names, t.line))
                    depth -= 1
                    at_start = False
                    j += 1
                    continue
            elif t.text == ")" and t.kind == "punct":
                depth -= 1
                if depth == 0:
                    break
            elif t.text == "," and t.kind == "punct" and depth == 1:
                at_start = True
                j += 1
                continue
            elif depth == 1 and at_start and t.kind == "ident" and t.text == "_" and self.toks[j + 1].text == ":":
                self.nparam += 1
                fresh = "unused_%d" % self.nparam
                if fresh in self.idents:
                    raise Unsupported("the source uses the identifier `%s`, which is a generated name" % fresh, t.line)
                nt = copy.copy(t)
                nt.text = fresh
                self.toks[j] = nt
            at_start = False
            j += 1
        fn = su.Parser.parse_fn(self)
        lets = []
        for fresh, names, line in pats:
            subs = [Node("pwild", line) if n == "_" else Node("pbind", line, name=n) for n in names]
            lets.append(Node("lettuple", line, pat=Node("ptuple", line, subs=subs), expr=Node("var", line, name=fresh)))
        fn.body.stmts[0:0] = lets
        fn.param_pats = {fresh: "(%s)" % ", ".join(names) for fresh, names, _ in pats}
        return fn

    def parse_primary(self, ns):
        t = self.tok
        if self.role == "cmain" and self.at("||"):
            # a closure without parameters: `|| e`
            self.advance()
            if self.at("{") or self.at("->"):
                raise Unsupported("closure with a block body", t.line)
            body = self.parse_expr()
            return Node("closure", t.line, params=[], body=body)
        return su.Parser.parse_primary(self, ns)


# --------------------------------------------------------------------------------------------
# type checker + emitter
# --------------------------------------------------------------------------------------------

_SuGen = su.Gen


class Gen(_SuGen):
    INSTANCE = None

    def __init__(self, all_idents, uses):
        _SuGen.__init__(self, all_idents, uses)
        Gen.INSTANCE = self
        self.my_assoc = {}
        self.client = False        # True once udp.rs is done and the argument is being translated
        self.clone_ok = set()      # structs with #[derive(Clone)]
        self.client_ext_used = []
        self.uses_y = False

    # ------------------------------------------------------------------ types
    def resolve_type(self, t):
        if t.kind == "tname" and t.segs[0] == "Self" and len(t.segs) == 2 and t.segs[1] in self.my_assoc:
            return self.resolve_type(self.my_assoc[t.segs[1]])
        if t.kind == "tname" and self.client and t.segs == ["SocketAddr"] and not t.args:
            if self.in_main:
                self.require_use("SocketAddr", t.line)
            return "SocketAddr", False
        if t.kind == "tname" and self.client and self.in_main and t.segs == [ALIAS] and not t.args and ALIAS in self.aliases:
            self.require_use(ALIAS, t.line)
        return _SuGen.resolve_type(self, t)

    # ------------------------------------------------------------------ calls
    def call_ext(self, key, recv, arg_nodes, pre, line):
        if key in CLIENT_EXT:
            x = CLIENT_EXT[key]
            if key not in self.client_ext_used:
                self.client_ext_used.append(key)
            self.uses_y = True
            return self.emit_call("%s.%s" % (Y, x.field), recv, arg_nodes, x.params, x.ret, x.doc.split("`")[1], pre, line)
        return _SuGen.call_ext(self, key, recv, arg_nodes, pre, line)

    def emit_call(self, fn_term, recv, arg_nodes, params, ret, what, pre, line):
        # as translate_sspayload: one call may borrow disjoint fields of one variable
        if len(arg_nodes) != len(params):
            raise Unsupported("%s takes %d argument(s), %d given (rustc would reject)" % (what, len(params), len(arg_nodes)), line)
        terms, outs = [], []

        def overlaps(v, fields):
            for w, g in outs:
                if w.name == v.name:
                    n = min(len(fields), len(g))
                    if list(fields[:n]) == list(g[:n]):
                        return True
            return False
        if recv is not None:
            v, fields, rmut = recv
            terms.append(self.place_term(v, fields) if v is not None else fields)
            if rmut:
                outs.append((v, fields))
        for a, (want, mut) in zip(arg_nodes, params):
            if mut:
                v, fields, ty = self.place_of(a, "passing `&mut` to %s" % what)
                if not self.compatible(ty, want):
                    raise Unsupported("argument of %s has type `%s`, expected `%s` (rustc would reject)" % (what, type_str(ty), type_str(want)), a.line)
                if overlaps(v, fields):
                    raise Unsupported("`%s` borrowed mutably twice (rustc would reject)" % show_expr(a), a.line)
                terms.append(self.place_term(v, fields))
                outs.append((v, fields))
            else:
                ty, t = self.ex(a, None if want in ("bytes", "SliceU8") else want, pre)
                if not self.compatible(ty, want):
                    raise Unsupported("argument of %s has type `%s`, expected `%s` (rustc would reject)" % (what, type_str(ty), type_str(want)), a.line)
                terms.append(t)
        x = self.fresh()
        names, later = [], []
        for v, fields in outs:
            if fields or getattr(v, "alias", None):
                tmp = self.fresh()
                names.append(tmp)
                later.append((v, fields, tmp))
            else:
                names.append(self.vname(v))
        pat = "(%s)" % ", ".join(names + [x]) if names else x
        pre.append("Flow.bind (Flow.call (%s)) fun %s =>" % (" ".join([fn_term] + terms), pat))
        for v, fields, tmp in later:
            self.write_place(self.lookup(v.name, line), fields, tmp, pre)
        return ret, x

    # ------------------------------------------------------------------ expressions
    def ex(self, e, expected, pre):
        if e.kind == "path" and list(e.segs) == ["u64", "MAX"] and getattr(e, "targ", None) is None and not getattr(e, "call", False):
            return "u64", "U64.MAX"
        return _SuGen.ex(self, e, expected, pre)

    def is_anyhow_closure(self, c):
        """`|| anyhow!("..", args)` whose arguments are variables / field paths (nothing to evaluate)"""
        if c.kind != "closure" or c.params:
            return False
        b = c.body
        if not (b.kind == "macro" and b.name == "anyhow"):
            return False

        def plain(a):
            a = self.strip(a)
            if a.kind in ("lit", "str", "strlit"):
                return True
            if a.kind == "var":
                return True
            if a.kind == "field":
                return plain(a.base)
            return False
        return all(plain(a) for a in b.args)

    def ex_mcall(self, e, expected, pre):
        n = e.name
        if n == "ok_or_else" and len(e.args) == 1:
            if not self.is_anyhow_closure(e.args[0]):
                raise Unsupported("closure of `.ok_or_else(..)` is not `|| anyhow!(\"..\", <places>)`", e.line)
            if self.in_main:
                self.require_use("anyhow", e.line)
            want = ("option", expected[1]) if isinstance(expected, tuple) and expected[0] == "result" else None
            ty, t = self.ex(e.base, want, pre)
            if not (isinstance(ty, tuple) and ty[0] == "option"):
                raise Unsupported("`.ok_or_else(..)` on a `%s`" % type_str(ty), e.line)
            return ("result", ty[1]), "(Option.ok_or_else %s)" % t
        bt = self.try_type(e.base)
        if n == "checked_add" and len(e.args) == 1 and bt == "u64":
            _, a = self.ex(e.base, "u64", pre)
            (b,) = self.args(e, ["u64"], pre, "`checked_add`")
            return ("option", "u64"), "(U64.checked_add %s %s)" % (a, b)
        if n == "clone" and not e.args and isinstance(bt, str) and (bt in self.clone_ok or bt == "Address"):
            return self.ex(e.base, expected, pre)
        return _SuGen.ex_mcall(self, e, expected, pre)

    def try_type(self, e):
        if e.kind == "mcall" and e.name == "clone" and not e.args:
            t = self.try_type(e.base)
            return t if isinstance(t, str) and (t in self.clone_ok or t == "Address") else None
        if e.kind == "mcall" and e.name == "checked_add" and len(e.args) == 1 and self.try_type(e.base) == "u64":
            return ("option", "u64")
        if e.kind == "mcall" and e.name == "ok_or_else" and len(e.args) == 1:
            t = self.try_type(e.base)
            if isinstance(t, tuple) and t[0] == "option":
                return ("result", t[1])
            return None
        if e.kind == "path" and list(e.segs) == ["u64", "MAX"]:
            return "u64"
        return _SuGen.try_type(self, e)

    # ------------------------------------------------------------------ match: a tuple pattern under a constructor
    def case_tree(self, cols, rows, ind, mode, line):
        newrows, changed = [], False
        for pats, binds, arm in rows:
            pats, binds = list(pats), list(binds)
            for i, p in enumerate(pats):
                term, ty, place = cols[i]
                if p.kind == "ptuple" and isinstance(ty, tuple) and ty[0] == "tuple":
                    if len(ty[1]) != len(p.subs):
                        raise Unsupported("tuple pattern `%s` for a `%s` (rustc would reject)" % (st.show_pat(p), type_str(ty)), p.line)
                    k = len(p.subs)
                    for j, sp in enumerate(p.subs):
                        proj = "".join(".2" for _ in range(j)) + (".1" if j < k - 1 else "")
                        if sp.kind == "pbind" and not getattr(sp, "byref", None):
                            binds.append((sp, ("%s%s" % (term, proj), ty[1][j], None)))
                        elif sp.kind != "pwild":
                            raise Unsupported("nested pattern inside a tuple pattern", sp.line)
                    pats[i] = Node("pwild", p.line)
                    changed = True
            newrows.append((pats, binds, arm))
        return _SuGen.case_tree(self, cols, newrows if changed else rows, ind, mode, line)


PRELUDE = r'''
/-! ### fixed run-time support (not derived from the source): library semantics

Everything of `Octo.SsUdpGen` (`Flow.call`, `Ext`, `ExtTypes`, the structs `Context` / `Session` / `SessionCodec` /
`AEADCipherCodec`, the function `SessionCodec.decode`), of `Octo.AddrGen` (`Address`, `Cursor`, `RResult`) and of `Octo.PWGen`
(`Res`, `Flow`, `PacketWindowFilter`, `PacketWindowFilter.validate_packet_id`) is used as generated there. -/

/-- `u64::MAX` -/
def U64.MAX : UInt64 := 18446744073709551615
/-- `a.checked_add(b)` = `None` on overflow (in every build profile) -/
def U64.checked_add (a b : UInt64) : Option UInt64 := if a.toNat + b.toNat < 2 ^ 64 then some (a + b) else none
/-- `opt.ok_or_else(|| anyhow!(..))`: the error value is not modelled -/
def Option.ok_or_else {α : Type} : Option α → RResult α
  | some a => .ok a
  | none => .err
'''


# --------------------------------------------------------------------------------------------
# driver
# --------------------------------------------------------------------------------------------

def first_existing(cands, what):
    for c in cands:
        if os.path.exists(c):
            return c
    raise Unsupported("source file for %s not found (looked for %s)" % (what, ", ".join(cands)), 1)


def read_tokens(path):
    data = open(path, "rb").read()
    try:
        src = data.decode("utf-8")
    except UnicodeDecodeError:
        raise Unsupported("non-UTF-8 source %s" % path, 1)
    return data, tn.tokenize(src)


def patch_def(lines, extra):
    """add binders after `(ov : Bool)` on the `def` line of a generated function"""
    out = []
    for ln in lines:
        if ln.startswith("def ") and extra:
            m = re.match(r"^(def \S+ \(\w+ : Bool\))( .*)$", ln)
            if not m:
                raise AssertionError("unexpected def line: %s" % ln)
            ln = m.group(1) + " " + extra + m.group(2)
        out.append(ln)
    return out


def translate(path, out_path):
    data, toks = read_tokens(path)
    digest = hashlib.sha256(data).hexdigest()
    p = Parser(toks, "cmain")
    p.parse_file()
    if p.found_mod != 1:
        raise Unsupported("`mod %s { .. }` not found exactly once" % TARGET_MOD, 1)
    here = os.path.dirname(os.path.abspath(path))
    root = os.path.normpath(os.path.join(here, "..", "..", ".."))
    udp_path = first_existing([os.path.join(root, "octo-squirrel", "src", "codec", "shadowsocks", "udp.rs"),
                               os.path.join(here, "codec_shadowsocks_udp.rs")], "`codec::shadowsocks::udp`")
    pw_path = first_existing([os.path.join(root, "octo-squirrel", "src", "manager", "packet_window.rs"),
                              os.path.join(here, "packet_window.rs")], "`manager::packet_window`")
    dg_path = first_existing([os.path.join(root, "octo-squirrel", "src", "codec.rs"), os.path.join(here, "codec.rs")],
                             "`codec::%s`" % ALIAS)
    for q in (udp_path, pw_path, dg_path):
        if os.path.abspath(q) == os.path.abspath(path):
            raise Unsupported("%s is the argument itself" % os.path.basename(q), 1)

    # -- 1. the codec layer: translate_ssudp's own pipeline on udp.rs; our `Gen` keeps its tables
    su.Gen = Gen   # translate_ssudp.translate instantiates `Gen` by this name
    try:
        ssudp_text = su.translate(udp_path, out_path)
    except Unsupported as u:
        raise Unsupported("%s (in %s, read by translate_ssudp)" % (u.what, os.path.basename(udp_path)), u.line)
    g = Gen.INSTANCE
    udp_digest = hashlib.sha256(open(udp_path, "rb").read()).hexdigest()
    out_dir = os.path.dirname(os.path.abspath(out_path))
    ssudp_gen = os.path.join(out_dir, "SsUdpGen.lean")
    if os.path.exists(ssudp_gen):
        have = open(ssudp_gen, encoding="utf-8").read().split("\n")
        want = ssudp_text.split("\n")
        if have[:1] + have[2:] != want[:1] + want[2:]:
            raise OSError("%s was not generated from %s and the files it reads as they are now: run translate_ssudp.py first"
                          % (ssudp_gen, udp_path))

    # -- 2. packet_window.rs: the signature of `validate_packet_id`; PacketWindowGen.lean must be from this file
    pdata, ptoks = read_tokens(pw_path)
    pw_digest = hashlib.sha256(pdata).hexdigest()
    ptext = " ".join(t.text for t in ptoks if t.kind != "eof")
    if ptext.count(PW_SIG + " {") != 1 or ptext.count("fn validate_packet_id") != 1:
        raise Unsupported("`%s` not found exactly once in %s" % (PW_SIG.replace(" ", ""), os.path.basename(pw_path)), 1)
    if not re.search(r"\bimpl PacketWindowFilter \{", ptext) or not re.search(r"\bpub struct PacketWindowFilter \{", ptext):
        raise Unsupported("`struct PacketWindowFilter` / `impl PacketWindowFilter` not found in %s" % os.path.basename(pw_path), 1)
    pw_gen = os.path.join(out_dir, "PacketWindowGen.lean")
    if os.path.exists(pw_gen):
        m = re.search(r"sha256: (\w+)", open(pw_gen, encoding="utf-8").read())
        if m and m.group(1) != pw_digest:
            raise OSError("%s was generated from another packet_window.rs (sha256 %s, this one is %s): run translate_pw.py first"
                          % (pw_gen, m.group(1)[:16], pw_digest[:16]))

    # -- 3. codec.rs: the alias
    ddata, dtoks = read_tokens(dg_path)
    dg_digest = hashlib.sha256(ddata).hexdigest()
    dp = Parser(dtoks, "datagram")
    if ALIAS not in dp.aliases or dp.aliases[ALIAS][0] is not None:
        raise Unsupported("`type %s = ..;` not found in %s" % (ALIAS, os.path.basename(dg_path)), 1)
    if ALIAS in g.aliases:
        raise Unsupported("`type %s` is also defined in udp.rs" % ALIAS, 1)
    g.aliases = dict(g.aliases)
    g.aliases[ALIAS] = dp.aliases[ALIAS]

    # -- 4. udp.rs once more: `SessionCodec::is_aead_2022` (translated here), the signature of `SessionCodec::encode`, derives
    saved_targets = su.MAIN_TARGETS
    su.MAIN_TARGETS = {"SessionCodec": ("is_aead_2022",)}
    try:
        _, utoks, up = su.parse_source(udp_path, "main")
    finally:
        su.MAIN_TARGETS = saved_targets
    for key, x in CLIENT_EXT.items():
        got = up.sigs.get((x.owner, key[1]))
        if got is None:
            raise Unsupported("assumed external %s: no `fn %s` found in %s" % (x.doc.split("`")[1], key[1], os.path.basename(udp_path)), 1)
        got_n = re.sub(r"^pub (\( [a-z]+ \) )?", "", got)
        if got_n != x.sig:
            raise Unsupported("assumed external %s has another signature in %s: `%s`" % (x.doc.split("`")[1], os.path.basename(udp_path), got), 1)
    for s in up.structs:
        if "Clone" in getattr(s, "derives", []):
            g.clone_ok.add(s.name)
    aead = [(im, fn) for im in up.impls for fn in im.fns if im.ty == "SessionCodec" and fn.name == "is_aead_2022"]
    if len(aead) != 1:
        raise Unsupported("`SessionCodec::is_aead_2022` not found exactly once in %s" % os.path.basename(udp_path), 1)

    g.client = True
    st.USE_SUFFIX.update(USE_SUFFIX_MORE)
    su.EXT_FNS.update(CLIENT_EXT)
    uses = dict(p.uses)
    uses.update(p.mod_uses)
    main_idents = set(t.text for t in toks if t.kind == "ident")
    g.idents |= main_idents
    for bad in (g.ov, g.X, g.T, Y, tt.SELF_NAME[0]):
        if bad in main_idents:
            raise Unsupported("the source uses the identifier `%s`, which is a generated name" % bad, 1)

    side_out = []
    g.out = side_out
    im, fn = aead[0]
    g.uses = up.uses
    g.generic = im.generic
    g.self_type = "SessionCodec"
    try:
        sig = g.fn_sig(fn, "SessionCodec", "SessionCodec.is_aead_2022", [g.X, im.generic])
        if sig.recv != "ref" or sig.params or sig.ret != "bool":
            raise Unsupported("signature of `SessionCodec::is_aead_2022`", fn.line)
        g.fns[("SessionCodec", "is_aead_2022")] = sig
        side_out.append("/-! ### `SessionCodec::is_aead_2022` (udp.rs; skipped by translate_ssudp.py, translated here) -/")
        side_out.extend(g.gen_body(fn, "SessionCodec", "SessionCodec", sig, True, "udp.rs impl SessionCodec", im.generic))
        side_out.append("")
    except Unsupported as u:
        raise Unsupported("%s (in %s)" % (u.what, os.path.basename(udp_path)), u.line)

    # PacketWindowFilter: the struct and the method of Octo.PWGen
    if "PacketWindowFilter" in g.structs or "PacketWindowFilter" in g.enums:
        raise Unsupported("`PacketWindowFilter`: the name is taken", 1)
    g.structs["PacketWindowFilter"] = [("last_packet_id", "u64")]
    g.generics["PacketWindowFilter"] = None
    st.KNOWN_NAMED.add("PacketWindowFilter")
    g.fns[("PacketWindowFilter", "validate_packet_id")] = FnSig(
        "PacketWindowFilter.validate_packet_id", "mut", [("u64", False), ("u64", False)], "bool",
        "`PacketWindowFilter::validate_packet_id`", [], False)

    # -- 5. the argument
    main_out = []
    g.out = main_out
    g.in_main = True
    g.uses = uses
    sts = [s for s in p.structs if s.name == TARGET_STRUCT]
    if len(sts) != 1:
        raise Unsupported("`struct %s` not found exactly once in `mod %s`" % (TARGET_STRUCT, TARGET_MOD), 1)
    sdef = sts[0]
    impls = {}
    for im in p.impls:
        if im.trait in impls:
            raise Unsupported("two `impl %s for %s`" % (im.trait, TARGET_STRUCT), im.line)
        impls[im.trait] = im
    for trait, fname in TARGET_FNS.items():
        if trait not in impls or [f.name for f in impls[trait].fns] != [fname]:
            raise Unsupported("`impl %s for %s { fn %s }` not found" % (trait, TARGET_STRUCT, fname), 1)
        g.require_use(trait, impls[trait].line)
    if impls["Encoder"].targ != ALIAS:
        raise Unsupported("`impl Encoder<%s> for %s` (the item type is not `%s`)" % (impls["Encoder"].targ, TARGET_STRUCT, ALIAS), impls["Encoder"].line)
    gens = set([sdef.generic] + [im.generic for im in p.impls])
    if len(gens) != 1 or None in gens:
        raise Unsupported("`%s` and its impls do not share one const generic" % TARGET_STRUCT, sdef.line)
    generic = gens.pop()
    for f in g.fns.values():
        if len(getattr(f, "prefix", [])) == 2:
            f.prefix[1] = generic
    if TARGET_STRUCT in g.structs or TARGET_STRUCT in g.enums:
        raise Unsupported("`struct %s`: the name is taken" % TARGET_STRUCT, sdef.line)
    g.register_struct(sdef)

    main_out.append("/-! ### `impl Encoder<%s> for %s`, `impl Decoder for %s` -/" % (ALIAS, TARGET_STRUCT, TARGET_STRUCT))
    method_lines = []
    for trait in ("Encoder", "Decoder"):
        im = impls[trait]
        fn = im.fns[0]
        if fn.recv != "mut":
            raise Unsupported("`%s::%s` without `&mut self`" % (TARGET_STRUCT, fn.name), fn.line)
        g.generic = im.generic
        g.self_type = TARGET_STRUCT
        g.my_assoc = im.types
        su.alpha_rename(fn, su.mut_param_names(fn, g))
        sig = g.fn_sig(fn, TARGET_STRUCT, "%s.%s" % (TARGET_STRUCT, lean_name(fn.name)), [g.X, Y, im.generic])
        g.fns[(TARGET_STRUCT, fn.name)] = sig
        g.in_cycle = False
        g.uses_y = False
        lines = g.gen_body(fn, TARGET_STRUCT, TARGET_STRUCT, sig, True, "impl %s for %s" % (trait, TARGET_STRUCT), im.generic)
        for fresh, pat in getattr(fn, "param_pats", {}).items():
            lines.insert(0, "-- the parameter pattern `%s` is the parameter `%s` and a first statement `let %s = %s;`" % (pat, fresh, pat, fresh))
        method_lines.append((fn.name, lines))
        g.my_assoc = {}
    for name, lines in method_lines:
        main_out.extend(lines)
        main_out.append("")

    # the free functions
    free_out = []
    if p.fns:
        free_out.append("/-! ### free functions of `mod %s` -/" % TARGET_MOD)
    seen = set()
    for fn in p.fns:
        if fn.name in seen:
            raise Unsupported("two `fn %s`" % fn.name, fn.line)
        seen.add(fn.name)
        fn.recv = None
        g.generic = None
        g.self_type = None
        su.alpha_rename(fn, su.mut_param_names(fn, g))
        sig = g.fn_sig(fn, TARGET_MOD, lean_name(fn.name), [])
        g.uses_y = False
        lines = g.gen_body(fn, TARGET_MOD, None, sig, True, "mod %s" % TARGET_MOD, None)
        if g.uses_y:
            raise Unsupported("`fn %s` calls an assumed external" % fn.name, fn.line)
        uses_sa = any("SocketAddr" in ln for ln in lines if not ln.startswith("--"))
        free_out.extend(patch_def(lines, "{SocketAddr : Type}" if uses_sa else ""))
        free_out.append("")
    for name in FREE_FNS:
        if name not in seen:
            p.skipped.append("fn %s: not found (nothing generated for it)" % name)
    g.in_main = False

    # the record of this layer's assumed externals
    ext_out = ["/-! ### the assumed externals of this layer (not translated): signatures read from udp.rs -/",
               "structure ClientExt (T : ExtTypes) where"]
    for key in CLIENT_EXT:
        x = CLIENT_EXT[key]
        tys, outs = [], []
        if x.recv is not None:
            tys.append(lean_atom(x.recv[0]))
            if x.recv[1] == "mut":
                outs.append(lean_type(x.recv[0]))
        for ty, mut in x.params:
            tys.append(lean_atom("SliceU8" if ty == "bytes" else ty))
            if mut:
                outs.append(lean_type(ty))
        ret = lean_type(x.ret)
        res = " × ".join([("(%s)" % o if "×" in o else o) for o in outs] + [("(%s)" % ret if "×" in ret else ret)]) if outs else ret
        ext_out.append("  /-- %s%s -/" % (x.doc, ("; the result is (%s, returned value)" % ", ".join(
            (["final `*self`"] if x.recv and x.recv[1] == "mut" else []) + ["final `*arg%d`" % (i + 1) for i, (_, m) in enumerate(x.params) if m])) if outs else ""))
        ext_out.append("  %s : %sRes (%s)" % (x.field, "".join(t + " → " for t in tys), res))
    ext_out.append("")

    # `Y` binder on the methods
    final_main = []
    for ln in main_out:
        if ln.startswith("def %s." % TARGET_STRUCT):
            ln2 = ln.replace("(%s : Ext T)" % g.X, "(%s : Ext T) (%s : ClientExt T)" % (g.X, Y), 1)
            if ln2 == ln:
                raise AssertionError("unexpected def line: %s" % ln)
            ln = ln2
        final_main.append(ln)

    rel = lambda q, tail: tail if q.replace(os.sep, "/").endswith(tail) else os.path.basename(q)  # noqa: E731
    out = []
    out.append("/- GENERATED by translate_ssclient.py — do not edit.")
    out.append("   source: %s" % path)
    out.append("   sha256: %s" % digest)
    out.append("   further sources (found relative to the first):")
    out.append("     - codec: %s (sha256 %s): translated by translate_ssudp.py (run in-process, with every file it reads and every"
               % (rel(udp_path, "octo-squirrel/src/codec/shadowsocks/udp.rs"), udp_digest))
    out.append("       check it makes) into Octo.SsUdpGen; the calls of `SessionCodec::decode` go there; `SessionCodec::is_aead_2022` is")
    out.append("       translated here; signature of `SessionCodec::encode`; `#[derive(Clone)]` of `Session`")
    out.append("     - window: %s (sha256 %s): signature of `PacketWindowFilter::validate_packet_id` (body:"
               % (rel(pw_path, "octo-squirrel/src/manager/packet_window.rs"), pw_digest))
    out.append("       Octo.PWGen, translate_pw.py)")
    out.append("     - datagram: %s (sha256 %s): `type %s = %s;`" % (rel(dg_path, "octo-squirrel/src/codec.rs"), dg_digest, ALIAS,
                                                                      show_type(dp.aliases[ALIAS][1])))
    out.append("")
    out.append("   Statement-by-statement translation of `mod %s`: `struct %s`, `%s::encode` (trait `Encoder<%s>`), `%s::decode`"
               % (TARGET_MOD, TARGET_STRUCT, TARGET_STRUCT, ALIAS, TARGET_STRUCT))
    out.append("   (trait `Decoder`)%s, located by name.  Conventions of translate_ssudp.py"
               % ("".join(", `fn %s`" % f.name for f in p.fns)))
    out.append("   (see Octo/Gen/SsUdpGen.lean): `&mut self` / `&mut` arguments come back as a tuple next to the returned value (also on")
    out.append("   `Err`, with whatever had been assigned by then), `e?` = Flow.question, lifetimes are erased.  In addition here:")
    out.append("   * a tuple pattern as a parameter (`(content, addr): %s`) = a parameter and a first `let` that takes it apart;" % ALIAS)
    out.append("     `_: T` = a parameter that is not used;")
    out.append("   * `a.checked_add(b)` = U64.checked_add (`None` on overflow, in both profiles - no `Flow.arith`), `u64::MAX`,")
    out.append("     `opt.ok_or_else(|| anyhow!(\"..\", <places>))` = Option.ok_or_else (the error value is not modelled; the format")
    out.append("     arguments must be variables / field paths: nothing is evaluated);")
    out.append("   * `s.clone()` of a `#[derive(Clone)]` struct / an `Address` is the value;")
    out.append("   * `warn!(..)`: arguments are evaluated only when the level is enabled and must not change anything (here: places only,")
    out.append("     nothing is emitted);")
    out.append("   * `self.filter.validate_packet_id(..)` is `Octo.PWGen.PacketWindowFilter.validate_packet_id` (new filter state, answer);")
    out.append("   * `SocketAddr` is an opaque type (a type parameter of the functions that mention it).")
    out.append("   ASSUMED EXTERNALS (fields of `ClientExt`, parameter `%s`):" % Y)
    for key in CLIENT_EXT:
        x = CLIENT_EXT[key]
        out.append("     - %s: %s%s" % (x.field, x.doc, "" if key in g.client_ext_used else "   (not used)"))
    out.append("   and the record `Octo.SsUdpGen.Ext` (cryptography, clock, cipher cache, user table, legacy chunk layer: see the header of")
    out.append("   Octo/Gen/SsUdpGen.lean), passed through to `SessionCodec.decode` as `%s`.  The random session id is drawn by" % g.X)
    out.append("   `DatagramPacketCodec::new` (`Session::from(Mode::Client)`), which is not translated: `session` is a field of the state.")
    out.append("   names are bound through the `use` items of the file and of `mod %s` (checked for: %s)." % (TARGET_MOD, ", ".join(sorted(
        n for n in g.used_names if n in uses))))
    out.append("   skipped (not parsed, bracket matching only):")
    if p.nuse:
        out.append("     - %d `use` items (read for name binding only)" % p.nuse)
    for s in p.skipped:
        out.append("     - %s" % s)
    out.append("-/")
    out.append("import Octo.Gen.SsUdpGen")
    out.append("import Octo.Gen.PacketWindowGen")
    out.append("set_option linter.unusedVariables false")
    out.append("namespace Octo.SsClientGen")
    out.append("open Octo.PWGen Octo.AddrGen Octo.SsUdpGen")
    out.append(PRELUDE)
    out.extend(ext_out)
    out.extend(side_out)
    out.extend(final_main)
    out.extend(free_out)
    out.append("end Octo.SsClientGen")
    return "\n".join(out) + "\n"


def main(argv):
    if len(argv) != 3:
        sys.stderr.write("usage: translate_ssclient.py <path/to/octo-squirrel-client/src/client/shadowsocks.rs> <out.lean>\n")
        return 2
    try:
        text = translate(argv[1], argv[2])
    except Unsupported as u:
        sys.stderr.write("translate_ssclient: unsupported: %s at line %d\n" % (u.what, u.line))
        return 3
    except OSError as e:
        sys.stderr.write("translate_ssclient: %s\n" % e)
        return 2
    try:
        with open(argv[2], "w", encoding="utf-8") as f:
            f.write(text)
    except OSError as e:
        sys.stderr.write("translate_ssclient: %s\n" % e)
        return 2
    return 0


if __name__ == "__main__":
    sys.exit(main(sys.argv))
