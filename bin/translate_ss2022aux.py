#!/usr/bin/env python3
"""translate_ss2022aux.py <checkout root> <out.lean>

Source-to-Lean translator for the small Shadowsocks key-derivation / header files

    octo-squirrel/src/codec/shadowsocks/aead_2022.rs       (session_sub_key, now, validate_timestamp,
                                                           next_padding_length, new_encoder, new_decoder)
    octo-squirrel/src/codec/shadowsocks/aead_2022/tcp.rs   (new_header, new_decoder_with_eih, with_eih, make_eih)
    octo-squirrel/src/codec/shadowsocks/aead_2022/udp.rs   (nonce_length, new_cipher, aes_encrypt_in_place,
                                                           aes_decrypt_in_place, with_eih, make_eih)
    octo-squirrel/src/codec/shadowsocks/aead.rs            (new_encoder, new_decoder, hkdfsha1, new_auth)

i.e. the functions that translate_sstcp.py / translate_ssudp.py take as ASSUMED EXTERNALS.  The generated module
`Octo.Ss2022AuxGen` imports `Octo.Gen.SsTcpGen` and uses its declarations of `CipherKind`, `Mode`, `ChunkEncoder`,
`ChunkDecoder`, `Identity`, `ServerUser` (generated from the same checkout), so that the generated functions have exactly
the types of the fields of `SsTcpGen.Ext`.

Tokenizer of translate_pw.py (byte strings `b".."` are handled by a pre-pass); the parser and the type-directed emitter for
the Rust subset of these four files are in this file.  Cryptographic primitives, random numbers, the clock and functions of
other files/crates are explicit fields of the record `Ext` (listed in the generated header), never defaulted.

exit 0: module written; exit 3: a construct outside the subset (one line on stderr, nothing written); exit 2: usage / IO.
"""
import hashlib
import os
import re
import sys

sys.path.insert(0, os.path.dirname(os.path.abspath(__file__)))
import translate_pw as pw  # noqa: E402
from translate_pw import Unsupported, Node  # noqa: E402

FILES = [
    ("a22", "codec/shadowsocks/aead_2022.rs", "aead_2022.rs"),
    ("tcp", "codec/shadowsocks/aead_2022/tcp.rs", "aead_2022_tcp.rs"),
    ("udp", "codec/shadowsocks/aead_2022/udp.rs", "aead_2022_udp.rs"),
    ("leg", "codec/shadowsocks/aead.rs", "aead.rs"),
]
# files whose function signatures are compared with the ones the translator knows
SIDE_FILES = [
    ("chunk", "codec/shadowsocks.rs", "shadowsocks.rs"),
    ("kind", "codec/aead.rs", "codec_aead.rs"),
    ("crypto", "crypto.rs", "crypto.rs"),
    ("user", "manager/shadowsocks.rs", "manager_shadowsocks.rs"),
    ("mode", "protocol/shadowsocks.rs", "protocol_shadowsocks.rs"),
]


def bytestr_prepass(src):
    """`b"..."` -> `__bytes "..."` outside comments and strings (line structure unchanged)"""
    out, i, n = [], 0, len(src)
    while i < n:
        c = src[i]
        if src.startswith("//", i):
            j = src.find("\n", i)
            j = n if j < 0 else j
            out.append(src[i:j]); i = j; continue
        if src.startswith("/*", i):
            j = src.find("*/", i + 2)
            j = n if j < 0 else j + 2
            out.append(src[i:j]); i = j; continue
        if c == '"':
            j = i + 1
            while j < n and src[j] != '"':
                if src[j] == "\\":
                    j += 1
                j += 1
            out.append(src[i:j + 1]); i = j + 1; continue
        if c == "b" and i + 1 < n and src[i + 1] == '"' and (i == 0 or not (src[i - 1].isalnum() or src[i - 1] == "_")):
            out.append("__bytes "); i += 1; continue
        if c.isalpha() or c == "_":
            j = i
            while j < n and (src[j].isalnum() or src[j] == "_"):
                j += 1
            out.append(src[i:j]); i = j; continue
        out.append(c); i += 1
    return "".join(out)


def str_value(tok):
    """bytes of a string literal token (simple escapes only)"""
    s = tok.text[1:-1]
    out, i = bytearray(), 0
    while i < len(s):
        if s[i] == "\\":
            i += 1
            m = {"n": 10, "r": 13, "t": 9, "\\": 92, "0": 0, '"': 34, "'": 39}
            if s[i] not in m:
                raise Unsupported("escape `\\%s` in a string literal" % s[i], tok.line)
            out.append(m[s[i]])
        else:
            out += s[i].encode("utf-8")
        i += 1
    return bytes(out)


# --------------------------------------------------------------------------------------------
# parser (items: use / mod / const / fn; statements; expressions)
# --------------------------------------------------------------------------------------------

BINOPS = [["||"], ["&&"], ["==", "!=", "<", ">", "<=", ">="], ["|"], ["^"], ["&"], ["<<", ">>"], ["+", "-"], ["*", "/", "%"]]


class P:
    def __init__(self, toks, fname):
        self.toks, self.pos, self.fname = toks, 0, fname
        self.consts, self.fns, self.skipped, self.uses = [], [], [], []

    @property
    def tok(self):
        return self.toks[self.pos]

    def peek(self, k=1):
        return self.toks[min(self.pos + k, len(self.toks) - 1)]

    def adv(self):
        t = self.toks[self.pos]
        if t.kind != "eof":
            self.pos += 1
        return t

    def at(self, text):
        t = self.tok
        return t.kind in ("punct", "ident") and t.text == text

    def accept(self, text):
        return self.adv() if self.at(text) else None

    def expect(self, text):
        if not self.at(text):
            raise Unsupported("%s: expected `%s`, found `%s`" % (self.fname, text, self.tok.text or "end of file"), self.tok.line)
        return self.adv()

    def ident(self):
        t = self.tok
        if t.kind != "ident":
            raise Unsupported("%s: expected an identifier, found `%s`" % (self.fname, t.text), t.line)
        return self.adv()

    def bad(self, what, line=None):
        raise Unsupported("%s: %s" % (self.fname, what), line or self.tok.line)

    def skip_balanced(self):
        """skip one item: to `;` at depth 0 or the end of the first balanced `{..}`; returns last line"""
        depth = 0
        while True:
            t = self.adv()
            if t.kind == "eof":
                self.bad("unterminated item")
            if t.kind == "punct" and t.text in "{([":
                depth += 1
            elif t.kind == "punct" and t.text in "})]":
                depth -= 1
                if depth == 0 and t.text == "}":
                    return t.line
            elif t.kind == "punct" and t.text == ";" and depth == 0:
                return t.line

    # ---- items
    def parse_file(self):
        while self.tok.kind != "eof":
            attrs = []
            while self.at("#"):
                line = self.adv().line
                self.expect("[")
                parts, depth = [], 1
                while depth:
                    t = self.adv()
                    if t.kind == "eof":
                        self.bad("unterminated attribute", line)
                    if t.text == "[":
                        depth += 1
                    elif t.text == "]":
                        depth -= 1
                        if not depth:
                            break
                    parts.append(t.text)
                attrs.append("".join(parts))
            start = self.tok.line
            if "cfg(test)" in attrs:
                end = self.skip_balanced()
                self.skipped.append("cfg(test) item, lines %d-%d" % (start, end))
                continue
            if attrs:
                self.bad("attribute `#[%s]` on an item" % attrs[0], start)
            if self.accept("pub"):
                if self.at("("):
                    self.skip_parens()
            if self.at("use"):
                toks = []
                self.adv()
                while not self.at(";"):
                    toks.append(self.adv().text)
                self.adv()
                self.uses.append("".join(toks))
            elif self.at("mod"):
                self.adv(); name = self.ident().text
                if self.accept(";"):
                    self.skipped.append("`mod %s;` (a file of its own)" % name)
                else:
                    self.bad("inline module `%s`" % name, start)
            elif self.at("const"):
                self.adv(); name = self.ident().text; self.expect(":")
                ty = self.parse_type(); self.expect("=")
                val = self.parse_expr(); self.expect(";")
                self.consts.append(Node("const", start, name=name, ty=ty, val=val))
            elif self.at("fn"):
                self.fns.append(self.parse_fn())
            else:
                self.bad("item starting with `%s`" % self.tok.text, start)

    def skip_parens(self):
        depth = 0
        while True:
            t = self.adv()
            if t.text == "(":
                depth += 1
            elif t.text == ")":
                depth -= 1
                if depth == 0:
                    return
            elif t.kind == "eof":
                self.bad("unbalanced parentheses")

    def parse_fn(self):
        line = self.expect("fn").line
        name = self.ident().text
        generics = []
        if self.accept("<"):
            while not self.at(">"):
                self.expect("const"); g = self.ident().text; self.expect(":"); gty = self.ident().text
                if gty != "usize":
                    self.bad("const generic of type `%s`" % gty, line)
                generics.append(g)
                if not self.accept(","):
                    break
            self.expect(">")
        self.expect("(")
        params = []
        while not self.at(")"):
            pl = self.tok.line
            if self.at("mut") or self.at("self") or self.at("&"):
                self.bad("parameter form `%s`" % self.tok.text, pl)
            pname = self.ident().text; self.expect(":")
            params.append(Node("param", pl, name=pname, ty=self.parse_type()))
            if not self.accept(","):
                break
        self.expect(")")
        ret = Node("ty_unit", line)
        if self.accept("->"):
            ret = self.parse_type()
        if self.at("where"):
            self.bad("`where` clause", line)
        s0 = self.pos
        body = self.parse_block()
        sigtext = None
        return Node("fn", line, name=name, generics=generics, params=params, ret=ret, body=body, end=self.toks[self.pos - 1].line)

    # ---- types
    def parse_type(self):
        line = self.tok.line
        if self.accept("&"):
            if self.tok.kind == "lifetime":
                self.adv()
            m = bool(self.accept("mut"))
            return Node("ty_ref", line, mut=m, inner=self.parse_type())
        if self.accept("["):
            inner = self.parse_type()
            if self.accept(";"):
                toks = []
                while not self.at("]"):
                    toks.append(self.adv().text)
                self.expect("]")
                return Node("ty_array", line, inner=inner, length="".join(toks))
            self.expect("]")
            return Node("ty_slice", line, inner=inner)
        if self.accept("("):
            items = []
            while not self.at(")"):
                items.append(self.parse_type())
                if not self.accept(","):
                    break
            self.expect(")")
            if not items:
                return Node("ty_unit", line)
            return Node("ty_tuple", line, items=items)
        segs = [self.ident().text]
        while self.at("::"):
            self.adv(); segs.append(self.ident().text)
        args = []
        if self.accept("<"):
            while not self.at(">"):
                if self.tok.kind == "int" or self.tok.kind == "ident" and self.peek().text in (",", ">") and self.tok.text.isupper():
                    args.append(Node("ty_const", line, text=self.adv().text))
                else:
                    args.append(self.parse_type())
                if not self.accept(","):
                    break
            self.expect(">")
        return Node("ty_path", line, segs=segs, args=args)

    # ---- blocks / statements
    def parse_block(self):
        line = self.expect("{").line
        stmts, tail = [], None
        while not self.at("}"):
            sl = self.tok.line
            if self.at("use"):
                toks = []
                while not self.at(";"):
                    toks.append(self.adv().text)
                self.adv()
                stmts.append(Node("inner_use", sl, text=" ".join(toks)))
                continue
            if self.at("let"):
                self.adv()
                m = bool(self.accept("mut"))
                if self.at("("):
                    self.bad("tuple pattern in `let`", sl)
                name = self.ident().text
                ty = None
                if self.accept(":"):
                    ty = self.parse_type()
                self.expect("=")
                val = self.parse_expr()
                self.expect(";")
                stmts.append(Node("let", sl, name=name, mut=m, ty=ty, val=val))
                continue
            if self.at("for"):
                self.adv(); var = self.ident().text; self.expect("in")
                it = self.parse_expr(nostruct=True)
                body = self.parse_block()
                stmts.append(Node("for", sl, var=var, iter=it, body=body))
                continue
            for kw in ("while", "loop", "return", "break", "continue", "unsafe", "fn", "struct", "const", "static"):
                if self.at(kw):
                    self.bad("`%s`" % kw, sl)
            e = self.parse_expr()
            if self.at("=") or (self.tok.kind == "punct" and self.tok.text in ("+=", "-=", "*=", "^=", "|=", "&=")):
                op = self.adv().text
                rhs = self.parse_expr()
                if not self.accept(";") and not self.at("}"):
                    self.bad("expected `;` after an assignment")
                stmts.append(Node("assign", sl, lhs=e, op=op, rhs=rhs))
                continue
            if self.accept(";"):
                stmts.append(Node("expr", sl, e=e))
            elif self.at("}"):
                tail = e
            elif e.kind in ("if", "iflet", "match", "block"):
                stmts.append(Node("expr", sl, e=e))
            else:
                self.bad("expected `;` or `}`, found `%s`" % self.tok.text)
        self.expect("}")
        return Node("block", line, stmts=stmts, tail=tail)

    # ---- expressions
    def parse_expr(self, nostruct=False):
        lhs = self.parse_bin(0)
        if self.at("..") or self.at("..="):
            incl = self.adv().text == "..="
            rhs = self.parse_bin(0)
            return Node("range", lhs.line, lo=lhs, hi=rhs, incl=incl)
        return lhs

    def parse_bin(self, level):
        if level == len(BINOPS):
            return self.parse_cast()
        lhs = self.parse_bin(level + 1)
        while self.tok.kind == "punct" and self.tok.text in BINOPS[level]:
            # `|` starting a closure cannot occur here (closures only as call arguments)
            op = self.adv()
            rhs = self.parse_bin(level + 1)
            lhs = Node("bin", op.line, op=op.text, a=lhs, b=rhs)
        return lhs

    def parse_cast(self):
        e = self.parse_unary()
        while self.at("as"):
            line = self.adv().line
            e = Node("cast", line, e=e, ty=self.parse_type())
        return e

    def parse_unary(self):
        line = self.tok.line
        if self.accept("&"):
            m = bool(self.accept("mut"))
            return Node("ref", line, mut=m, e=self.parse_unary())
        if self.accept("*"):
            return Node("deref", line, e=self.parse_unary())
        if self.accept("!"):
            return Node("not", line, e=self.parse_unary())
        if self.at("-"):
            self.bad("unary minus", line)
        return self.parse_postfix()

    def parse_args(self):
        self.expect("(")
        args = []
        while not self.at(")"):
            if self.at("|"):
                args.append(self.parse_closure())
            else:
                args.append(self.parse_expr())
            if not self.accept(","):
                break
        self.expect(")")
        return args

    def parse_closure(self):
        line = self.expect("|").line
        toks = []
        while not self.at("|"):
            toks.append(self.adv().text)
        self.expect("|")
        s = self.pos
        body = self.parse_expr()
        if self.tok.kind == "punct" and self.tok.text in ("^=", "+=", "-=", "|=", "&="):
            self.adv()
            self.parse_expr()
        text = " ".join(t.text for t in self.toks[s:self.pos])
        return Node("closure", line, params=" ".join(toks), body=body, text=text)

    def parse_postfix(self):
        e = self.parse_primary()
        while True:
            line = self.tok.line
            if self.at("."):
                self.adv()
                if self.tok.kind == "int":
                    self.bad("tuple field access", line)
                name = self.ident().text
                if self.at("::"):
                    self.bad("turbofish on a method", line)
                if self.at("("):
                    e = Node("mcall", line, recv=e, name=name, args=self.parse_args())
                else:
                    e = Node("field", line, e=e, name=name)
            elif self.at("["):
                self.adv()
                if self.at(".."):
                    self.adv()
                    hi = self.parse_bin(0)
                    self.expect("]")
                    e = Node("slice_to", line, e=e, hi=hi)
                else:
                    idx = self.parse_bin(0)
                    if self.at("..") or self.at("..="):
                        self.bad("slice `[a..b]`", line)
                    self.expect("]")
                    e = Node("index", line, e=e, idx=idx)
            elif self.at("?"):
                self.adv()
                e = Node("try", line, e=e)
            else:
                return e

    def macro_args(self):
        """`name!( .. )`: the argument token groups, split at top-level commas"""
        self.expect("(")
        groups, cur, depth = [], [], 0
        while True:
            t = self.tok
            if t.kind == "eof":
                self.bad("unterminated macro call")
            if t.kind == "punct" and t.text in "([{":
                depth += 1
            elif t.kind == "punct" and t.text in ")]}":
                if depth == 0:
                    break
                depth -= 1
            if t.kind == "punct" and t.text in (",", ";") and depth == 0:
                groups.append((cur, t.text)); cur = []
                self.adv(); continue
            cur.append(t); self.adv()
        self.expect(")")
        if cur:
            groups.append((cur, ""))
        return groups

    def sub_expr(self, toks):
        sub = P(toks + [pw.Tok("eof", "", toks[-1].line if toks else 0)], self.fname)
        e = sub.parse_expr()
        if sub.tok.kind != "eof":
            self.bad("macro argument not an expression", toks[0].line)
        return e

    def parse_primary(self):
        t = self.tok
        line = t.line
        if t.kind == "int":
            self.adv()
            return Node("int", line, text=t.text)
        if t.kind == "str":
            self.adv()
            return Node("str", line, val=str_value(t), text=t.text)
        if t.kind == "ident" and t.text == "__bytes" and self.peek().kind == "str":
            self.adv(); s = self.adv()
            return Node("bstr", line, val=str_value(s), text="b" + s.text)
        if self.accept("("):
            if self.accept(")"):
                return Node("unit", line)
            e = self.parse_expr()
            if self.accept(","):
                items = [e]
                while not self.at(")"):
                    items.append(self.parse_expr())
                    if not self.accept(","):
                        break
                self.expect(")")
                return Node("tuple", line, items=items)
            self.expect(")")
            return Node("paren", line, e=e)
        if self.accept("["):
            first = self.parse_expr()
            if self.accept(";"):
                n = self.parse_expr(); self.expect("]")
                return Node("repeat", line, e=first, n=n)
            items = [first]
            while self.accept(","):
                if self.at("]"):
                    break
                items.append(self.parse_expr())
            self.expect("]")
            return Node("array", line, items=items)
        if self.at("{"):
            b = self.parse_block()
            return Node("block", line, stmts=b.stmts, tail=b.tail)
        if self.at("if"):
            return self.parse_if()
        if self.at("match"):
            self.adv()
            scrut = self.parse_expr(nostruct=True)
            self.expect("{")
            arms = []
            while not self.at("}"):
                al = self.tok.line
                pats = [self.parse_pattern()]
                while self.accept("|"):
                    pats.append(self.parse_pattern())
                if self.at("if"):
                    self.bad("match guard", al)
                self.expect("=>")
                body = self.parse_expr()
                if not self.accept(",") and not self.at("}") and body.kind != "block":
                    self.bad("expected `,` after a match arm")
                arms.append(Node("arm", al, pats=pats, body=body))
            self.expect("}")
            return Node("match", line, scrut=scrut, arms=arms)
        if self.at("<"):
            # qualified path `<A as B>::C::D`
            self.adv(); a = self.ident().text; self.expect("as"); b = self.ident().text; self.expect(">")
            segs = []
            while self.accept("::"):
                segs.append(self.ident().text)
            return Node("qpath", line, ty=a, trait=b, segs=segs)
        if t.kind == "ident":
            if t.text in pw.RUST_KEYWORDS and t.text not in ("super", "crate", "self", "Self"):
                self.bad("`%s` in an expression" % t.text, line)
            segs, targs = [self.adv().text], {}
            while self.at("::"):
                self.adv()
                if self.accept("<"):
                    ts = []
                    while not self.at(">"):
                        ts.append(self.adv().text)
                    self.expect(">")
                    targs[len(segs) - 1] = "".join(ts)
                else:
                    segs.append(self.ident().text)
            if self.at("!"):
                self.adv()
                if self.at("["):
                    if segs != ["vec"]:
                        self.bad("macro `%s![..]`" % segs[0], line)
                    self.adv(); v = self.parse_expr(); self.expect(";"); n = self.parse_expr(); self.expect("]")
                    return Node("vecrep", line, e=v, n=n)
                groups = self.macro_args()
                return Node("macro", line, name="::".join(segs), groups=groups)
            e = Node("path", line, segs=segs, targs=targs)
            if self.at("("):
                return Node("call", line, fn=e, args=self.parse_args())
            return e
        self.bad("expression starting with `%s`" % t.text, line)

    def parse_if(self):
        line = self.expect("if").line
        if self.accept("let"):
            pat = self.parse_pattern()
            self.expect("=")
            scrut = self.parse_expr(nostruct=True)
            then = self.parse_block()
            els = None
            if self.accept("else"):
                els = self.parse_if() if self.at("if") else self.parse_block()
            return Node("iflet", line, pat=pat, scrut=scrut, then=then, els=els)
        cond = self.parse_expr(nostruct=True)
        then = self.parse_block()
        els = None
        if self.accept("else"):
            els = self.parse_if() if self.at("if") else self.parse_block()
        return Node("if", line, cond=cond, then=then, els=els)

    def parse_pattern(self):
        line = self.tok.line
        if self.at("_"):
            self.adv()
            return Node("p_wild", line)
        segs = [self.ident().text]
        while self.accept("::"):
            segs.append(self.ident().text)
        if self.accept("("):
            inner = self.ident().text
            self.expect(")")
            return Node("p_ctor", line, segs=segs, bind=inner)
        return Node("p_path", line, segs=segs)


# --------------------------------------------------------------------------------------------
# types
# --------------------------------------------------------------------------------------------
# atoms: bytes keys usize u64 u16 u8 bool unit str kind mode auth cm enc dec identity user um hk aes128 aes256
#        systime duration xc8 xc20 lit ; compound: ('opt', T) ('res', T) ('tup', (T, ..))

LEAN_TY = {
    "bytes": "(List UInt8)", "keys": "(List (List UInt8))", "usize": "Usize", "u64": "UInt64", "u16": "UInt16", "u8": "UInt8",
    "bool": "Bool", "unit": "Unit", "str": "(List UInt8)", "kind": "SsTcpGen.CipherKind", "mode": "SsTcpGen.Mode", "auth": "T.base.Authenticator",
    "cm": "T.CipherMethod", "enc": "(SsTcpGen.ChunkEncoder T.base)", "dec": "(SsTcpGen.ChunkDecoder T.base)", "identity": "SsTcpGen.Identity",
    "user": "SsTcpGen.ServerUser", "um": "T.base.ServerUserManager", "hk": "T.HkdfSha1", "aes128": "T.Aes128", "aes256": "T.Aes256",
    "systime": "T.SystemTime", "duration": "T.Duration", "xc8": "T.XChaCha8Poly1305", "xc20": "T.XChaCha20Poly1305",
}
INTS = {"usize": ("U64", 64), "u64": ("U64", 64), "u16": ("U16", 16), "u8": ("U8", 8)}


def lean_ty(t):
    if isinstance(t, tuple):
        if t[0] == "opt":
            return "(Option %s)" % lean_ty(t[1])
        if t[0] == "res":
            return "(RResult %s)" % lean_ty(t[1])
        if t[0] == "tup":
            return "(%s)" % " × ".join(lean_ty(x) for x in t[1])
    if t not in LEAN_TY:
        raise Unsupported("no Lean type for `%s`" % (t,), 1)
    return LEAN_TY[t]


PATH_TYPES = {
    "u8": "u8", "u16": "u16", "u64": "u64", "usize": "usize", "bool": "bool", "BytesMut": "bytes", "Bytes": "bytes",
    "CipherKind": "kind", "Mode": "mode", "Authenticator": "auth", "CipherMethod": "cm", "ChunkEncoder": "enc",
    "ChunkDecoder": "dec", "Identity": "identity", "ServerUserManager": "um", "String": "str",
}


def resolve_type(t, fname):
    k = t.kind
    if k == "ty_unit":
        return "unit"
    if k == "ty_ref":
        return resolve_type(t.inner, fname)
    if k in ("ty_slice", "ty_array"):
        inner = resolve_type(t.inner, fname)
        if inner == "u8":
            return "bytes"
        if inner == "bytes" and k == "ty_slice" and t.inner.kind == "ty_array":
            return "keys"
        raise Unsupported("%s: slice/array of `%s`" % (fname, inner), t.line)
    if k == "ty_tuple":
        return ("tup", tuple(resolve_type(x, fname) for x in t.items))
    if k == "ty_path":
        name = t.segs[-1]
        if name == "Option" and len(t.args) == 1:
            return ("opt", resolve_type(t.args[0], fname))
        if name == "Result" and len(t.args) in (1, 2):
            return ("res", resolve_type(t.args[0], fname))     # the error value is not modelled
        if name == "Vec" and len(t.args) == 1 and resolve_type(t.args[0], fname) == "u8":
            return "bytes"
        if name in ("Identity", "ServerUserManager") and len(t.args) == 1 and t.args[0].kind in ("ty_const", "ty_path"):
            return PATH_TYPES[name]
        if name in PATH_TYPES and not t.args and (len(t.segs) == 1):
            return PATH_TYPES[name]
        if t.segs in (["anyhow", "Error"], ["InvalidLength"], ["SystemTimeError"]):
            return "str"
    raise Unsupported("%s: type `%s`" % (fname, show_type(t)), t.line)


def show_type(t):
    k = t.kind
    if k == "ty_unit":
        return "()"
    if k == "ty_ref":
        return "&" + ("mut " if t.mut else "") + show_type(t.inner)
    if k == "ty_slice":
        return "[%s]" % show_type(t.inner)
    if k == "ty_array":
        return "[%s; %s]" % (show_type(t.inner), t.length)
    if k == "ty_tuple":
        return "(%s)" % ", ".join(show_type(x) for x in t.items)
    if k == "ty_const":
        return t.text
    return "::".join(t.segs) + ("<%s>" % ", ".join(show_type(a) for a in t.args) if t.args else "")


def show_sig(fn):
    g = "<%s>" % ", ".join("const %s: usize" % x for x in fn.generics) if fn.generics else ""
    r = "" if fn.ret.kind == "ty_unit" else " -> " + show_type(fn.ret)
    return "fn %s%s(%s)%s" % (fn.name, g, ", ".join("%s: %s" % (p.name, show_type(p.ty)) for p in fn.params), r)


class Sig:
    """a callable: parameter types, which parameters are `&mut` (their final values are returned in front of the value)"""
    def __init__(self, lean, params, muts, ret, ext=None, doc=None, pure=False, nores=False):
        self.lean, self.params, self.muts, self.ret, self.ext, self.doc, self.pure = lean, params, muts, ret, ext, doc, pure
        self.nores = nores

    def lean_ret(self):
        parts = [lean_ty(self.params[i]) for i in self.muts] + [lean_ty(self.ret)]
        return " × ".join(parts)


def E(field, params, muts, ret, doc, **kw):
    return Sig("X." + field, params, muts, ret, ext=field, doc=doc, **kw)


# functions of other crates / other files, by the path they are called with (after `use` resolution): ASSUMED EXTERNALS
EXT_CALLS = {
    "blake3::derive_key": E("blake3_derive_key", ["str", "bytes"], [], "bytes", "`blake3::derive_key(context, key_material)`: the 32-byte derived key (context = the UTF-8 bytes of the string)"),
    "blake3::hash": E("blake3_hash", ["bytes"], [], "bytes", "`blake3::hash(input)`: the hash, as the 32 bytes `as_bytes()` exposes"),
    "Aes128EcbNoPadding::encrypt": E("Aes128EcbNoPadding_encrypt", ["bytes", "bytes", "usize"], [1], "unit", "`crypto::Aes128EcbNoPadding::encrypt(key, buf, len)`: AES-128-ECB of `buf[..len]` in place under `key[..16]`; panics (`expect`) on a short key or a length that is not whole blocks"),
    "Aes256EcbNoPadding::encrypt": E("Aes256EcbNoPadding_encrypt", ["bytes", "bytes", "usize"], [1], "unit", "`crypto::Aes256EcbNoPadding::encrypt(key, buf, len)`: AES-256-ECB, as above with `key[..32]`"),
    "Aes128EcbNoPadding::decrypt": E("Aes128EcbNoPadding_decrypt", ["bytes", "bytes"], [1], "unit", "`crypto::Aes128EcbNoPadding::decrypt(key, buf)`: AES-128-ECB of `buf` in place under `key[..16]`; panics on a short key / partial block"),
    "Aes256EcbNoPadding::decrypt": E("Aes256EcbNoPadding_decrypt", ["bytes", "bytes"], [1], "unit", "`crypto::Aes256EcbNoPadding::decrypt(key, buf)`: AES-256-ECB, as above with `key[..32]`"),
    "CipherMethod::new": E("CipherMethod_new", ["kind", "bytes"], [], "cm", "`CipherMethod::new(kind, key)` (codec/aead.rs): the AEAD keyed with `key[..key size]`; panics on a shorter key and for `Unknown`"),
    "Authenticator::new": E("Authenticator_new", ["cm"], [], "auth", "`Authenticator::new(method)` (codec/shadowsocks.rs): the cipher with a fresh increasing nonce generator"),
    "ChunkEncoder::new": E("ChunkEncoder_new", ["usize", "auth"], [], "enc", "`ChunkEncoder::new(payload_limit, auth)` (codec/shadowsocks.rs)"),
    "ChunkDecoder::new": E("ChunkDecoder_new", ["auth"], [], "dec", "`ChunkDecoder::new(auth)` (codec/shadowsocks.rs): state `Length`"),
    "SystemTime::now": E("SystemTime_now", [], [], "systime", "`std::time::SystemTime::now()`: the clock"),
    "Aes128::new_from_slice": E("Aes128_new_from_slice", ["bytes"], [], ("res", "aes128"), "`aes::Aes128::new_from_slice(key)`: `Err(InvalidLength)` unless 16 bytes"),
    "Aes256::new_from_slice": E("Aes256_new_from_slice", ["bytes"], [], ("res", "aes256"), "`aes::Aes256::new_from_slice(key)`: `Err(InvalidLength)` unless 32 bytes"),
    "Hkdf::<Sha1>::new": E("HkdfSha1_new", [("opt", "bytes"), "bytes"], [], "hk", "`hkdf::Hkdf::<Sha1>::new(salt, ikm)`: HKDF-extract"),
    "XChaCha8Poly1305::new": E("XChaCha8Poly1305_new", ["bytes"], [], "xc8", "`XChaCha8Poly1305::new(key)` (`KeyInit`)"),
    "XChaCha20Poly1305::new": E("XChaCha20Poly1305_new", ["bytes"], [], "xc20", "`XChaCha20Poly1305::new(key)` (`KeyInit`)"),
    "CipherMethod::XChaCha8Poly1305": E("CipherMethod_XChaCha8Poly1305", ["xc8"], [], "cm", "the variant `CipherMethod::XChaCha8Poly1305(cipher)`"),
    "CipherMethod::XChaCha20Poly1305": E("CipherMethod_XChaCha20Poly1305", ["xc20"], [], "cm", "the variant `CipherMethod::XChaCha20Poly1305(cipher)`"),
}
# methods of external types: (receiver type, name) -> Sig; `recv_mut` = the receiver is changed (returned first)
EXT_METHODS = {
    ("auth", "seal"): (True, E("Authenticator_seal", ["bytes"], [0], ("res", "unit"), "`Authenticator::seal(&mut self, buf)` (codec/shadowsocks.rs): AEAD seal in place under the next nonce, tag appended; the result is (final `*self`, final `*buf`, returned value)")),
    ("systime", "duration_since"): (False, E("SystemTime_duration_since", ["systime"], [], ("res", "duration"), "`SystemTime::duration_since(&self, earlier)`: `Err` when `earlier` is later")),
    ("duration", "as_secs"): (False, E("Duration_as_secs", [], [], "u64", "`Duration::as_secs(&self)`: whole seconds")),
    ("um", "get_user_by_hash"): (False, E("ServerUserManager_get_user_by_hash", ["bytes"], [], ("opt", "user"), "`ServerUserManager::get_user_by_hash(&self, user_hash)` (manager/shadowsocks.rs): the registered user with this identity hash")),
    ("hk", "expand"): (False, E("HkdfSha1_expand", ["bytes", "bytes"], [1], ("res", "unit"), "`Hkdf::expand(&self, info, okm)`: fills `okm`; `Err(InvalidLength)` when `okm` is longer than 255 hash lengths")),
    ("aes128", "encrypt_block"): (False, E("Aes128_encrypt_block", ["bytes"], [0], "unit", "`BlockEncrypt::encrypt_block(&self, block)` of `Aes128`: one 16-byte block in place")),
    ("aes128", "decrypt_block"): (False, E("Aes128_decrypt_block", ["bytes"], [0], "unit", "`BlockDecrypt::decrypt_block(&self, block)` of `Aes128`")),
    ("aes256", "encrypt_block"): (False, E("Aes256_encrypt_block", ["bytes"], [0], "unit", "`BlockEncrypt::encrypt_block(&self, block)` of `Aes256`")),
    ("aes256", "decrypt_block"): (False, E("Aes256_decrypt_block", ["bytes"], [0], "unit", "`BlockDecrypt::decrypt_block(&self, block)` of `Aes256`")),
}
# constants of other crates
EXT_CONSTS = {
    ("XChaCha8Poly1305", "AeadCore", "NonceSize", "USIZE"): ("XChaCha8Poly1305_NonceSize", "`<XChaCha8Poly1305 as AeadCore>::NonceSize::USIZE`"),
    ("XChaCha20Poly1305", "AeadCore", "NonceSize", "USIZE"): ("XChaCha20Poly1305_NonceSize", "`<XChaCha20Poly1305 as AeadCore>::NonceSize::USIZE`"),
    ("XChaCha8Poly1305", "KeySizeUser", "KeySize", "USIZE"): ("XChaCha8Poly1305_KeySize", "`<XChaCha8Poly1305 as KeySizeUser>::KeySize::USIZE`"),
    ("XChaCha20Poly1305", "KeySizeUser", "KeySize", "USIZE"): ("XChaCha20Poly1305_KeySize", "`<XChaCha20Poly1305 as KeySizeUser>::KeySize::USIZE`"),
}
# further single fields
EXT_MISC = {
    "UNIX_EPOCH": ("UNIX_EPOCH", "T.SystemTime", "`std::time::UNIX_EPOCH`"),
    "rng_random_range_inclusive_u16": ("rng_random_range_inclusive_u16", "UInt16 → UInt16 → Res UInt16", "`rand::rng().random_range(lo..=hi)` on `u16`: a random value of the range (panics when it is empty)"),
}
# signatures (of functions in other files of the repository) that must be the ones the translator knows: (file role, regex-normalised text)
SIDE_SIGS = [
    ("chunk", "Authenticator::new", "fn new(method: CipherMethod) -> Self"),
    ("chunk", "Authenticator::seal", "fn seal(&mut self, plaintext: &mut dyn Buffer) -> Result<(), aes_gcm::aead::Error>"),
    ("chunk", "ChunkEncoder::new", "fn new(payload_limit: usize, auth: Authenticator) -> Self"),
    ("chunk", "ChunkDecoder::new", "fn new(auth: Authenticator) -> Self"),
    ("kind", "CipherMethod::new", "pub fn new(kind: CipherKind, key: &[u8]) -> Self"),
    ("crypto", "AesEcb::encrypt", "pub fn encrypt(key: &[u8], buf: &mut [u8], len: usize)"),
    ("crypto", "AesEcb::decrypt", "pub fn decrypt(key: &[u8], buf: &mut [u8])"),
    ("user", "ServerUserManager::get_user_by_hash", "pub fn get_user_by_hash(&self, user_hash: &[u8]) -> Option<&ServerUser<N>>"),
    ("mode", "Mode::to_u8", "pub fn to_u8(&self) -> u8"),
]


# --------------------------------------------------------------------------------------------
# emitter
# --------------------------------------------------------------------------------------------

class Var:
    def __init__(self, rust, lean, ty, mut, depth, root=None, tentative=False):
        self.rust, self.lean, self.ty, self.mut, self.depth, self.root, self.tentative = rust, lean, ty, mut, depth, root, tentative


class Frame:
    """a branching statement whose fall-through carries the outer variables written inside"""
    def __init__(self, depth, ident):
        self.depth, self.ident, self.written = depth, ident, []


LEAN_RESERVED = {"at", "from", "end", "in", "do", "then", "else", "fun", "let", "have", "show", "open", "prefix", "def", "by", "with", "match", "if", "where", "local", "private", "instance", "class", "structure", "namespace", "section", "variable", "export", "import", "mutual", "theorem", "example", "deriving", "extends", "using", "calc", "infix", "notation", "macro", "syntax", "attribute", "universe", "set_option", "unif_hint", "opaque", "axiom", "abbrev", "inductive", "Type", "Sort", "Prop", "T", "X", "ov"}


class Gen:
    def __init__(self, fname, modname, consts, local_sigs, used_ext):
        self.fname, self.modname, self.consts, self.local, self.used = fname, modname, consts, local_sigs, used_ext
        self.out = []

    # ---- helpers
    def bad(self, what, line):
        raise Unsupported("%s: %s" % (self.fname, what), line)

    def emit(self, s):
        self.out.append("  " * self.ind + s)

    def comment(self, line, text):
        self.emit("-- L%d: %s" % (line, text))

    def fresh(self):
        self.nv += 1
        return "v%d" % self.nv

    def declare(self, rust, ty, mut, root=None, tentative=False):
        base = rust if rust not in LEAN_RESERVED else rust + "_"
        lean, k = base, 1
        while lean in self.lean_names:
            k += 1
            lean = "%s__%d" % (base, k)
        self.lean_names.add(lean)
        v = Var(rust, lean, ty, mut, self.depth, root, tentative)
        self.scopes[-1][rust] = v
        return v

    def lookup(self, name, line):
        for sc in reversed(self.scopes):
            if name in sc:
                return sc[name]
        self.bad("unknown name `%s`" % name, line)

    def written(self, v):
        for f in self.frames:
            if v.depth < f.depth and v not in f.written:
                f.written.append(v)

    def set_var(self, v, term, line):
        """`v = term` (write-back after a `&mut` use, or assignment)"""
        while v.root is not None:
            v = v.root
        if not v.mut:
            self.bad("write to the immutable `%s`" % v.rust, line)
        self.emit("let %s : %s := %s" % (v.lean, lean_ty(v.ty), term))
        self.written(v)

    def finals(self):
        return [v.lean for v in self.mut_params]

    def ret_term(self, val):
        return "(" + ", ".join(self.finals() + [val]) + ")" if self.mut_params else val

    def bind_call(self, callee, args, line):
        v = self.fresh()
        self.emit("Flow.bind (Flow.call (%s)) fun %s =>" % (" ".join([callee] + args), v))
        return v

    def use_ext(self, field):
        if field not in self.used:
            self.used.append(field)

    def confirm_bytes(self, e):
        """a tentatively typed `[0; n]` is used as bytes"""
        if e.kind in ("ref", "paren"):
            return self.confirm_bytes(e.e)
        if e.kind == "path" and len(e.segs) == 1:
            for sc in reversed(self.scopes):
                if e.segs[0] in sc:
                    sc[e.segs[0]].tentative = False
                    return

    # ---- calls
    def call(self, sig, recv, recv_mut, arg_nodes, line, what):
        """emit the call; write the `&mut` finals back; return the value term"""
        if len(arg_nodes) != len(sig.params):
            self.bad("%s takes %d argument(s)" % (what, len(sig.params)), line)
        terms = []
        for a, pt in zip(arg_nodes, sig.params):
            t, ty = self.ex(a, pt)
            if ty != pt:
                self.bad("argument of %s: `%s` where `%s` is expected" % (what, ty, pt), a.line)
            if pt == "bytes":
                self.confirm_bytes(a)
            terms.append(atom(t))
        if sig.ext:
            self.use_ext(sig.ext)
        head = sig.lean if sig.ext else "%s ov X" % sig.lean
        pre = [recv[0]] if recv else []
        if sig.pure:
            return "(%s)" % " ".join([head] + pre + terms)
        v = self.bind_call(head, pre + terms, line)
        outs = []
        if recv and recv_mut:
            outs.append(("recv", recv[1]))
        for i in sig.muts:
            outs.append(("arg", arg_nodes[i]))
        if not outs:
            return v
        proj = v
        for n, (k, tgt) in enumerate(outs):
            comp = proj + ".1"
            proj = proj + ".2"
            if k == "recv":
                self.set_var(tgt, comp, line)
            else:
                self.set_var(self.place_var(tgt, line), comp, line)
        return proj

    def place_var(self, e, line):
        """the variable behind `&mut x` / `x` (a `&mut` binding passed on)"""
        if e.kind in ("ref", "paren"):
            return self.place_var(e.e, line)
        if e.kind == "path" and len(e.segs) == 1:
            return self.lookup(e.segs[0], line)
        self.bad("`&mut` argument that is not a variable", line)

    def path_key(self, p):
        segs = list(p.segs)
        key = []
        for i, s in enumerate(segs):
            key.append(s + ("::<%s>" % p.targs[i] if i in p.targs else ""))
        return "::".join(key)

    def ex_call(self, e, want):
        line = e.line
        if e.fn.kind != "path":
            self.bad("call of a computed function", line)
        segs, key = e.fn.segs, self.path_key(e.fn)
        # constructors
        if key in ("Some", "Ok", "Err"):
            if len(e.args) != 1:
                self.bad("`%s` takes one argument" % key, line)
            if key == "Err":
                if not isinstance(want, tuple) or want[0] != "res":
                    self.bad("`Err(..)` where no `Result` is expected", line)
                self.check_pure(e.args[0])
                return "RResult.err", want
            inner = want[1] if isinstance(want, tuple) and want[0] == ("opt" if key == "Some" else "res") else None
            t, ty = self.ex(e.args[0], inner)
            if key == "Some":
                return "(some %s)" % atom(t), ("opt", ty)
            return "(RResult.ok %s)" % atom(t), ("res", ty)
        if key == "BytesMut::with_capacity":
            t, ty = self.ex(e.args[0], "usize")
            if ty != "usize":
                self.bad("capacity of type `%s`" % ty, line)
            return "([] : List UInt8)", "bytes"       # the capacity is evaluated (overflow checks), it is not part of the value
        if key == "ByteStr::new":
            return self.ex(e.args[0], "bytes")
        if key == "Block::from_mut_slice":
            self.bad("`Block::from_mut_slice` outside `let block = ..`", line)
        m = re.fullmatch(r"Key::<(\w+)>::from_slice", key)
        if m:
            ck = (m.group(1), "KeySizeUser", "KeySize", "USIZE")
            if ck not in EXT_CONSTS:
                self.bad("`%s`" % key, line)
            self.use_ext(EXT_CONSTS[ck][0])
            t, ty = self.ex(e.args[0], "bytes")
            v = self.fresh()
            self.emit("Flow.bind (Flow.exact_len %s X.%s) fun %s =>" % (atom(t), EXT_CONSTS[ck][0], v))
            return v, "bytes"
        # local functions: `name`, `super::name`
        name = None
        if len(segs) == 1 and (self.modname, segs[0]) in self.local:
            name = (self.modname, segs[0])
        elif len(segs) == 2 and segs[0] == "super" and self.modname in ("tcp", "udp") and ("a22", segs[1]) in self.local:
            name = ("a22", segs[1])
        elif len(segs) == 1 and self.modname in ("tcp", "udp") and ("super::" + segs[0]) in self.uses and ("a22", segs[0]) in self.local:
            name = ("a22", segs[0])
        if name:
            return self.call(self.local[name], None, False, e.args, line, "`%s`" % key), self.local[name].ret
        if key in EXT_CALLS:
            self.require_use(segs[0], line)
            return self.call(EXT_CALLS[key], None, False, e.args, line, "`%s`" % key), EXT_CALLS[key].ret
        self.bad("call of `%s`" % key, line)

    def require_use(self, name, line):
        if name in ("blake3",):
            return                                       # a crate path
        for u in self.uses:
            if re.search(r"(^|::|\{|,)%s($|,|\})" % re.escape(name), u):
                return
        self.bad("`%s` is not bound by a `use` item" % name, line)

    def check_pure(self, e):
        """arguments of `trace!` / `format!` / `bail!` / `Err(..)`: names, references, `ByteStr::new(..)`, `format!`, `e.to_string()`"""
        k = e.kind
        if k in ("path", "str", "int"):
            return
        if k in ("ref", "paren"):
            return self.check_pure(e.e)
        if k == "call" and e.fn.kind == "path" and self.path_key(e.fn) == "ByteStr::new" and len(e.args) == 1:
            return self.check_pure(e.args[0])
        if k == "macro" and e.name in ("format", "anyhow"):
            for g, _ in e.groups:
                self.check_pure(self.sub(g))
            return
        self.bad("argument of a logging / formatting macro that is not obviously free of effects", e.line)

    def sub(self, toks):
        return P(list(toks) + [pw.Tok("eof", "", toks[-1].line)], self.fname).parse_expr()

    # ---- expressions: returns (term, type)
    def int_lit(self, e, want):
        txt = e.text.replace("_", "")
        suffix = None
        for s in ("usize", "u64", "u16", "u8"):
            if txt.endswith(s):
                suffix, txt = s, txt[:-len(s)]
        val = int(txt, 0)
        ty = suffix or want
        if ty not in INTS:
            self.bad("integer literal `%s` whose type is not determined by its context" % e.text, e.line)
        if val >= 2 ** INTS[ty][1]:
            self.bad("literal out of range", e.line)
        return "(%d : %s)" % (val, lean_ty(ty)), ty

    def arith_type(self, e):
        """the type an arithmetic expression takes from its first typed leaf"""
        if e.kind == "bin":
            return self.arith_type(e.a) or self.arith_type(e.b)
        if e.kind == "paren":
            return self.arith_type(e.e)
        if e.kind == "int":
            return None
        if e.kind == "path" and len(e.segs) == 1:
            for sc in reversed(self.scopes):
                if e.segs[0] in sc:
                    return sc[e.segs[0]].ty
            if e.segs[0] in self.consts:
                return self.consts[e.segs[0]][0]
        if e.kind == "mcall" and e.name in ("len", "remaining"):
            return "usize"
        return None

    def ex(self, e, want=None):
        k, line = e.kind, e.line
        if k == "paren":
            return self.ex(e.e, want)
        if k == "int":
            return self.int_lit(e, want)
        if k == "unit":
            return "()", "unit"
        if k == "str":
            if want != "str":
                self.bad("string literal where `%s` is expected" % (want,), line)
            return "([%s] : List UInt8)" % ", ".join(str(b) for b in e.val), "str"
        if k == "bstr":
            return "([%s] : List UInt8)" % ", ".join(str(b) for b in e.val), "bytes"
        if k == "ref":
            return self.ex(e.e, want)
        if k == "deref":
            self.bad("`*` outside the xor idiom", line)
        if k == "path":
            if len(e.segs) == 1:
                n = e.segs[0]
                if n == "None":
                    if not isinstance(want, tuple) or want[0] != "opt":
                        self.bad("`None` whose type is not determined", line)
                    return "(none : %s)" % lean_ty(want), want
                for sc in reversed(self.scopes):
                    if n in sc:
                        v = sc[n]
                        r = v
                        while r.root is not None:
                            r = r.root
                        return r.lean, v.ty
                if n in self.consts:
                    return n, self.consts[n][0]
                if n in EXT_MISC and n == "UNIX_EPOCH":
                    self.require_use(n, line)
                    self.use_ext(n)
                    return "X.UNIX_EPOCH", "systime"
                self.bad("unknown name `%s`" % n, line)
            if len(e.segs) == 2 and e.segs[0] == "CipherKind":
                return "SsTcpGen.CipherKind.%s" % e.segs[1], "kind"
            self.bad("path `%s`" % "::".join(e.segs), line)
        if k == "qpath":
            ck = (e.ty, e.trait) + tuple(e.segs)
            if ck not in EXT_CONSTS:
                self.bad("constant `<%s as %s>::%s`" % (e.ty, e.trait, "::".join(e.segs)), line)
            self.require_use(e.ty, line); self.require_use(e.trait, line)
            self.use_ext(EXT_CONSTS[ck][0])
            return "X.%s" % EXT_CONSTS[ck][0], "usize"
        if k == "field":
            t, ty = self.ex(e.e)
            fields = {("user", "key"): "bytes", ("identity", "user"): ("opt", "user")}
            if (ty, e.name) not in fields:
                self.bad("field `%s` of `%s`" % (e.name, ty), line)
            return "%s.%s" % (atom(t), e.name), fields[(ty, e.name)]
        if k == "array":
            # `[a, b].concat()` is handled at the method call
            self.bad("array expression outside `[a, b].concat()`", line)
        if k == "repeat":
            return self.ex_repeat(e.e, e.n, line)
        if k == "vecrep":
            return self.ex_repeat(e.e, e.n, line)
        if k == "cast":
            t, ty = self.ex(e.e)
            to = resolve_type(e.ty, self.fname)
            if ty not in INTS or to not in INTS:
                self.bad("cast `%s as %s`" % (ty, to), line)
            if ty == to or {ty, to} == {"usize", "u64"}:
                return t, to
            return "(%s.as_%s %s)" % ({"usize": "Usize", "u64": "U64", "u16": "U16", "u8": "U8"}[ty], to, atom(t)), to
        if k == "bin":
            return self.ex_bin(e, want)
        if k == "not":
            t, ty = self.ex(e.e, "bool")
            if ty != "bool":
                self.bad("`!` on `%s`" % ty, line)
            return "(!%s)" % atom(t), "bool"
        if k == "index":
            t, ty = self.ex(e.e)
            i, ity = self.ex(e.idx, "usize")
            if ty != "keys" or ity != "usize":
                self.bad("index into `%s` by `%s`" % (ty, ity), line)
            v = self.fresh()
            self.emit("Flow.bind (Flow.list_index %s %s) fun %s =>" % (atom(t), atom(i), v))
            return v, "bytes"
        if k == "slice_to":
            t, ty = self.ex(e.e)
            h, hty = self.ex(e.hi, "usize")
            if ty != "bytes" or hty != "usize":
                self.bad("`[..n]` on `%s`" % ty, line)
            v = self.fresh()
            self.emit("Flow.bind (Flow.slice_to %s %s) fun %s =>" % (atom(t), atom(h), v))
            return v, "bytes"
        if k == "try":
            t, ty = self.ex(e.e)
            if not isinstance(ty, tuple) or ty[0] != "res":
                self.bad("`?` on `%s`" % (ty,), line)
            if not isinstance(self.ret_ty, tuple) or self.ret_ty[0] != "res":
                self.bad("`?` in a function that does not return a `Result`", line)
            v = self.fresh()
            self.emit("Flow.bind (Flow.question %s %s) fun %s =>" % (atom(t), atom(self.ret_term("RResult.err")), v))
            return v, ty[1]
        if k == "call":
            return self.ex_call(e, want)
        if k == "mcall":
            return self.ex_mcall(e, want)
        if k == "tuple":
            parts = [self.ex(x) for x in e.items]
            return "(%s)" % ", ".join(p[0] for p in parts), ("tup", tuple(p[1] for p in parts))
        if k == "macro":
            if e.name == "format":
                for g, _ in e.groups:
                    self.check_pure(self.sub(g))
                return "()", "str"
        self.bad("expression `%s`" % k, line)

    def ex_repeat(self, v, n, line):
        if v.kind != "int" or int(v.text, 0) != 0:
            self.bad("`[x; n]` with x other than the literal 0", line)
        t, ty = self.ex(n, "usize")
        if ty != "usize":
            self.bad("repeat count of type `%s`" % ty, line)
        return "(List.replicate %s.toNat (0 : UInt8))" % atom(t), "bytes"

    def ex_bin(self, e, want):
        op, line = e.op, e.line
        if op in ("+", "-", "*"):
            ty = self.arith_type(e) or want
            a, aty = self.ex(e.a, ty)
            b, bty = self.ex(e.b, ty)
            if aty != bty or aty not in INTS:
                self.bad("`%s` on `%s` and `%s`" % (op, aty, bty), line)
            okf = {"+": "addOk", "-": "subOk", "*": "mulOk"}[op]
            self.emit("Flow.bind (Flow.arith ov (%s.%s %s %s)) fun _ =>" % (INTS[aty][0], okf, atom(a), atom(b)))
            return "(%s %s %s)" % (atom(a), op, atom(b)), aty
        if op in ("==", "!=", "<", ">", "<=", ">="):
            ty = self.arith_type(e.a) or self.arith_type(e.b)
            a, aty = self.ex(e.a, ty)
            b, bty = self.ex(e.b, aty)
            if aty != bty or aty not in INTS:
                self.bad("comparison of `%s` and `%s`" % (aty, bty), line)
            lop = {"==": "=", "!=": "≠", "<": "<", ">": ">", "<=": "≤", ">=": "≥"}[op]
            return "(decide (%s %s %s))" % (atom(a), lop, atom(b)), "bool"
        self.bad("operator `%s`" % op, line)

    def ex_mcall(self, e, want):
        line, name = e.line, e.name
        # idioms on syntactic receivers
        if name == "concat" and e.recv.kind == "array" and not e.args:
            parts = []
            for x in e.recv.items:
                t, ty = self.ex(x, "bytes")
                if ty != "bytes":
                    self.bad("`[..].concat()` of `%s`" % ty, x.line)
                parts.append(atom(t))
            return "(%s)" % " ++ ".join(parts), "bytes"
        if name == "random_range" and e.recv.kind == "call" and e.recv.fn.kind == "path" and e.recv.fn.segs == ["rand", "rng"] \
                and not e.recv.args and len(e.args) == 1 and e.args[0].kind == "range" and e.args[0].incl:
            lo, lty = self.ex(e.args[0].lo, "u16")
            hi, hty = self.ex(e.args[0].hi, "u16")
            if lty != "u16" or hty != "u16":
                self.bad("`random_range` on `%s`" % lty, line)
            self.require_use("Rng", line)
            self.use_ext("rng_random_range_inclusive_u16")
            return self.bind_call("X.rng_random_range_inclusive_u16", [atom(lo), atom(hi)], line), "u16"
        if name == "map_err" and len(e.args) == 1 and e.args[0].kind == "closure":
            if e.args[0].text not in ("e . to_string ( )", "anyhow ! ( e )") or e.args[0].params != "e":
                self.bad("`map_err` with a closure other than `|e| e.to_string()` / `|e| anyhow!(e)`", line)
            t, ty = self.ex(e.recv)
            if not isinstance(ty, tuple) or ty[0] != "res":
                self.bad("`map_err` on `%s`" % (ty,), line)
            return t, ty
        if name == "for_each":
            self.bad("`for_each` outside the xor idiom", line)
        # receiver
        rv = None
        if e.recv.kind == "path" and len(e.recv.segs) == 1 and e.recv.segs[0] not in self.consts:
            rv = self.lookup(e.recv.segs[0], line)
        t, ty = self.ex(e.recv)
        if rv is not None and name == "copy_from_slice":
            rv.tentative = False
        if (ty, name) in EXT_METHODS:
            recv_mut, sig = EXT_METHODS[(ty, name)]
            if recv_mut and rv is None:
                self.bad("`%s` on a receiver that is not a variable" % name, line)
            return self.call(sig, (atom(t), rv), recv_mut, e.args, line, "`%s`" % name), sig.ret
        nargs = len(e.args)
        if ty in ("bytes", "keys") and name in ("len",) and nargs == 0:
            return "(%s %s)" % ("Cursor.len" if ty == "bytes" else "Keys.len", atom(t)), "usize"
        if ty == "bytes" and name == "remaining" and nargs == 0:
            return "(Cursor.remaining %s)" % atom(t), "usize"
        if ty == "bytes" and name == "has_remaining" and nargs == 0:
            return "(Cursor.has_remaining %s)" % atom(t), "bool"
        if ty == "bytes" and name in ("freeze", "as_bytes") and nargs == 0:
            return t, "bytes"
        if ty == "user" and name == "clone" and nargs == 0:
            return t, "user"
        if ty == "keys" and name == "iter" and nargs == 0:
            return t, "keys"
        if ty == "u64" and name == "to_be_bytes" and nargs == 0:
            return "(beBytes 8 %s.toNat)" % atom(t), "bytes"
        if ty == "mode" and name == "to_u8" and nargs == 0:
            return self.bind_call("SsTcpGen.Mode.to_u8 ov", [atom(t)], line), "u8"
        if ty in ("u64", "usize") and name == "abs_diff" and nargs == 1:
            a, aty = self.ex(e.args[0], ty)
            if aty != ty:
                self.bad("`abs_diff` of `%s` and `%s`" % (ty, aty), line)
            return "(U64.abs_diff %s %s)" % (atom(t), atom(a)), ty
        if ty == "usize" and name == "min" and nargs == 1:
            a, aty = self.ex(e.args[0], "usize")
            if aty != "usize":
                self.bad("`min` of `usize` and `%s`" % aty, line)
            return "(Usize.min %s %s)" % (atom(t), atom(a)), "usize"
        if ty == "bytes" and name in ("put_u8", "put_u16", "put_u64", "extend_from_slice") and nargs == 1 and rv is not None:
            aty_want = {"put_u8": "u8", "put_u16": "u16", "put_u64": "u64", "extend_from_slice": "bytes"}[name]
            a, aty = self.ex(e.args[0], aty_want)
            if aty != aty_want:
                self.bad("`%s` of `%s`" % (name, aty), line)
            if aty_want == "bytes":
                self.confirm_bytes(e.args[0])
            self.set_var(rv, "(Cursor.%s %s %s)" % (name, self.cur(rv), atom(a)), line)
            return "()", "unit"
        if ty == "bytes" and name == "split_to" and nargs == 1 and rv is not None:
            a, aty = self.ex(e.args[0], "usize")
            if aty != "usize":
                self.bad("`split_to` of `%s`" % aty, line)
            v = self.fresh()
            self.emit("Flow.bind (Flow.split_to %s %s) fun %s =>" % (self.cur(rv), atom(a), v))
            self.set_var(rv, v + ".1", line)
            return v + ".2", "bytes"
        if ty == "bytes" and name == "copy_from_slice" and nargs == 1 and rv is not None:
            a, aty = self.ex(e.args[0], "bytes")
            if aty != "bytes":
                self.bad("`copy_from_slice` of `%s`" % aty, line)
            v = self.fresh()
            self.emit("Flow.bind (Flow.copy_from_slice %s %s) fun %s =>" % (self.cur(rv), atom(a), v))
            self.set_var(rv, v, line)
            return "()", "unit"
        self.bad("method `%s` on `%s`" % (name, ty), line)

    def cur(self, v):
        while v.root is not None:
            v = v.root
        return v.lean

    # ---- statements
    def state_term(self, vs):
        if not vs:
            return "()"
        if len(vs) == 1:
            return self.cur(vs[0])
        return "(%s)" % ", ".join(self.cur(v) for v in vs)

    def unpack(self, vs, s, record):
        for i, v in enumerate(vs):
            if len(vs) == 1:
                term = s
            else:
                term = s + ".2" * i + (".1" if i < len(vs) - 1 else "")
            r = v
            while r.root is not None:
                r = r.root
            self.emit("let %s : %s := %s" % (r.lean, lean_ty(r.ty), term))
            if record:
                self.written(r)

    def patch(self, start, fid, vs):
        nxt = "Flow.next %s" % self.state_term(vs)
        for i in range(start, len(self.out)):
            self.out[i] = self.out[i].replace("@@NEXT%d@@" % fid, nxt).replace("@@INIT%d@@" % fid, self.state_term(vs))
        # the unpack lines at the head of a loop body
        j = start
        while j < len(self.out):
            if "@@UNPACK%d@@" % fid in self.out[j]:
                indent = self.out[j][:len(self.out[j]) - len(self.out[j].lstrip())]
                save, save_ind, self.out, self.ind = self.out, self.ind, [], 0
                self.unpack(vs, "s%d" % fid, False)
                lines = [indent + l for l in self.out]
                self.out, self.ind = save, save_ind
                self.out[j:j + 1] = lines
                break
            j += 1

    def new_frame(self):
        self.nf += 1
        f = Frame(self.depth + 1, self.nf)
        self.frames.append(f)
        return f

    def roots(self, vs):
        out = []
        for v in vs:
            while v.root is not None:
                v = v.root
            if v not in out:
                out.append(v)
        return out

    def close_frame(self, f, start):
        self.frames.pop()
        vs = self.roots(f.written)
        self.patch(start, f.ident, vs)
        return vs

    def stmt_branch(self, e):
        pre = self.branch_pre(e)
        f = self.new_frame()
        start = len(self.out)
        self.emit("Flow.bind (")
        self.ind += 1
        self.branches(e, "next", f.ident, pre)
        self.ind -= 1
        vs = self.close_frame(f, start)
        self.emit(") fun t%d =>" % f.ident)
        self.unpack(vs, "t%d" % f.ident, True)

    def branch_pre(self, e):
        """evaluate the condition / scrutinee (before the branching term is opened)"""
        if e.kind == "if":
            t, ty = self.ex(e.cond, "bool")
            if ty != "bool":
                self.bad("condition of type `%s`" % (ty,), e.line)
            return t
        t, ty = self.ex(e.scrut)
        return (t, ty)

    def branches(self, e, mode, fid, pre=None):
        if pre is None:
            pre = self.branch_pre(e)
        k = e.kind
        if k == "if":
            self.comment(e.line, "if %s { ... }" % show_expr(e.cond))
            self.emit("if %s then" % pre)
            self.body(e.then, mode, fid)
            self.emit("else")
            self.else_body(e.els, mode, fid, e.line)
        elif k == "iflet":
            t, ty = pre
            p = e.pat
            if p.kind != "p_ctor" or p.segs != ["Some"] or not isinstance(ty, tuple) or ty[0] != "opt":
                self.bad("`if let` other than `Some(x)` on an `Option`", e.line)
            self.comment(e.line, "if let Some(%s) = %s { ... }" % (p.bind, show_expr(e.scrut)))
            self.emit("match %s with" % t)
            self.scopes.append({}); self.depth += 1
            v = self.declare(p.bind, ty[1], False)
            self.emit("| some %s =>" % v.lean)
            self.body(e.then, mode, fid)
            self.scopes.pop(); self.depth -= 1
            self.emit("| none =>")
            self.else_body(e.els, mode, fid, e.line)
        elif k == "match":
            t, ty = pre
            if ty != "kind":
                self.bad("`match` on `%s`" % (ty,), e.line)
            self.comment(e.line, "match %s { ... }" % show_expr(e.scrut))
            self.emit("match %s with" % t)
            seen_wild = False
            for arm in e.arms:
                if seen_wild:
                    self.bad("arm after `_`", arm.line)
                pats = []
                for p in arm.pats:
                    if p.kind == "p_wild":
                        seen_wild = True
                        pats.append("_")
                    elif p.kind == "p_path" and len(p.segs) == 2 and p.segs[0] == "CipherKind":
                        pats.append("SsTcpGen.CipherKind.%s" % p.segs[1])
                    else:
                        self.bad("pattern in a `match` on `CipherKind`", p.line)
                self.emit("| " + " | ".join(pats) + " =>")
                self.ind += 1
                self.comment(arm.line, "%s => ..." % " | ".join(pats).replace("SsTcpGen.CipherKind.", "CipherKind::"))
                self.ind -= 1
                if arm.body.kind == "block":
                    self.body(arm.body, mode, fid)
                else:
                    self.body(Node("block", arm.line, stmts=[], tail=arm.body), mode, fid)
            if not seen_wild:
                self.bad("`match` on `CipherKind` without `_` arm", e.line)
        else:
            self.bad("branching `%s`" % k, e.line)

    def else_body(self, els, mode, fid, line):
        if els is None:
            if mode == "ret":
                self.bad("`if` without `else` as a value", line)
            self.ind += 1
            self.emit("@@NEXT%d@@" % fid)
            self.ind -= 1
        elif els.kind == "block":
            self.body(els, mode, fid)
        else:
            self.ind += 1
            self.branches(els, mode, fid)
            self.ind -= 1

    def body(self, blk, mode, fid):
        self.ind += 1
        self.scopes.append({}); self.depth += 1
        self.stmts(blk.stmts)
        if mode == "ret":
            self.ret_value(blk.tail, blk.line)
        else:
            if blk.tail is not None:
                if not self.diverge(blk.tail):
                    self.stmt_expr(blk.tail)
                    self.emit("@@NEXT%d@@" % fid)
            else:
                self.emit("@@NEXT%d@@" % fid)
        self.scopes.pop(); self.depth -= 1
        self.ind -= 1

    def diverge(self, e):
        if e.kind == "macro" and e.name == "bail":
            for g, _ in e.groups:
                self.check_pure(self.sub(g))
            if not isinstance(self.ret_ty, tuple) or self.ret_ty[0] != "res":
                self.bad("`bail!` in a function that does not return a `Result`", e.line)
            self.comment(e.line, "bail!(…)")
            self.emit("Flow.ret %s" % self.ret_term("RResult.err"))
            return True
        if e.kind == "macro" and e.name == "unreachable":
            for g, _ in e.groups:
                self.check_pure(self.sub(g))
            self.comment(e.line, "unreachable!(…)")
            self.emit("Flow.panic")
            return True
        return False

    def ret_value(self, e, line):
        if e is None:
            if self.ret_ty != "unit":
                self.bad("block without a value", line)
            self.emit("Flow.ret %s" % self.ret_term("()"))
            return
        if self.diverge(e):
            return
        if e.kind in ("if", "iflet", "match"):
            if self.ret_ty == "unit" and (e.kind != "match") and e.els is None:
                self.stmt_branch(e)
                self.emit("Flow.ret %s" % self.ret_term("()"))
                return
            self.branches(e, "ret", 0)
            return
        if e.kind == "block":
            self.body(e, "ret", 0)
            return
        self.comment(e.line, "%s   (value of the function body)" % show_expr(e))
        t, ty = self.ex(e, self.ret_ty)
        if ty != self.ret_ty:
            self.bad("value of type `%s` where the function returns `%s`" % (ty, self.ret_ty), e.line)
        self.emit("Flow.ret %s" % self.ret_term(t))

    def is_xor_idiom(self, e):
        return (e.kind == "mcall" and e.name == "for_each" and len(e.args) == 1 and e.args[0].kind == "closure"
                and e.args[0].params == "( l , r )" and e.args[0].text == "* l ^= r"
                and e.recv.kind == "mcall" and e.recv.name == "zip" and len(e.recv.args) == 1
                and e.recv.recv.kind == "mcall" and e.recv.recv.name == "iter_mut" and not e.recv.recv.args
                and e.recv.recv.recv.kind == "path" and len(e.recv.recv.recv.segs) == 1)

    def stmt_expr(self, e):
        line = e.line
        if e.kind == "macro" and e.name in ("trace", "debug", "info", "warn", "error"):
            for g, _ in e.groups:
                self.check_pure(self.sub(g))
            self.comment(line, "%s!(…)   (logging; the arguments are free of effects)" % e.name)
            return
        if e.kind in ("if", "iflet", "match"):
            self.stmt_branch(e)
            return
        self.comment(line, show_expr(e))
        if self.is_xor_idiom(e):
            a = self.lookup(e.recv.recv.recv.segs[0], line)
            b, bty = self.ex(e.recv.args[0], "bytes")
            if a.ty != "bytes" or bty != "bytes":
                self.bad("xor idiom on `%s` and `%s`" % (a.ty, bty), line)
            a.tentative = False
            self.set_var(a, "(Bytes.xor_zip %s %s)" % (self.cur(a), atom(b)), line)
            return
        t, ty = self.ex(e)
        if ty != "unit":
            self.bad("value of type `%s` dropped" % (ty,), line)

    def find_assign_type(self, name, stmts):
        for s in stmts:
            if s.kind == "assign" and s.op == "=" and s.lhs.kind == "path" and s.lhs.segs == [name]:
                if s.rhs.kind == "mcall" and s.rhs.name in ("len", "remaining") and not s.rhs.args:
                    return "usize"
                return None
            for sub in self.sub_blocks(s):
                t = self.find_assign_type(name, sub.stmts)
                if t:
                    return t
        return None

    def sub_blocks(self, s):
        e = s.e if s.kind == "expr" else None
        out = []
        if s.kind == "for":
            out.append(s.body)
        while e is not None and e.kind in ("if", "iflet"):
            out.append(e.then)
            if e.els is not None and e.els.kind == "block":
                out.append(e.els)
                e = None
            else:
                e = e.els
        return out

    def stmts(self, stmts):
        for idx, s in enumerate(stmts):
            k, line = s.kind, s.line
            if k == "inner_use":
                self.comment(line, "%s;   (name binding only)" % s.text)
                self.uses.append(s.text.replace(" ", "")[3:])
            elif k == "let":
                self.comment(line, "let %s%s = %s;" % ("mut " if s.mut else "", s.name, show_expr(s.val)))
                val = s.val
                if val.kind == "call" and val.fn.kind == "path" and val.fn.segs == ["Block", "from_mut_slice"] and len(val.args) == 1:
                    self.require_use("Block", line)
                    root = self.place_var(val.args[0], line)
                    if root.ty != "bytes":
                        self.bad("`Block::from_mut_slice` of `%s`" % (root.ty,), line)
                    self.emit("Flow.bind (Flow.block_of %s) fun _ =>" % self.cur(root))
                    v = self.declare(s.name, "bytes", True, root=root)
                    continue
                want = resolve_type(s.ty, self.fname) if s.ty is not None else None
                mut, tentative = s.mut, False
                if val.kind == "ref" and val.mut and val.e.kind == "repeat":
                    mut, val = True, val.e
                if val.kind in ("repeat", "vecrep"):
                    tentative = True
                if val.kind == "int" and want is None:
                    want = self.find_assign_type(s.name, stmts[idx + 1:])
                    if want is None:
                        self.bad("`let %s = %s`: the type of the literal is not determined by a later `%s = x.len()`" % (s.name, val.text, s.name), line)
                t, ty = self.ex(val, want)
                if want is not None and ty != want:
                    self.bad("`let %s: %s` initialised with `%s`" % (s.name, want, ty), line)
                v = self.declare(s.name, ty, mut, tentative=tentative)
                self.all_vars.append(v)
                self.emit("let %s : %s := %s" % (v.lean, lean_ty(ty), t))
            elif k == "assign":
                self.comment(line, "%s %s %s;" % (show_expr(s.lhs), s.op, show_expr(s.rhs)))
                if s.op != "=":
                    self.bad("compound assignment", line)
                if s.lhs.kind == "path" and len(s.lhs.segs) == 1:
                    v = self.lookup(s.lhs.segs[0], line)
                    t, ty = self.ex(s.rhs, v.ty)
                    if ty != v.ty:
                        self.bad("assignment of `%s` to `%s: %s`" % (ty, v.rust, v.ty), line)
                    self.set_var(v, t, line)
                elif s.lhs.kind == "field" and s.lhs.e.kind == "path" and len(s.lhs.e.segs) == 1:
                    v = self.lookup(s.lhs.e.segs[0], line)
                    if (v.ty, s.lhs.name) != ("identity", "user"):
                        self.bad("assignment to field `%s` of `%s`" % (s.lhs.name, v.ty), line)
                    t, ty = self.ex(s.rhs, ("opt", "user"))
                    if ty != ("opt", "user"):
                        self.bad("assignment of `%s` to `identity.user`" % (ty,), line)
                    self.set_var(v, "{ %s with user := %s }" % (self.cur(v), t), line)
                else:
                    self.bad("assignment target", line)
            elif k == "expr":
                if not self.diverge(s.e):
                    self.stmt_expr(s.e)
                else:
                    self.bad("statements after a diverging macro", line) if idx + 1 < len(stmts) else None
            elif k == "for":
                self.stmt_for(s)
            else:
                self.bad("statement `%s`" % k, line)

    def stmt_for(self, s):
        line, it = s.line, s.iter
        if it.kind == "range" and not it.incl:
            lo, lty = self.ex(it.lo, "usize")
            hi, hty = self.ex(it.hi, "usize")
            if lty != "usize" or hty != "usize":
                self.bad("`for` over a range of `%s`" % (lty,), line)
            head, vty = "Flow.forExcl %s %s" % (atom(lo), atom(hi)), "usize"
            self.comment(line, "for %s in %s..%s { ... }" % (s.var, show_expr(it.lo), show_expr(it.hi)))
        else:
            t, ty = self.ex(it)
            if ty != "keys" or not (it.kind == "mcall" and it.name == "iter"):
                self.bad("`for` over something other than `a..b` / `keys.iter()`", line)
            head, vty = "Flow.forEach %s" % atom(t), "bytes"
            self.comment(line, "for %s in %s { ... }" % (s.var, show_expr(it)))
        f = self.new_frame()
        start = len(self.out)
        self.scopes.append({}); self.depth += 1
        v = self.declare(s.var, vty, False)
        self.emit("Flow.bind (%s (fun %s s%d =>" % (head, v.lean, f.ident))
        self.ind += 1
        self.emit("@@UNPACK%d@@" % f.ident)
        self.ind -= 1
        self.depth -= 1
        self.body(Node("block", line, stmts=s.body.stmts, tail=s.body.tail), "next", f.ident)
        self.scopes.pop()
        vs = self.close_frame(f, start)
        self.emit(") %s) fun t%d =>" % (self.state_term(vs), f.ident))
        self.unpack(vs, "t%d" % f.ident, True)

    # ---- functions
    def gen_fn(self, fn, sig):
        self.uses = self.file_uses[:]
        self.nv, self.nf, self.ind, self.depth = 0, 0, 1, 0
        self.scopes, self.frames, self.lean_names, self.all_vars = [{}], [], set(), []
        self.ret_ty = sig.ret
        self.mut_params = []
        binders = []
        for p, pt in zip(fn.params, sig.params):
            is_mut = p.ty.kind == "ty_ref" and p.ty.mut
            v = self.declare(p.name, pt, is_mut)
            if is_mut:
                self.mut_params.append(v)
            binders.append("(%s : %s)" % (v.lean, lean_ty(pt)))
        self.emit_raw("-- %s L%d: %s" % (self.fname, fn.line, show_sig(fn)))
        self.emit_raw("/-- `%s` of %s%s -/" % (fn.name, self.fname, "; the result is (%s, returned value)" % ", ".join("final `*%s`" % v.rust for v in self.mut_params) if self.mut_params else ""))
        self.emit_raw("def %s (ov : Bool) {T : ExtTypes} (X : Ext T) %s : Res (%s) :=" % (sig.lean, " ".join(binders), sig.lean_ret()))
        self.emit_raw("  Flow.run (")
        self.stmts(fn.body.stmts)
        self.ret_value(fn.body.tail, fn.end)
        self.emit_raw("  )")
        self.emit_raw("")
        for v in self.all_vars:
            if v.tentative:
                self.bad("`%s = [0; n]`: the element type is not fixed by a use as bytes" % v.rust, fn.line)

    def emit_raw(self, s):
        self.out.append(s)


def atom(t):
    t = t.strip()
    if re.fullmatch(r"[\w.']+", t) or (t.startswith("(") and t.endswith(")") and balanced(t)):
        return t
    return "(%s)" % t


def balanced(t):
    d = 0
    for i, c in enumerate(t):
        if c == "(":
            d += 1
        elif c == ")":
            d -= 1
            if d == 0 and i != len(t) - 1:
                return False
    return d == 0


def show_expr(e):
    k = e.kind
    if k == "int":
        return e.text
    if k in ("str", "bstr"):
        return e.text
    if k == "unit":
        return "()"
    if k == "path":
        return "::".join(s + ("::<%s>" % e.targs[i] if i in e.targs else "") for i, s in enumerate(e.segs))
    if k == "qpath":
        return "<%s as %s>::%s" % (e.ty, e.trait, "::".join(e.segs))
    if k == "paren":
        return "(%s)" % show_expr(e.e)
    if k == "ref":
        return "&" + ("mut " if e.mut else "") + show_expr(e.e)
    if k == "deref":
        return "*" + show_expr(e.e)
    if k == "not":
        return "!" + show_expr(e.e)
    if k == "bin":
        return "%s %s %s" % (show_expr(e.a), e.op, show_expr(e.b))
    if k == "cast":
        return "%s as %s" % (show_expr(e.e), show_type(e.ty))
    if k == "field":
        return "%s.%s" % (show_expr(e.e), e.name)
    if k == "index":
        return "%s[%s]" % (show_expr(e.e), show_expr(e.idx))
    if k == "slice_to":
        return "%s[..%s]" % (show_expr(e.e), show_expr(e.hi))
    if k == "try":
        return show_expr(e.e) + "?"
    if k == "call":
        return "%s(%s)" % (show_expr(e.fn), ", ".join(show_expr(a) for a in e.args))
    if k == "mcall":
        return "%s.%s(%s)" % (show_expr(e.recv), e.name, ", ".join(show_expr(a) for a in e.args))
    if k == "closure":
        return "|%s| %s" % (e.params.replace(" ", ""), e.text)
    if k == "tuple":
        return "(%s)" % ", ".join(show_expr(a) for a in e.items)
    if k == "array":
        return "[%s]" % ", ".join(show_expr(a) for a in e.items)
    if k == "repeat":
        return "[%s; %s]" % (show_expr(e.e), show_expr(e.n))
    if k == "vecrep":
        return "vec![%s; %s]" % (show_expr(e.e), show_expr(e.n))
    if k == "range":
        return "%s..%s%s" % (show_expr(e.lo), "=" if e.incl else "", show_expr(e.hi))
    if k == "macro":
        return "%s!(…)" % e.name
    if k in ("if", "iflet", "match", "block"):
        return "%s { ... }" % k
    return "<%s>" % k


# --------------------------------------------------------------------------------------------
# driver
# --------------------------------------------------------------------------------------------

PRELUDE = '''/-! ### fixed run-time support (not derived from the source): library semantics

`Res`, `Flow`, `Flow.bind/run/arith`, `Flow.forExcl` are those of `Octo.PWGen`; `RResult`, `Cursor`, `beBytes`, the `put_*` operations,
`Flow.split_to`, `Flow.question` and the integer casts are those of `Octo.AddrGen`; `CipherKind`, `Mode` (+ `Mode.to_u8`), `ChunkEncoder`,
`ChunkDecoder`, `Identity`, `ServerUser` are the declarations of `Octo.SsTcpGen` (generated from the same checkout). -/

/-- call of a translated or assumed function: its value, or its panic -/
def Flow.call {α ρ : Type} : Res α → Flow α ρ
  | .ok a => .next a
  | .panic => .panic
/-- `u64::abs_diff` -/
def U64.abs_diff (a b : UInt64) : UInt64 := if a ≤ b then b - a else a - b
/-- `usize::min` -/
def Usize.min (a b : Usize) : Usize := if a ≤ b then a else b
/-- `len()` of a slice of keys -/
def Keys.len (k : List (List UInt8)) : Usize := UInt64.ofNat k.length
/-- `&b[..hi]`: panics when `hi > len` -/
def Flow.slice_to {ρ : Type} (b : List UInt8) (hi : Usize) : Flow (List UInt8) ρ :=
  if hi.toNat ≤ b.length then .next (b.take hi.toNat) else .panic
/-- `dst.copy_from_slice(src)`: panics when the lengths differ; the new content of `dst` -/
def Flow.copy_from_slice {ρ : Type} (dst src : List UInt8) : Flow (List UInt8) ρ :=
  if dst.length = src.length then .next src else .panic
/-- `keys[i]`: panics out of bounds -/
def Flow.list_index {τ ρ : Type} (a : List τ) (i : Usize) : Flow τ ρ :=
  match a[i.toNat]? with
  | some v => .next v
  | none => .panic
/-- `for x in keys.iter() { body }` -/
def Flow.forEach {τ σ ρ : Type} : List τ → (τ → σ → Flow σ ρ) → σ → Flow σ ρ
  | [], _, s => .next s
  | x :: xs, body, s => (body x s).bind (Flow.forEach xs body)
/-- `Block::from_mut_slice(b)` (`GenericArray<u8, U16>`): panics unless `b` has exactly 16 bytes; the block aliases `b` -/
def Flow.block_of {ρ : Type} (b : List UInt8) : Flow Unit ρ := if b.length = 16 then .next () else .panic
/-- `Key::<C>::from_slice(b)` (`GenericArray`): panics unless `b` has exactly the key size of `C` -/
def Flow.exact_len {ρ : Type} (b : List UInt8) (n : Usize) : Flow (List UInt8) ρ := if b.length = n.toNat then .next b else .panic
/-- `a.iter_mut().zip(b).for_each(|(l, r)| *l ^= r)`: the new content of `a` (the shorter length is xored) -/
def Bytes.xor_zip : List UInt8 → List UInt8 → List UInt8
  | [], _ => []
  | a, [] => a
  | x :: a, y :: b => (x ^^^ y) :: Bytes.xor_zip a b

/-- the types behind the assumed externals -/
structure ExtTypes : Type 1 where
  /-- `Authenticator`, `ServerUserManager<N>` (and the cache type, unused here): those of `Octo.SsTcpGen` -/
  base : SsTcpGen.ExtTypes
  /-- `codec::aead::CipherMethod` (a keyed AEAD cipher) -/
  CipherMethod : Type
  /-- `hkdf::Hkdf<Sha1>` after extract -/
  HkdfSha1 : Type
  /-- `aes::Aes128` / `aes::Aes256` (keyed block ciphers) -/
  Aes128 : Type
  Aes256 : Type
  /-- `std::time::SystemTime`, `std::time::Duration` -/
  SystemTime : Type
  Duration : Type
  /-- `chacha20poly1305::XChaCha8Poly1305` / `XChaCha20Poly1305` (keyed) -/
  XChaCha8Poly1305 : Type
  XChaCha20Poly1305 : Type
'''

LEAN_FN = {"a22": "", "tcp": "tcp_", "udp": "udp_", "leg": "aead_"}


def find_file(root, rel, flat):
    for cand in (os.path.join(root, "octo-squirrel", "src", rel), os.path.join(root, "src", rel), os.path.join(root, rel), os.path.join(root, flat)):
        if os.path.isfile(cand):
            return cand
    raise OSError("cannot find %s (or a flat copy %s) under %s" % (rel, flat, root))


def normalise(text):
    text = re.sub(r"//[^\n]*", "", text)
    return re.sub(r"\s+", " ", text).replace("( ", "(").replace(" )", ")").replace(" ,", ",")


def calls_of(node, names, out):
    if isinstance(node, Node):
        if node.kind == "call" and node.fn.kind == "path" and len(node.fn.segs) == 1 and node.fn.segs[0] in names:
            out.add(node.fn.segs[0])
        for v in node.__dict__.values():
            calls_of(v, names, out)
    elif isinstance(node, (list, tuple)):
        for x in node:
            calls_of(x, names, out)


def ext_field_type(sig, recv_ty, recv_mut):
    ps = ([lean_ty(recv_ty)] if recv_ty else []) + [lean_ty(p) for p in sig.params]
    outs = ([lean_ty(recv_ty)] if recv_mut else []) + [lean_ty(sig.params[i]) for i in sig.muts] + [lean_ty(sig.ret)]
    return " → ".join(ps + ["Res (%s)" % " × ".join(outs)])


def translate(root, out_path):
    if not os.path.isdir(root):
        raise OSError("%s is not a directory (expected the checkout root)" % root)
    loaded = {}
    for role, rel, flat in FILES:
        path = find_file(root, rel, flat)
        data = open(path, "rb").read()
        toks = pw.tokenize(bytestr_prepass(data.decode("utf-8")))
        p = P(toks, rel.split("shadowsocks/")[-1])
        p.parse_file()
        loaded[role] = (path, rel, hashlib.sha256(data).hexdigest(), p)
    sides = {}
    for role, rel, flat in SIDE_FILES:
        path = find_file(root, rel, flat)
        data = open(path, "rb").read()
        sides[role] = (path, rel, hashlib.sha256(data).hexdigest(), normalise(data.decode("utf-8")))
    for role, what, sigtext in SIDE_SIGS:
        if normalise(sigtext) not in sides[role][3]:
            raise Unsupported("assumed external `%s`: the signature `%s` is not found in %s" % (what, sigtext, sides[role][1]), 1)
    sst = os.path.join(os.path.dirname(os.path.abspath(out_path)), "SsTcpGen.lean")
    note = ""
    if os.path.exists(sst):
        head = open(sst, encoding="utf-8").read(6000)
        for role, label in (("kind", "kind"), ("chunk", "chunk"), ("user", "user"), ("mode", "mode")):
            m = re.search(r"- %s: [^\n]*\(sha256 (\w+)\)" % label, head)
            if m and m.group(1) != sides[role][2]:
                raise OSError("%s was generated from another %s: run translate_sstcp.py on this checkout first" % (sst, sides[role][1]))
        note = " (sha256 of the shared side files compared with its header)"

    # -- signatures of the local functions
    local, order = {}, []
    for role, _, _ in FILES:
        path, rel, dig, p = loaded[role]
        fname = p.fname
        for fn in p.fns:
            params = [resolve_type(q.ty, fname) for q in fn.params]
            muts = [i for i, q in enumerate(fn.params) if q.ty.kind == "ty_ref" and q.ty.mut]
            for g in fn.generics:
                if g != "N":
                    raise Unsupported("%s: const generic `%s`" % (fname, g), fn.line)
            local[(role, fn.name)] = Sig(LEAN_FN[role] + fn.name, params, muts, resolve_type(fn.ret, fname))
        # callees first
        names = {fn.name: fn for fn in p.fns}
        done = []

        def visit(fn, stack=()):
            if fn.name in done:
                return
            if fn.name in stack:
                raise Unsupported("%s: recursion through `%s`" % (fname, fn.name), fn.line)
            cs = set()
            calls_of(fn.body, set(names), cs)
            for c in sorted(cs, key=lambda n: names[n].line):
                # a local variable may shadow the function name (`let now = now()`): harmless for the order
                if c != fn.name:
                    visit(names[c], stack + (fn.name,))
            done.append(fn.name)
            order.append((role, fn))
        for fn in p.fns:
            visit(fn)

    used = []
    body = []
    for role, _, _ in FILES:
        path, rel, dig, p = loaded[role]
        consts = {}
        g = Gen(p.fname, role, consts, local, used)
        g.file_uses = p.uses
        body.append("/-! ## %s -/" % rel)
        for c in p.consts:
            ty = resolve_type(c.ty, p.fname)
            if ty not in INTS or c.val.kind != "int":
                raise Unsupported("%s: constant `%s` that is not an integer literal" % (p.fname, c.name), c.line)
            g.scopes = [{}]
            t, _ = g.int_lit(c.val, ty)
            consts[c.name] = (ty, t)
            body.append("-- %s L%d: const %s: %s = %s;" % (p.fname, c.line, c.name, show_type(c.ty), c.val.text))
            body.append("def %s : %s := %s" % (c.name, lean_ty(ty), t))
            body.append("")
        for r2, fn in order:
            if r2 != role:
                continue
            g.out = []
            g.gen_fn(fn, local[(role, fn.name)])
            body += g.out

    # -- the record of externals
    ext = ["/-! ### the assumed externals (not translated): one field per function / constant -/", "structure Ext (T : ExtTypes) where"]
    listing = []
    table = []
    for key, sig in EXT_CALLS.items():
        table.append((sig.ext, ext_field_type(sig, None, False), sig.doc))
    for (rty, name), (rmut, sig) in EXT_METHODS.items():
        table.append((sig.ext, ext_field_type(sig, rty, rmut), sig.doc))
    for ck, (field, doc) in EXT_CONSTS.items():
        table.append((field, "Usize", doc))
    for k, (field, ty, doc) in EXT_MISC.items():
        table.append((field, ty, doc))
    for field, ty, doc in table:
        if field in used:
            ext.append("  /-- %s -/" % doc)
            ext.append("  %s : %s" % (field, ty))
            listing.append("     - %s: %s" % (field, doc))
    for u in used:
        if u not in [t[0] for t in table]:
            raise Unsupported("internal: external `%s` without a declaration" % u, 1)

    head = ["/- GENERATED by translate_ss2022aux.py — do not edit."]
    for i, (role, _, _) in enumerate(FILES):
        path, rel, dig, p = loaded[role]
        head.append("   %s /repo/octo-squirrel/src/%s" % ("source: " if i == 0 else "        ", rel))
        head.append("   sha256: %s" % dig)
    head.append("   further sources (signatures of the assumed externals compared with the ones the translator knows):")
    for role, rel, flat in SIDE_FILES:
        head.append("     - %s: %s (sha256 %s): %s" % (role, rel, sides[role][2], ", ".join("`%s`" % w for r, w, _ in SIDE_SIGS if r == role)))
    head.append("   types `CipherKind`, `Mode`, `ChunkEncoder`, `ChunkDecoder`, `Identity`, `ServerUser`: Octo.SsTcpGen%s" % note)
    head.append("")
    head.append("   Statement-by-statement translation of the functions")
    for role, _, _ in FILES:
        path, rel, dig, p = loaded[role]
        head.append("     %s: %s" % (p.fname, ", ".join("`%s`" % fn.name for fn in p.fns)))
    head.append("""   Conventions of translate_addr.py / translate_sstcp.py: integers = UIntN (usize = 64 bit), `+ - *` wrap and are preceded by
   `Flow.arith ov (..)` (panic when overflow-checks are on), `BytesMut`/`Bytes`/`&[u8]`/`[u8; n]`/`Vec<u8>` = List UInt8,
   `&[[u8; N]]` = List (List UInt8), `Result<T, _>` = RResult T (error values are not modelled), `e?` = Flow.question,
   a function with `&mut` parameters returns their final values in front of the returned value (also on `Err`).  In addition here:
   * a string literal = its UTF-8 bytes, written out (`blake3::derive_key` contexts, `b"ss-subkey"`);
   * `[a, b].concat()` = `a ++ b`; `[0; n]` / `vec![0; n]` = `List.replicate n 0` (only when a later use fixes the element type `u8`);
   * `&x[..n]` = `Flow.slice_to` (panics when `n > len`), `copy_from_slice` panics when the lengths differ, `keys[i]` panics out of bounds;
   * `for x in keys.iter()` = `Flow.forEach`, `for i in a..b` = `Flow.forExcl`; the state of a loop / branch = the outer variables written in it;
   * `if let Some(x) = o` / `match kind { A | B => .., _ => .. }` = case trees; `unreachable!` = panic; `bail!` = return `Err`;
   * `Block::from_mut_slice(b)` panics unless `b` has 16 bytes, the block is an alias of `b`; `Key::<C>::from_slice(k)` panics unless `k` has the key size;
   * `BytesMut::with_capacity(n)`: `n` is evaluated (overflow checks), the value is the empty buffer; `freeze()` / `as_bytes()` / `ByteStr::new` are transparent;
   * `map_err(|e| e.to_string())` / `map_err(|e| anyhow!(e))` = identity (error values are not modelled);
   * `trace!`/`format!`/`bail!` arguments must be names, references or `ByteStr::new(..)` of such (free of effects) and are dropped;
   * `a.iter_mut().zip(b).for_each(|(l, r)| *l ^= r)` = `Bytes.xor_zip a b`; `rand::rng().random_range(lo..=hi)` = one external.
   ASSUMED EXTERNALS (fields of `Ext`, parameter `X` of every generated function; types in `ExtTypes`):""")
    head += listing
    head.append("   skipped (not parsed, bracket matching only):")
    for role, _, _ in FILES:
        path, rel, dig, p = loaded[role]
        head.append("     - %s: %d `use` items (read for name binding only)" % (p.fname, len(p.uses)))
        for sk in p.skipped:
            head.append("     - %s: %s" % (p.fname, sk))
    head.append("-/")
    head.append("import Octo.Gen.SsTcpGen")
    head.append("set_option linter.unusedVariables false")
    head.append("namespace Octo.Ss2022AuxGen")
    head.append("open Octo.PWGen Octo.AddrGen")
    head.append("")
    return "\n".join(head + [PRELUDE] + ext + [""] + body + ["end Octo.Ss2022AuxGen", ""])


def main(argv):
    if len(argv) != 3:
        sys.stderr.write("usage: translate_ss2022aux.py <checkout root> <out.lean>\n")
        return 2
    try:
        text = translate(argv[1], argv[2])
    except Unsupported as u:
        sys.stderr.write("translate_ss2022aux: unsupported: %s at line %d\n" % (u.what, u.line))
        return 3
    except OSError as e:
        sys.stderr.write("translate_ss2022aux: %s\n" % e)
        return 2
    if "@@" in text:
        sys.stderr.write("translate_ss2022aux: unsupported: internal placeholder left at line 1\n")
        return 3
    try:
        with open(argv[2], "w", encoding="utf-8") as f:
            f.write(text)
    except OSError as e:
        sys.stderr.write("translate_ss2022aux: %s\n" % e)
        return 2
    return 0


if __name__ == "__main__":
    sys.exit(main(sys.argv))
