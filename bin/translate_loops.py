#!/usr/bin/env python3
"""Control-flow extractor for the long-lived service loops of the proxy -> Lean 4 (`Octo.LoopsGen`).

usage:  translate_loops.py <root of a checkout of octo-squirrel> <out.lean>

Works on the token level (tokenizer of translate_pw.py, bracket matching, and a structural reading of `let`, `match`,
`if [let]`, `while [let]`, `tokio::select!`, `tokio::spawn(async ..)`, closures and macro calls - no expression parser).
For each `loop` / `while` of the target functions it emits one value `Octo.LoopsGen.<name> : Octo.Loops.Loop` listing the
control-flow SITES of the loop body in source order with their classification.  The classification rules are the trusted
part; they are written into the header of the generated file (RULES below) and applied mechanically.  A construct the rules
do not cover is refused (exit 3), never guessed.

Exit status: 0 a Lean module was written; 2 usage / IO error; 3 unsupported construct (one line on stderr, nothing written).
"""
import hashlib
import os
import re
import sys

sys.path.insert(0, os.path.dirname(os.path.abspath(__file__)))
from translate_pw import Unsupported  # noqa: E402
from translate_nonce import tokenize  # noqa: E402  (the tokenizer of translate_pw, tolerant of byte/raw strings and floats: opaque tokens)

# (file relative to the checkout root, fn name, name of the impl'd type or None, role)
TARGETS = [
    ("octo-squirrel-server/src/server.rs", "startup_tcp", None, "service"),
    ("octo-squirrel-server/src/server.rs", "startup_quic", None, "service"),
    ("octo-squirrel-server/src/server/shadowsocks.rs", "startup_udp", None, "service"),
    ("octo-squirrel-server/src/server/shadowsocks.rs", "relay", "UdpAssociateContext", "assoc"),
    ("octo-squirrel-client/src/client/template.rs", "transfer_tcp", None, "service"),
    ("octo-squirrel-client/src/client/template.rs", "transfer_udp", None, "service"),
    ("octo-squirrel-client/src/client/template.rs", "new_binding", None, "assoc"),
]

RULES = r"""
   TRUSTED CLASSIFICATION RULES (applied by translate_loops.py; everything proved in Lean is relative to them)

   Loops.  In each target function every `loop {..}` / `while ..  {..}` is extracted (at any depth, also inside a spawned
   `async` block); its name is the function name, with `_1`, `_2`.. in source order when the function has several.  A loop
   nested in the own task of an extracted loop, a labelled block/loop, `let .. else`, `unsafe`, an item (`fn`, `impl`..)
   inside a loop, an `async` block that is not an argument of `spawn`, a `select!` arm with an `, if` precondition, a
   macro other than the ones listed below, and control flow inside a closure are refused.

   Sites (in source order, `line` = line of the site's own token, `text` = the expression it applies to):
     await_    `E.await`, and the future `E` of every `select!` arm `PAT = E => ..` (`selectHead = true`)
     question  `E?`                              unwrap_  `E.unwrap()/.expect(..)/.unwrap_err()/.expect_err(..)`, `panic!`,
     break_    `break`, and the exit of `while [let]` when its condition/pattern stops holding      `unreachable!`, `todo!`,
     return_   `return`, `bail!`                                                                   `unimplemented!`, `assert*!`
     continue_ `continue`                        spawn    `tokio::spawn(..)` / `task::spawn(..)` / `spawn(..)`
   `E` is the postfix chain that ends at the token (identifiers, paths, `.field`, `.method(..)`, `[..]`, `?`, `.await`,
   turbofish, `macro!(..)`); `op` is the last function/method name called in it.
   Other macros: `error! warn! info! debug! trace! format! anyhow! vec! matches!` are read like ordinary argument lists
   (their arguments may contain sites; identifiers interpolated in format strings `{x}` count as mentions).

   inSpawn.  The site lies in an `async [move] {..}` block inside the argument list of `spawn(..)`.  Arguments of `spawn`
   outside such a block (`spawn(f(a, g()?))`) are evaluated by the loop itself: `inSpawn = false`.
   inPushedFuture.  The site lies in a future that the loop hands to one of its own future sets `X` (`let X =
   FuturesUnordered::new()` before the loop, never re-bound inside): in an `async [move] {..}` block inside the argument list
   of `X.push(..)`, or in the body of a closure of the prelude `let NAME = [move] |params| async [move] {..};` that is called
   inside such an argument list (`X.push(NAME(args))`; its parameters are flow data).  Such a future is polled by the
   `select!` arm `PAT = X.next()`, together with the other arms: it is not part of the loop's own straight line.

   Flow data (taint), by name, growing in source order over one loop body; names bound outside the loop are clean:
     * the payload of an own-resource source operation (below): names bound by the pattern that receives it (`let`, `match`
       / `if let` / `while let` arm, `select!` arm pattern);
     * `let PAT = E`: every name of PAT when E mentions a flow name or contains an `.await`;
     * `match S {PAT => ..}` / `if let PAT = S` / `while let PAT = S`: every name of PAT when S mentions a flow name or
       contains an `.await`;  names bound from a scrutinee that mentions neither stay clean;
     * `x = E` / `x.f = E` / `x op= E` (assignment): `x` when E mentions a flow name or contains an `.await` (and `x` counts as
       re-bound: it is no own resource any more).  Fields of `self` assigned from flow data are NOT tracked.
     * a mention is an identifier token that is not a field/method name (after `.`) and not a path segment (before `::`).
   `new_codec(context.as_ref())?` mentions no flow name: `perFlow = false` (it depends on the configuration only).

   Own resources of a loop ("service" operations).  A receiver `X` or `self.f` is an own resource iff it is bound OUTSIDE the
   loop body (function parameter, `let` before the loop, field of the impl'd struct), is never re-bound inside the body and
   is declared in one of these shapes:
       let X = ..TcpListener::bind(..)..   | parameter X: TcpListener                 listener  accept()      Result  source
       let X = ..Endpoint::server(..)..                                               endpoint  accept()      Option  source
       let X = ..UdpSocket::bind(..)..     | parameter X: UdpSocket | field f: UdpSocket   udp  recv_from(..) Result  source
                                                                                                send_to(..)   Result  sink
       let (_, X) = ..mpsc::channel..(..)  | parameter X: Receiver<..>                receiver  recv()        Option  source
       let (A, B) = ...split()             A: sink  send(..) Result sink ;  B: stream  next() Option<Result>  source
       let X = ..time::interval(..)                                                   interval  tick()        infallible
       let X = FuturesUnordered::new()                                                futset    next()        Option  source
            (only as the future of a select! arm: `None` = the set is empty; an `X.next().await` anywhere else waits for
             whatever the pushed futures wait for and is classified perFlow = true, service = false)
       [tokio::]time::sleep(..)                                                       timer                   infallible
   An await is `service = true` iff its expression is exactly `R.m(args)` with R an own resource and m its method (for a
   source operation and for `sleep` the arguments must mention no flow name; a sink operation may carry flow data).
   Every other `.await` in the loop's own task must mention a flow name (`perFlow = true`); one that does neither is refused.
   `fallible`: Result / Option<Result> operations: their `Err` can be brought about from outside (descriptor shortage, a
   reset before accept, ICMP, a malformed local datagram).  `None` of an Option / Option<Result> operation means that the
   resource itself is closed (all senders dropped, endpoint closed): cause `svcClosed`, not something a peer can do.

   handled (for awaits).  Looking forward along the postfix chain after `.await`: `?`, `.unwrap()`, `.expect(..)` => false;
   `.unwrap_or_else(..)`, `.unwrap_or(..)`, `.unwrap_or_default()`, `.ok()`, `.is_ok()`, `.is_err()` => true; otherwise the
   await must be the whole scrutinee of `match` / `if let` / `while let`, the whole initialiser of `let x =` / `let _ =`,
   a `select!` arm future, or an expression statement (else: refused).  As a scrutinee (directly, or through the variable
   it was bound to - which must then be used as a scrutinee only, any other use => false) it is handled iff no failure arm
   (`Err`, catch-all) contains a `break`/`return` site; `while let Ok(..) = R.m().await` => false.
   `question` and `unwrap_` sites are never handled (`?` leaves the function, a panic ends the task).

   perFlow.  await_/question/unwrap_/spawn: the expression mentions a flow name; for question/unwrap_ also when it contains
   an await that is not an infallible own-resource operation.  Jumps: `cause` is computed from the guards between the top of
   the body and the jump - arms of `match`/`if let` on an own-resource result are `succ` (payload), `svcError` (`Err`;
   `flowData` when the operation's arguments mention flow names), `svcClosed` (`None`); arms / branches on a scrutinee or
   condition that mentions flow names or contains an await are `flowData`; on one that does not, `localState`; the `else`
   arm of `select!` is `svcClosed` iff every refutable arm pattern is `Some(..)` of an own Option / Option<Result> source,
   else `flowData`.  cause = `svcClosed` if some guard is; else the class of the innermost guard that is not `succ`; else
   `flowData` if there is a `succ` guard; else `always`.  A jump has `perFlow = true` iff its cause is not `svcClosed`
   (for `panic!`-like sites likewise).

   Callee summaries.  When a service loop awaits, in its own task, a plain call `path::f(args)` and exactly one `fn f` exists in
   the same file, the body of `f` is read with the same rules (every parameter is flow data; no own resources; an await
   that mentions no flow name is recorded with perFlow = false instead of being refused) and emitted as `callee_f`.  It does
   not change the classification of the awaiting site; it says what that site waits for.

   Not covered: panics of indexing/arithmetic, blocking (non-async) calls, and what the awaited callees do inside.
"""

KEYWORDS_STOP = {
    "as", "break", "const", "continue", "else", "enum", "extern", "fn", "for", "if", "impl", "in", "let", "loop", "match",
    "mod", "move", "mut", "pub", "ref", "return", "static", "struct", "trait", "type", "unsafe", "use", "where", "while",
    "async", "dyn",
}
PATTERN_NON_BINDERS = {"mut", "ref", "_", "true", "false", "self", "Self", "super", "crate"}
LOG_LIKE = {"error", "warn", "info", "debug", "trace", "format", "anyhow", "vec", "matches"}
PANIC_MACROS = {"panic", "unreachable", "todo", "unimplemented", "assert", "assert_eq", "assert_ne", "debug_assert",
                "debug_assert_eq", "debug_assert_ne"}
PANIC_METHODS = {"unwrap", "expect", "unwrap_err", "expect_err"}
HANDLER_METHODS = {"unwrap_or_else", "unwrap_or", "unwrap_or_default", "ok", "is_ok", "is_err"}
FORBIDDEN_ITEMS = {"fn", "struct", "impl", "enum", "mod", "unsafe", "static", "trait", "extern", "const", "type"}

# kind -> method -> (shape, source?)
RESOURCE_METHODS = {
    "listener": {"accept": ("result", True)},
    "endpoint": {"accept": ("option", True)},
    "udp": {"recv_from": ("result", True), "send_to": ("result", False)},
    "receiver": {"recv": ("option", True)},
    "sink": {"send": ("result", False)},
    "stream": {"next": ("optres", True)},
    "interval": {"tick": ("none", True)},
    "futset": {"next": ("option", True)},   # only as the future of a select! arm
}
PARAM_TYPES = {"TcpListener": "listener", "UdpSocket": "udp", "Receiver": "receiver"}

OPEN = {"(": ")", "[": "]", "{": "}"}
CLOSE = {")", "]", "}"}


class SvcDesc:
    """the result of an own-resource operation (or of the payload layer of an Option<Result> one)"""

    def __init__(self, shape, args_tainted, site):
        self.shape, self.args_tainted, self.site = shape, args_tainted, site


class File:
    def __init__(self, path):
        self.path = path
        with open(path, "rb") as f:
            raw = f.read()
        self.sha = hashlib.sha256(raw).hexdigest()
        self.toks = tokenize(raw.decode("utf-8"))
        self.match = {}
        stack = []
        for i, t in enumerate(self.toks):
            if t.kind != "punct":
                continue
            if t.text in OPEN:
                stack.append(i)
            elif t.text in CLOSE:
                if not stack or OPEN[self.toks[stack[-1]].text] != t.text:
                    raise Unsupported("unbalanced bracket %r" % t.text, t.line)
                j = stack.pop()
                self.match[j] = i
                self.match[i] = j
        if stack:
            raise Unsupported("unclosed bracket", self.toks[stack[-1]].line)

    # ---- token helpers ------------------------------------------------------------------------------------------
    def is_p(self, i, text):
        t = self.toks[i]
        return t.kind == "punct" and t.text == text

    def is_id(self, i, text=None):
        t = self.toks[i]
        return t.kind == "ident" and (text is None or t.text == text)

    def find_top(self, lo, hi, pred):
        """first index in [lo, hi) at bracket depth 0 (relative to lo) whose token satisfies pred; groups are skipped"""
        i = lo
        while i < hi:
            t = self.toks[i]
            if pred(i):
                return i
            if t.kind == "punct" and t.text in OPEN:
                i = self.match[i] + 1
                continue
            i += 1
        return -1

    def render(self, lo, hi, limit=150):
        out = []
        prev = None
        for i in range(lo, hi):
            t = self.toks[i].text
            if prev is not None:
                nospace_before = t in (".", ",", ";", ")", "]", "?", "::", "(", "[", ":") and not (
                    t in ("(", "[") and prev in ("=", "=>", ",", "match", "if", "in", "return", "let", "&&", "||", "!"))
                nospace_after = prev in (".", "(", "[", "::", "&", "!") or (prev == "&" and t == "mut")
                if t == "!" and self.toks[i - 1].kind == "ident":
                    nospace_before = True
                if not (nospace_before or nospace_after):
                    out.append(" ")
            out.append(t)
            prev = t
        s = "".join(out)
        if len(s) > limit:
            s = s[:limit - 3] + "..."
        return s


class LoopWalker:
    def __init__(self, f, fn_name, lo, hi, resources, role):
        self.f, self.toks, self.match = f, f.toks, f.match
        self.fn_name = fn_name
        self.lo, self.hi = lo, hi          # the loop body, without its braces
        self.resources = resources          # name or ("self", field) -> kind
        self.role = role
        self.tainted = set()
        self.svcvars = {}                   # name -> SvcDesc
        self.bound = set()                  # every name bound inside the body
        self.used_resources = set()
        self.guards = []                    # classes: succ, sel, svcError, svcClosed, flowData, localState
        self.in_spawn = False              # detached from the loop's own task: spawned, or pushed into an own future set
        self.in_pushed = False             # .. the latter
        self.spawn_args = False
        self.push_args = False
        self.closures = {}                 # closures `let NAME = |..| async {..}` of the prelude: name -> (params, body)
        self.sites = []
        self.bare = set()                   # (lo, hi) ranges whose value is consumed structurally
        self.site_at = {}                   # token index of `await` -> site
        self.walked_closures = set()
        self.allow_local = False            # callee summaries: an await that mentions no parameter is recorded, not refused

    def fail(self, what, i):
        raise Unsupported("%s: %s" % (self.fn_name, what), self.toks[i].line)

    # ---- mentions -----------------------------------------------------------------------------------------------
    def idents(self, lo, hi):
        """identifier mentions in [lo,hi): not field/method names, not path segments; plus `{x}` of format strings"""
        for i in range(lo, hi):
            t = self.toks[i]
            if t.kind == "ident":
                if i > 0 and self.f.is_p(i - 1, "."):
                    continue
                if i + 1 < len(self.toks) and self.f.is_p(i + 1, "::"):
                    continue
                yield t.text
            elif t.kind == "str":
                for m in re.finditer(r"\{([A-Za-z_][A-Za-z0-9_]*)", t.text):
                    yield m.group(1)

    def mentions_flow(self, lo, hi):
        for name in self.idents(lo, hi):
            if name in self.tainted or name in self.svcvars:
                return True
        return False

    def has_await(self, lo, hi):
        return any(self.f.is_id(i, "await") for i in range(lo, hi))

    def expr_flow(self, lo, hi):
        return self.mentions_flow(lo, hi) or self.has_await(lo, hi)

    def pattern_names(self, lo, hi):
        names = []
        for i in range(lo, hi):
            t = self.toks[i]
            if t.kind != "ident" or t.text in PATTERN_NON_BINDERS or t.text in KEYWORDS_STOP:
                continue
            if not (t.text[0].islower() or t.text[0] == "_"):
                continue
            if self.f.is_p(i + 1, "::") or self.f.is_p(i + 1, "(") or self.f.is_p(i + 1, "{") or self.f.is_p(i + 1, "!"):
                continue
            if i > lo and self.f.is_p(i - 1, "::"):
                continue
            if self.f.is_p(i + 1, ":") and not self.f.is_p(i + 1, "::"):
                # `field: pat` of a struct pattern: the field name binds nothing (the pattern after it does)
                continue
            names.append(t.text)
        return names

    def bind(self, lo, hi, flow):
        for n in self.pattern_names(lo, hi):
            self.bound.add(n)
            self.svcvars.pop(n, None)   # a new binding of the name hides the own-resource result it stood for
            if flow:
                self.tainted.add(n)

    # ---- guards -> cause ----------------------------------------------------------------------------------------
    def cause(self):
        if "svcClosed" in self.guards:
            return "svcClosed"
        for g in reversed(self.guards):
            if g not in ("succ", "sel"):
                return g
        if "succ" in self.guards:
            return "flowData"
        return "always"

    # ---- sites --------------------------------------------------------------------------------------------------
    def add_site(self, idx, kind, op, text, **kw):
        s = dict(idx=idx, line=self.toks[idx].line, kind=kind, op=op, text=text, inSpawn=self.in_spawn and not self.in_pushed, inPushedFuture=self.in_pushed, perFlow=False,
                 handled=False, service=False, fallible=False, selectHead=False, cause="none")
        s.update(kw)
        self.sites.append(s)
        return s

    def chain_back(self, j):
        """start index of the postfix chain that ends at token j (inclusive)"""
        toks = self.toks
        start = j + 1
        while j >= self.lo:
            t = toks[j]
            if t.kind == "punct" and t.text in (")", "]"):
                j = self.match[j]
                start = j
                j -= 1
                if j >= self.lo and self.f.is_p(j, "!") and self.f.is_id(j - 1):
                    start = j - 1
                    j -= 2
                continue
            if t.kind == "punct" and t.text == "}":
                self.fail("a block expression in front of a postfix operator", j)
            if t.kind == "punct" and t.text in (".", "::", "?"):
                j -= 1
                continue
            if t.kind == "punct" and t.text in (">", ">>"):
                # turbofish `::<..>`
                depth = 0
                k = j
                while k >= self.lo:
                    tk = toks[k]
                    if tk.kind == "punct" and tk.text == ">":
                        depth += 1
                    elif tk.kind == "punct" and tk.text == ">>":
                        depth += 2
                    elif tk.kind == "punct" and tk.text == "<":
                        depth -= 1
                        if depth == 0:
                            break
                    elif tk.kind == "punct" and tk.text in (";", "{", "}", "=", "=>"):
                        k = -1
                        break
                    k -= 1
                if k >= self.lo and depth == 0 and self.f.is_p(k - 1, "::"):
                    start = k - 1
                    j = k - 2
                    continue
                break
            if t.kind == "ident" and (t.text not in KEYWORDS_STOP):
                # an identifier continues the chain only after `.`/`::` or at its head
                start = j
                if j - 1 >= self.lo and toks[j - 1].kind == "punct" and toks[j - 1].text in (".", "::"):
                    j -= 1
                    continue
                break
            if t.kind == "int" and j - 1 >= self.lo and self.f.is_p(j - 1, "."):
                start = j
                j -= 1
                continue
            break
        return start

    def last_call_name(self, lo, hi):
        name = None
        i = lo
        while i < hi:
            if self.f.is_id(i) and i + 1 < hi and self.f.is_p(i + 1, "("):
                name = self.toks[i].text
                i = self.match[i + 1] + 1
                continue
            if self.f.is_id(i) and name is None:
                pass
            i += 1
        if name is None:
            for i in range(hi - 1, lo - 1, -1):
                if self.f.is_id(i) and self.toks[i].text != "await":
                    return self.toks[i].text
            return "?"
        return name

    def classify_operand(self, lo, hi):
        """(kind, method, shape, source, args_lo, args_hi) when [lo,hi) is exactly `R.m(args)` on an own resource / sleep"""
        f = self.f
        if hi - lo < 3 or not f.is_p(hi - 1, ")"):
            return None
        op = self.match[hi - 1]
        if op <= lo or not f.is_id(op - 1):
            return None
        m = self.toks[op - 1].text
        head = list(range(lo, op - 1))
        if m == "sleep":
            if all(f.is_id(i) or f.is_p(i, "::") for i in head) and (not head or (f.is_p(head[-1], "::") and f.is_id(head[-2], "time"))):
                if self.mentions_flow(op + 1, hi - 1):
                    return None
                return ("timer", m, "none", True, op + 1, hi - 1)
            return None
        key = None
        if len(head) == 2 and f.is_id(head[0]) and f.is_p(head[1], "."):
            key = self.toks[head[0]].text
            if key in ("self", "Self"):
                return None
        elif len(head) == 4 and f.is_id(head[0], "self") and f.is_p(head[1], ".") and f.is_id(head[2]) and f.is_p(head[3], "."):
            key = ("self", self.toks[head[2]].text)
        if key is None or key not in self.resources:
            return None
        if isinstance(key, str) and (key in self.tainted or key in self.svcvars or key in self.bound):
            return None
        kind = self.resources[key]
        if m not in RESOURCE_METHODS[kind]:
            return None
        shape, source = RESOURCE_METHODS[kind][m]
        if source and self.mentions_flow(op + 1, hi - 1):
            return None
        self.used_resources.add(key)
        return (kind, m, shape, source, op + 1, hi - 1)

    def emit_await(self, idx, lo, hi, select_head=False):
        """the await whose operand is [lo,hi); idx = token that carries the line (`await`, or the first token of a select head)"""
        text = self.f.render(lo, hi)
        op = self.last_call_name(lo, hi)
        site = self.add_site(idx, "await_", op, text, selectHead=select_head)
        site["perFlow"] = self.mentions_flow(lo, hi)
        # a plain call `path::to::f(args)` (no receiver value): f may be a function of the same file
        if hi - lo >= 2 and self.f.is_p(hi - 1, ")"):
            o = self.match[hi - 1]
            if o > lo and self.f.is_id(o - 1) and all(self.f.is_id(k) or self.f.is_p(k, "::") for k in range(lo, o)):
                site["callee"] = self.toks[o - 1].text
        desc = None
        if not self.in_spawn:
            cl = self.classify_operand(lo, hi)
            if cl is not None and cl[0] == "futset" and not select_head:
                # waiting for one's own set of futures outside a select! waits for whatever those futures wait for
                site["perFlow"] = True
            elif cl is not None:
                kind, m, shape, source, alo, ahi = cl
                site["service"] = True
                site["fallible"] = shape in ("result", "optres")
                site["handled"] = True
                desc = SvcDesc(shape, self.mentions_flow(alo, ahi), site)
            elif not site["perFlow"] and not self.allow_local:
                self.fail("await on `%s` is neither an operation of an own resource of the loop nor derived from the flow" % text, idx)
        self.site_at[idx] = (site, desc, lo)
        return site, desc

    def forward_chain(self, site, desc, lo, k):
        """k = index after `await`; decides `handled` from what consumes the value"""
        f = self.f
        verdict = None
        while True:
            if f.is_p(k, "?"):
                verdict = False
                break
            if f.is_p(k, ".") and f.is_id(k + 1) and f.is_p(k + 2, "("):
                name = self.toks[k + 1].text
                if name in HANDLER_METHODS:
                    verdict = True
                    break
                if name in PANIC_METHODS:
                    verdict = False
                    break
                k = self.match[k + 2] + 1
                continue
            break
        if verdict is not None:
            site["handled"] = verdict
            return
        if not (site["service"] and site["fallible"]):
            site["handled"] = True
            return
        if (lo, k) in self.bare:
            return  # decided by the construct that consumes it
        prev_ok = lo - 1 < self.lo or (self.toks[lo - 1].kind == "punct" and self.toks[lo - 1].text in (";", "{", "}"))
        if prev_ok and f.is_p(k, ";"):
            site["handled"] = True
            return
        self.fail("the result of `%s.await` is consumed in a way the rules do not cover" % site["text"], k - 1)

    # ---- scrutinee / pattern classes ----------------------------------------------------------------------------
    def scrutinee(self, lo, hi):
        """walks the scrutinee [lo,hi) and says what it is: ("svc", desc) | ("flow", None) | ("local", None)"""
        if hi - lo == 1 and self.f.is_id(lo) and self.toks[lo].text in self.svcvars:
            return ("svc", self.svcvars[self.toks[lo].text])
        self.bare.add((lo, hi))
        self.walk(lo, hi)
        if hi - lo >= 3 and self.f.is_id(hi - 1, "await") and self.f.is_p(hi - 2, ".") and (hi - 1) in self.site_at:
            site, desc, slo = self.site_at[hi - 1]
            if desc is not None and slo == lo:
                return ("svc", desc)
        if self.expr_flow(lo, hi):
            return ("flow", None)
        return ("local", None)

    def pattern_class(self, what, lo, hi):
        """class of the arm with pattern [lo,hi) for a scrutinee `what`; also binds the pattern's names.
        returns (guard class, is failure arm of an own-resource result)"""
        kind, desc = what
        if kind == "flow":
            self.bind(lo, hi, True)
            return "flowData", False
        if kind == "local":
            self.bind(lo, hi, False)
            return "localState", False
        t0 = self.toks[lo].text if lo < hi else ""
        fail_cls = "flowData" if desc.args_tainted else "svcError"
        shape = desc.shape
        inner = self.toks[lo + 2].text if hi - lo >= 4 and self.f.is_p(lo + 1, "(") else ""
        if shape == "result" and t0 == "Ok" and self.f.is_p(lo + 1, "("):
            self.bind(lo, hi, True)
            return "succ", False
        if shape == "result" and t0 == "Err" and self.f.is_p(lo + 1, "("):
            self.bind(lo, hi, True)
            return fail_cls, True
        if shape in ("option", "optres") and t0 == "None" and hi - lo == 1:
            return "svcClosed", False
        if shape == "option" and t0 == "Some" and self.f.is_p(lo + 1, "("):
            self.bind(lo, hi, True)
            return "succ", False
        if shape == "optres" and t0 == "Some" and self.f.is_p(lo + 1, "("):
            if inner == "Ok":
                self.bind(lo, hi, True)
                return "succ", False
            if inner == "Err":
                self.bind(lo, hi, True)
                return fail_cls, True
            if hi - lo == 4 and self.f.is_id(lo + 2) and self.toks[lo + 2].text[0].islower():
                name = self.toks[lo + 2].text
                self.bound.add(name)
                self.svcvars[name] = SvcDesc("result", desc.args_tainted, desc.site)
                return "succ", False
        # catch-all (or a pattern the rules do not know): everything, failures included
        self.bind(lo, hi, True)
        return "flowData", True

    def complement(self, what, cls, lo, hi):
        """class of the `else` of `if let PAT = S` / of the exit of `while let PAT = S`; (class, is failure)"""
        kind, desc = what
        if kind == "flow":
            return "flowData", False
        if kind == "local":
            return "localState", False
        fail_cls = "flowData" if desc.args_tainted else "svcError"
        t0 = self.toks[lo].text
        inner = self.toks[lo + 2].text if hi - lo >= 4 and self.f.is_p(lo + 1, "(") else ""
        if cls == "succ":
            if desc.shape == "result":
                return fail_cls, True
            if desc.shape == "option":
                return "svcClosed", False
            if desc.shape == "optres":
                if t0 == "Some" and inner == "Ok":
                    return fail_cls, True
                return "svcClosed", False
        if cls in ("svcError", "svcClosed") or (cls == "flowData" and t0 in ("Err", "None", "Some")):
            return "succ", False
        return "flowData", True

    def exits_in(self, first_site):
        return any(s["kind"] in ("break_", "return_") and not s["inSpawn"] and not s["inPushedFuture"] for s in self.sites[first_site:])

    # ---- structured constructs ----------------------------------------------------------------------------------
    def first_brace(self, lo, hi, what):
        b = self.f.find_top(lo, hi, lambda i: self.f.is_p(i, "{"))
        if b < 0:
            self.fail("no block after `%s`" % what, lo)
        return b

    def handle_let(self, i, hi):
        f = self.f
        eq = f.find_top(i + 1, hi, lambda k: f.is_p(k, "=") or f.is_p(k, ";"))
        if eq < 0:
            self.fail("`let` without `;`", i)
        if f.is_p(eq, ";"):
            self.bind(i + 1, eq, False)
            return eq + 1
        colon = f.find_top(i + 1, eq, lambda k: f.is_p(k, ":"))
        pat_hi = colon if colon >= 0 else eq
        semi = f.find_top(eq + 1, hi, lambda k: f.is_p(k, ";"))
        if semi < 0:
            self.fail("`let` without `;`", i)
        lo = eq + 1
        names = self.pattern_names(i + 1, pat_hi)
        single = pat_hi - (i + 1) in (1, 2) and (len(names) == 1 or f.is_id(pat_hi - 1, "_"))
        if single:
            self.bare.add((lo, semi))
        self.walk(lo, semi)
        desc = None
        if f.is_id(semi - 1, "await") and (semi - 1) in self.site_at:
            site, d, slo = self.site_at[semi - 1]
            if d is not None and slo == lo:
                desc = d
        if desc is not None and single and len(names) == 1:
            self.bound.add(names[0])
            self.svcvars[names[0]] = desc
        else:
            self.bind(i + 1, pat_hi, self.expr_flow(lo, semi))
        return semi + 1

    def handle_match(self, i, hi):
        f = self.f
        b = self.first_brace(i + 1, hi, "match")
        what = self.scrutinee(i + 1, b)
        close = self.match[b]
        p = b + 1
        exits = False
        while p < close:
            arrow = f.find_top(p, close, lambda k: f.is_p(k, "=>"))
            if arrow < 0:
                self.fail("match arm without `=>`", p)
            g = f.find_top(p, arrow, lambda k: f.is_id(k, "if"))
            pat_hi = g if g >= 0 else arrow
            cls, is_fail = self.pattern_class(what, p, pat_hi)
            if g >= 0:
                self.walk(g + 1, arrow)
                if self.expr_flow(g + 1, arrow) and cls != "svcClosed":
                    cls = "flowData"
            if f.is_p(arrow + 1, "{"):
                body_lo, body_hi = arrow + 2, self.match[arrow + 1]
                nxt = self.match[arrow + 1] + 1
            else:
                comma = f.find_top(arrow + 1, close, lambda k: f.is_p(k, ","))
                body_lo, body_hi = arrow + 1, (comma if comma >= 0 else close)
                nxt = body_hi
            if nxt < close and f.is_p(nxt, ","):
                nxt += 1
            first = len(self.sites)
            self.guards.append(cls)
            self.walk(body_lo, body_hi)
            self.guards.pop()
            if is_fail and self.exits_in(first):
                exits = True
            p = nxt
        if what[0] == "svc" and exits:
            what[1].site["handled"] = False
        return close + 1

    def handle_if(self, i, hi):
        f = self.f
        b = self.first_brace(i + 1, hi, "if")
        if f.is_id(i + 1, "let"):
            eq = f.find_top(i + 2, b, lambda k: f.is_p(k, "="))
            if eq < 0:
                self.fail("`if let` without `=`", i)
            if f.find_top(eq + 1, b, lambda k: f.is_id(k, "let")) >= 0:
                self.fail("let chain", i)
            what = self.scrutinee(eq + 1, b)
            cls, is_fail = self.pattern_class(what, i + 2, eq)
            ecls, e_fail = self.complement(what, cls, i + 2, eq)
        else:
            if f.find_top(i + 1, b, lambda k: f.is_id(k, "let")) >= 0:
                self.fail("let chain", i)
            self.walk(i + 1, b)
            what = ("cond", None)
            cls = "flowData" if self.expr_flow(i + 1, b) else "localState"
            is_fail = False
            ecls, e_fail = cls, False
        exits = False
        first = len(self.sites)
        self.guards.append(cls)
        self.walk(b + 1, self.match[b])
        self.guards.pop()
        if is_fail and self.exits_in(first):
            exits = True
        k = self.match[b] + 1
        if k < hi and f.is_id(k, "else"):
            first = len(self.sites)
            self.guards.append(ecls)
            if f.is_id(k + 1, "if"):
                k = self.handle_if(k + 1, hi)
            elif f.is_p(k + 1, "{"):
                self.walk(k + 2, self.match[k + 1])
                k = self.match[k + 1] + 1
            else:
                self.fail("`else` without block", k)
            self.guards.pop()
            if e_fail and self.exits_in(first):
                exits = True
        if what[0] == "svc" and exits:
            what[1].site["handled"] = False
        return k

    def handle_select(self, i, g):
        """g = index of the `{` / `(` of `select! {..}`"""
        f = self.f
        close = self.match[g]
        p = g + 1
        arms = []
        while p < close:
            arrow = f.find_top(p, close, lambda k: f.is_p(k, "=>"))
            if arrow < 0:
                self.fail("select! arm without `=>`", p)
            if f.is_p(arrow + 1, "{"):
                body = (arrow + 2, self.match[arrow + 1])
                nxt = self.match[arrow + 1] + 1
            else:
                comma = f.find_top(arrow + 1, close, lambda k: f.is_p(k, ","))
                body = (arrow + 1, comma if comma >= 0 else close)
                nxt = body[1]
            if nxt < close and f.is_p(nxt, ","):
                nxt += 1
            if f.is_id(p, "else") and arrow == p + 1:
                arms.append(("else", None, None, body))
            else:
                eq = f.find_top(p, arrow, lambda k: f.is_p(k, "="))
                if eq < 0:
                    self.fail("select! arm without `PAT = future`", p)
                if f.find_top(eq + 1, arrow, lambda k: f.is_p(k, ",")) >= 0:
                    self.fail("select! arm with a precondition", p)
                if self.has_await(eq + 1, arrow):
                    self.fail("`.await` inside the future of a select! arm", eq + 1)
                arms.append(("arm", (p, eq), (eq + 1, arrow), body))
            p = nxt
        else_flow = False
        for kind, pat, fut, body in arms:
            if kind == "else":
                continue
            site, desc = self.emit_await(fut[0], fut[0], fut[1], select_head=True)
            self.walk_nested_sites_forbidden(fut[0], fut[1])
            plo, phi = pat
            refutable = f.is_id(plo) and self.toks[plo].text in ("Some", "Ok", "Err", "None")
            if desc is None:
                self.bind(plo, phi, True)
                cls = "flowData"
                if refutable:
                    else_flow = True
            elif phi - plo == 1 and f.is_id(plo) and self.toks[plo].text != "_" and self.toks[plo].text[0].islower():
                name = self.toks[plo].text
                self.bound.add(name)
                if desc.shape == "none":
                    pass
                else:
                    self.svcvars[name] = desc
                cls = "sel"
            elif phi - plo == 1 and f.is_id(plo, "_"):
                cls = "sel"
            else:
                cls, is_fail = self.pattern_class(("svc", desc), plo, phi)
                if refutable and not (desc.shape in ("option", "optres") and self.toks[plo].text == "Some" and cls == "succ"):
                    else_flow = True
                if cls != "succ":
                    # an arm that is taken on a failure pattern: treat like a failure arm
                    pass
            first = len(self.sites)
            self.guards.append(cls)
            self.walk(body[0], body[1])
            self.guards.pop()
            if desc is not None and cls not in ("succ", "sel") and self.exits_in(first):
                site["handled"] = False
        for kind, pat, fut, body in arms:
            if kind != "else":
                continue
            self.guards.append("flowData" if else_flow else "svcClosed")
            self.walk(body[0], body[1])
            self.guards.pop()
        return close + 1

    def walk_nested_sites_forbidden(self, lo, hi):
        for k in range(lo, hi):
            if f_is_site_token(self.f, k):
                self.fail("control flow inside the future of a select! arm", k)

    def handle_closure(self, i, hi):
        f = self.f
        if f.is_p(i, "||"):
            body_lo = i + 1
        else:
            j = f.find_top(i + 1, hi, lambda k: f.is_p(k, "|"))
            if j < 0:
                self.fail("closure parameters", i)
            self.bind(i + 1, j, self.mentions_flow(i + 1, j))
            body_lo = j + 1
        end = f.find_top(body_lo, hi, lambda k: f.toks[k].kind == "punct" and f.toks[k].text in (",", ";", ")", "]", "}"))
        if end < 0:
            end = hi
        for k in range(body_lo, end):
            if f_is_site_token(f, k):
                self.fail("control flow (`%s`) inside a closure" % self.toks[k].text, k)
        return end

    # ---- the linear walk ----------------------------------------------------------------------------------------
    def walk(self, lo, hi):
        f, toks = self.f, self.toks
        i = lo
        while i < hi:
            t = toks[i]
            if t.kind == "lifetime" and f.is_p(i + 1, ":"):
                self.fail("labelled block / loop", i)
            if t.kind == "punct":
                if t.text == "?":
                    s = self.chain_back(i - 1)
                    site = self.add_site(i, "question", self.last_call_name(s, i), f.render(s, i))
                    site["perFlow"] = self.mentions_flow(s, i) or self.awaits_make_flow(s, i)
                    site["cause"] = "none"
                elif t.text in ("=", "+=", "-=", "*=", "/=", "%=", "&=", "|=", "^=", "<<=", ">>="):
                    # an assignment (the `=` of `let`, `if let`, `while let` and select! arms never gets here)
                    s = self.chain_back(i - 1)
                    semi = f.find_top(i + 1, hi, lambda k: f.toks[k].kind == "punct" and f.toks[k].text in (";", ",", ")", "]", "}"))
                    end = semi if semi >= 0 else hi
                    if s < i and f.is_id(s) and toks[s].text not in ("self", "Self"):
                        root = toks[s].text
                        self.bound.add(root)
                        if self.expr_flow(i + 1, end):
                            self.tainted.add(root)
                elif t.text in ("|", "||"):
                    prev = toks[i - 1]
                    if (prev.kind == "punct" and prev.text in ("(", ",", "=")) or (prev.kind == "ident" and prev.text in ("move", "return")):
                        i = self.handle_closure(i, hi)
                        continue
                i += 1
                continue
            if t.kind != "ident":
                i += 1
                continue
            w = t.text
            after_dot = i > 0 and f.is_p(i - 1, ".")
            if after_dot:
                if w == "await":
                    s = self.chain_back(i - 2)
                    site, desc = self.emit_await(i, s, i - 1)
                    self.forward_chain(site, desc, s, i + 1)
                elif (w == "push" and f.is_p(i + 1, "(") and i - 2 >= self.lo and f.is_id(i - 2) and not f.is_p(i - 3, ".")
                      and self.resources.get(toks[i - 2].text) == "futset" and toks[i - 2].text not in self.bound
                      and not self.in_spawn):
                    # a future handed to an own future set: it is polled by the select! arm `X.next()`, next to the loop's work
                    close = self.match[i + 1]
                    self.used_resources.add(toks[i - 2].text)
                    saved = self.push_args
                    self.push_args = True
                    self.walk(i + 2, close)
                    self.push_args = saved
                    i = close + 1
                    continue
                elif w in PANIC_METHODS and f.is_p(i + 1, "("):
                    s = self.chain_back(i - 2)
                    site = self.add_site(i, "unwrap_", self.last_call_name(s, i - 1), f.render(s, i - 1) + "." + w + "(..)")
                    site["perFlow"] = self.mentions_flow(s, i - 1) or self.awaits_make_flow(s, i - 1)
                i += 1
                continue
            if w == "let":
                i = self.handle_let(i, hi)
                continue
            if w == "match":
                i = self.handle_match(i, hi)
                continue
            if w == "if":
                i = self.handle_if(i, hi)
                continue
            if w == "else":
                self.fail("`let .. else` (or a dangling `else`)", i)
            if w in ("loop", "while", "for"):
                if not self.in_spawn:
                    self.fail("a loop nested in the loop's own task", i)
                # a loop of a detached task / future: read its header, then its body, flat
                if w == "while":
                    b = self.first_brace(i + 1, hi, "while")
                    if f.is_id(i + 1, "let"):
                        eq = f.find_top(i + 2, b, lambda k: f.is_p(k, "="))
                        if eq < 0:
                            self.fail("`while let` without `=`", i)
                        what = self.scrutinee(eq + 1, b)
                        self.pattern_class(what, i + 2, eq)
                    else:
                        self.walk(i + 1, b)
                    self.walk(b + 1, self.match[b])
                    i = self.match[b] + 1
                    continue
                if w == "for":
                    b = self.first_brace(i + 1, hi, "for")
                    kin = f.find_top(i + 1, b, lambda k: f.is_id(k, "in"))
                    if kin < 0:
                        self.fail("`for` without `in`", i)
                    self.walk(kin + 1, b)
                    self.bind(i + 1, kin, self.expr_flow(kin + 1, b))
                    self.walk(b + 1, self.match[b])
                    i = self.match[b] + 1
                    continue
                i += 1
                continue
            if w == "use":
                semi = f.find_top(i, hi, lambda k: f.is_p(k, ";"))
                if semi < 0:
                    self.fail("`use` without `;`", i)
                i = semi + 1
                continue
            if w in FORBIDDEN_ITEMS:
                self.fail("`%s` inside a loop body" % w, i)
            if w == "async":
                k = i + 1
                if f.is_id(k, "move"):
                    k += 1
                if not f.is_p(k, "{"):
                    self.fail("`async` that is not a block", i)
                if not (self.spawn_args or self.push_args or self.in_spawn):
                    self.fail("an `async` block that is not an argument of spawn / of `push` on an own future set", i)
                saved = (self.in_spawn, self.in_pushed, self.spawn_args, self.push_args)
                self.in_pushed = self.in_pushed or (self.push_args and not self.in_spawn)
                self.in_spawn, self.spawn_args, self.push_args = True, False, False
                self.walk(k + 1, self.match[k])
                self.in_spawn, self.in_pushed, self.spawn_args, self.push_args = saved
                i = self.match[k] + 1
                continue
            if w == "spawn" and f.is_p(i + 1, "("):
                close = self.match[i + 1]
                site = self.add_site(i, "spawn", "spawn", f.render(i, close + 1))
                site["perFlow"] = self.mentions_flow(i + 2, close)
                saved = self.spawn_args
                self.spawn_args = True
                self.walk(i + 2, close)
                self.spawn_args = saved
                i = close + 1
                continue
            if w in ("break", "continue", "return"):
                if toks[i + 1].kind == "lifetime":
                    self.fail("labelled `%s`" % w, i)
                c = self.cause()
                self.add_site(i, w + "_", w, w, cause=c, perFlow=(c != "svcClosed") if w != "continue" else c in ("flowData", "svcError"))
                i += 1
                continue
            if f.is_p(i + 1, "!") and i + 2 < len(toks) and toks[i + 2].kind == "punct" and toks[i + 2].text in OPEN:
                g = i + 2
                close = self.match[g]
                if w == "select":
                    if self.in_spawn:
                        i = g + 1   # flat inside a flow's own task
                        continue
                    i = self.handle_select(i, g)
                    continue
                if w == "bail":
                    c = self.cause()
                    self.add_site(i, "return_", "bail", f.render(i, min(close + 1, i + 12)), cause=c, perFlow=c != "svcClosed")
                elif w in PANIC_MACROS:
                    c = self.cause()
                    self.add_site(i, "unwrap_", w, f.render(i, min(close + 1, i + 12)), cause=c, perFlow=c != "svcClosed")
                elif w not in LOG_LIKE:
                    self.fail("macro `%s!`" % w, i)
                self.walk(g + 1, close)
                i = close + 1
                continue
            if w in self.closures and f.is_p(i + 1, "(") and self.push_args and w not in self.bound:
                # `X.push(NAME(args))` with `let NAME = |..| async {..}` of the prelude: the block is the pushed future
                (plo, phi), (blo, bhi) = self.closures[w]
                close = self.match[i + 1]
                self.walk(i + 2, close)
                if blo not in self.walked_closures:
                    self.walked_closures.add(blo)
                    for n in param_names(f, plo, phi):
                        self.tainted.add(n)
                    saved = (self.in_spawn, self.in_pushed, self.spawn_args, self.push_args, self.lo, self.guards)
                    self.in_spawn, self.in_pushed, self.spawn_args, self.push_args, self.lo, self.guards = True, True, False, False, blo, []
                    self.walk(blo, bhi)
                    self.in_spawn, self.in_pushed, self.spawn_args, self.push_args, self.lo, self.guards = saved
                i = close + 1
                continue
            if w in self.svcvars:
                # an own-resource result used other than as a scrutinee
                self.svcvars[w].site["handled"] = False
            i += 1

    def awaits_make_flow(self, lo, hi):
        for k in range(lo, hi):
            if k in self.site_at:
                site = self.site_at[k][0]
                if not (site["service"] and not site["fallible"]):
                    return True
        return False


def param_names(f, lo, hi):
    """names of a parameter list [lo,hi): the identifiers in front of each top-level `:` (all identifiers when there is none)"""
    out = []
    p = lo
    while p < hi:
        comma = f.find_top(p, hi, lambda j: f.is_p(j, ","))
        end = comma if comma >= 0 else hi
        colon = f.find_top(p, end, lambda j: f.is_p(j, ":"))
        stop = colon if colon > p else end
        for k in range(p, stop):
            if f.is_id(k) and f.toks[k].text not in ("mut", "self", "ref", "_"):
                out.append(f.toks[k].text)
        p = end + 1
    return out


def prelude_closures(f, lo, hi):
    """`let NAME = [move] |params| async [move] {..};` in [lo,hi): NAME -> ((params), (body))"""
    out = {}
    for i in range(lo, hi):
        if not (f.is_id(i, "let") and f.is_id(i + 1) and f.is_p(i + 2, "=")):
            continue
        k = i + 3
        if f.is_id(k, "move"):
            k += 1
        if f.is_p(k, "||"):
            params = (k + 1, k + 1)
            k += 1
        elif f.is_p(k, "|"):
            j = f.find_top(k + 1, hi, lambda x: f.is_p(x, "|"))
            if j < 0:
                continue
            params = (k + 1, j)
            k = j + 1
        else:
            continue
        if not f.is_id(k, "async"):
            continue
        k += 1
        if f.is_id(k, "move"):
            k += 1
        if f.is_p(k, "{") and f.is_p(f.match[k] + 1, ";"):
            out[f.toks[i + 1].text] = (params, (k + 1, f.match[k]))
    return out


def f_is_site_token(f, k):
    t = f.toks[k]
    if t.kind == "punct":
        return t.text == "?"
    if t.kind != "ident":
        return False
    if t.text in ("await", "break", "continue", "return", "spawn", "bail", "select") or t.text in PANIC_MACROS:
        return True
    return t.text in PANIC_METHODS and k > 0 and f.is_p(k - 1, ".")


# ------------------------------------------------------------------------------------------------------------------
# locating functions, resources and loops
# ------------------------------------------------------------------------------------------------------------------

def find_fn(f, name, impl_of):
    hits = []
    for i in range(len(f.toks) - 1):
        if f.is_id(i, "fn") and f.is_id(i + 1, name):
            hits.append(i)
    if impl_of is not None:
        hits = [i for i in hits if enclosing_impl(f, i) == impl_of]
    if len(hits) != 1:
        raise Unsupported("expected exactly one `fn %s`%s, found %d" % (name, " in impl " + impl_of if impl_of else "", len(hits)), 0)
    i = hits[0]
    # parameters: first `(` after the name, skipping generics
    k = i + 2
    if f.is_p(k, "<"):
        depth = 0
        while True:
            if f.is_p(k, "<"):
                depth += 1
            elif f.is_p(k, ">"):
                depth -= 1
            elif f.is_p(k, ">>"):
                depth -= 2
            elif f.toks[k].kind == "punct" and f.toks[k].text in OPEN:
                k = f.match[k]
            k += 1
            if depth <= 0:
                break
    if not f.is_p(k, "("):
        raise Unsupported("parameter list of `fn %s`" % name, f.toks[i].line)
    params = (k + 1, f.match[k])
    b = f.find_top(f.match[k] + 1, len(f.toks), lambda j: f.is_p(j, "{") or f.is_p(j, ";"))
    if b < 0 or not f.is_p(b, "{"):
        raise Unsupported("body of `fn %s`" % name, f.toks[i].line)
    return i, params, (b + 1, f.match[b])


def enclosing_impl(f, i):
    """name of the type of the innermost `impl<..> [Trait for] Type<..> {` whose braces contain token i"""
    best = None
    for o, c in f.match.items():
        if not (o < i < c and f.is_p(o, "{")):
            continue
        h = o - 1
        while h >= 0 and not (f.toks[h].kind == "punct" and f.toks[h].text in (";", "}", "{")):
            h -= 1
        header = list(range(h + 1, o))
        if not any(f.is_id(k, "impl") for k in header):
            continue
        depth, names, after_for = 0, [], None
        for k in header:
            if f.is_p(k, "<"):
                depth += 1
            elif f.is_p(k, ">"):
                depth -= 1
            elif f.is_p(k, ">>"):
                depth -= 2
            elif depth == 0 and f.is_id(k, "for"):
                after_for = len(names)
            elif depth == 0 and f.is_id(k, "where"):
                break
            elif depth == 0 and f.is_id(k) and f.toks[k].text[0].isupper():
                names.append(f.toks[k].text)
        ty = None
        if after_for is not None and after_for < len(names):
            ty = names[after_for:][-1]
        elif names:
            ty = names[-1]
        if best is None or o > best[0]:
            best = (o, ty)
    return best[1] if best else None


def struct_fields(f, name):
    for i in range(len(f.toks) - 2):
        if f.is_id(i, "struct") and f.is_id(i + 1, name):
            b = f.find_top(i + 2, len(f.toks), lambda j: f.is_p(j, "{") or f.is_p(j, ";"))
            if b < 0 or not f.is_p(b, "{"):
                return {}
            out = {}
            p = b + 1
            close = f.match[b]
            while p < close:
                comma = f.find_top(p, close, lambda j: f.is_p(j, ","))
                end = comma if comma >= 0 else close
                colon = f.find_top(p, end, lambda j: f.is_p(j, ":"))
                if colon > p and f.is_id(colon - 1):
                    ty = [f.toks[k].text for k in range(colon + 1, end) if f.is_id(k)]
                    out[f.toks[colon - 1].text] = ty
                p = end + 1
            return out
    return {}


def resources_of(f, params, body, loop_start, impl_of):
    res = {}
    plo, phi = params
    p = plo
    while p < phi:
        comma = f.find_top(p, phi, lambda j: f.is_p(j, ","))
        end = comma if comma >= 0 else phi
        colon = f.find_top(p, end, lambda j: f.is_p(j, ":"))
        if colon > p and f.is_id(colon - 1):
            ty = [f.toks[k].text for k in range(colon + 1, end) if f.is_id(k) and f.toks[k].text not in ("mut", "dyn", "impl")]
            if ty and ty[0] in PARAM_TYPES and not f.is_p(colon + 1, "&"):
                res[f.toks[colon - 1].text] = PARAM_TYPES[ty[0]]
        p = end + 1
    if impl_of:
        for field, ty in struct_fields(f, impl_of).items():
            if ty and ty[0] in PARAM_TYPES:
                res[("self", field)] = PARAM_TYPES[ty[0]]
    i = body[0]
    while i < loop_start:
        if f.is_id(i, "let"):
            eq = f.find_top(i + 1, loop_start, lambda k: f.is_p(k, "=") or f.is_p(k, ";"))
            if eq < 0 or f.is_p(eq, ";"):
                i += 1
                continue
            semi = f.find_top(eq + 1, loop_start, lambda k: f.is_p(k, ";"))
            if semi < 0:
                i += 1
                continue
            colon = f.find_top(i + 1, eq, lambda k: f.is_p(k, ":"))
            pat_hi = colon if colon >= 0 else eq
            pat = [f.toks[k].text for k in range(i + 1, pat_hi) if f.is_id(k) and f.toks[k].text != "mut"]
            init = [f.toks[k].text for k in range(eq + 1, semi)]
            top = []   # the init's tokens at depth 0 (argument lists dropped)
            k = eq + 1
            while k < semi:
                if f.toks[k].kind == "punct" and f.toks[k].text in OPEN:
                    top.append(f.toks[k].text)
                    k = f.match[k] + 1
                    continue
                top.append(f.toks[k].text)
                k += 1
            tops = " ".join(top)
            is_tuple = f.is_p(i + 1, "(")
            # a new binding of a name cancels what was known of it
            for n in pat:
                res.pop(n, None)
            if not is_tuple and len(pat) == 1:
                if "TcpListener :: bind (" in tops:
                    res[pat[0]] = "listener"
                elif "UdpSocket :: bind (" in tops:
                    res[pat[0]] = "udp"
                elif "Endpoint :: server (" in tops:
                    res[pat[0]] = "endpoint"
                elif "time :: interval (" in tops:
                    res[pat[0]] = "interval"
                elif tops in ("FuturesUnordered :: new (", "futures :: stream :: FuturesUnordered :: new (", "stream :: FuturesUnordered :: new ("):
                    res[pat[0]] = "futset"
            elif is_tuple and len(pat) == 2:
                if re.search(r"(^| )mpsc :: channel( :: < .* >)? \($", tops) or re.search(r"(^| )mpsc :: channel( :: <.*>)? \(", tops):
                    res[pat[1]] = "receiver"
                elif tops.endswith(". split ("):
                    res[pat[0]] = "sink"
                    res[pat[1]] = "stream"
            i = semi + 1
            continue
        i += 1
    return res


def find_loops(f, lo, hi):
    """(keyword index, header range or None, body range) of every loop in [lo,hi), in source order, nested ones included"""
    out = []
    i = lo
    while i < hi:
        if f.is_id(i, "loop") and f.is_p(i + 1, "{") and not (i > 0 and f.is_p(i - 1, ".")):
            out.append((i, None, (i + 2, f.match[i + 1])))
        elif f.is_id(i, "while") and not (i > 0 and f.is_p(i - 1, ".")):
            b = f.find_top(i + 1, hi, lambda k: f.is_p(k, "{"))
            if b < 0:
                raise Unsupported("`while` without a body", f.toks[i].line)
            out.append((i, (i + 1, b), (b + 1, f.match[b])))
        i += 1
    return out


def extract(root):
    files = {}
    loops = []
    callee_names = {}
    for rel, fn, impl_of, role in TARGETS:
        path = os.path.join(root, rel)
        if rel not in files:
            files[rel] = File(path)
        f = files[rel]
        fn_idx, params, body = find_fn(f, fn, impl_of)
        found = find_loops(f, body[0], body[1])
        # only outermost loops are loops of their own; a loop nested in another's own task is refused by the walker, one
        # nested inside a spawned block of another loop belongs to that flow's task
        outer = [l for l in found if not any(o[2][0] <= l[0] < o[2][1] for o in found if o is not l)]
        if not outer:
            raise Unsupported("`fn %s` contains no loop" % fn, f.toks[fn_idx].line)
        for n, (kw, header, lbody) in enumerate(outer):
            name = fn if len(outer) == 1 else "%s_%d" % (fn, n + 1)
            res = resources_of(f, params, body, kw, impl_of)
            w = LoopWalker(f, fn, lbody[0], lbody[1], res, role)
            w.closures = prelude_closures(f, body[0], kw)
            w.lo = header[0] if header else lbody[0]
            if header:
                hlo, hhi = header
                if f.is_id(hlo, "let"):
                    eq = f.find_top(hlo + 1, hhi, lambda k: f.is_p(k, "="))
                    if eq < 0:
                        raise Unsupported("%s: `while let` without `=`" % fn, f.toks[kw].line)
                    what = w.scrutinee(eq + 1, hhi)
                    cls, is_fail = w.pattern_class(what, hlo + 1, eq)
                    ecls, e_fail = w.complement(what, cls, hlo + 1, eq)
                    if what[0] == "svc" and e_fail:
                        what[1].site["handled"] = False
                    text = "while let %s = .. : pattern stops matching" % f.render(hlo + 1, eq)
                else:
                    w.walk(hlo, hhi)
                    ecls = "flowData" if w.expr_flow(hlo, hhi) else "localState"
                    cls = ecls
                    text = "while %s : condition stops holding" % f.render(hlo, hhi)
                w.add_site(hhi, "break_", "while", text, cause=ecls, perFlow=ecls != "svcClosed")   # placed after the sites of the header
                w.guards.append(cls)
                w.walk(lbody[0], lbody[1])
                w.guards.pop()
            else:
                w.walk(lbody[0], lbody[1])
            for key in w.used_resources:
                if isinstance(key, str) and key in w.bound:
                    raise Unsupported("%s: own resource `%s` is re-bound inside the loop" % (fn, key), f.toks[kw].line)
            w.sites.sort(key=lambda s: s["idx"])
            loops.append(dict(name=name, file=rel, fn=fn, role=role, line=f.toks[kw].line, sites=w.sites,
                              resources=sorted((("self." + k[1]) if isinstance(k, tuple) else k) + ":" + v
                                               for k, v in res.items() if k in w.used_resources)))
            if role == "service":
                for s in w.sites:
                    if s["kind"] == "await_" and not s["inSpawn"] and not s["inPushedFuture"] and not s["service"] and s.get("callee"):
                        callee_names.setdefault((rel, s["callee"]), []).append(name)
    # summaries of the functions of the same file that a service loop awaits in its own task
    notes = []
    for (rel, cname), users in sorted(callee_names.items()):
        f = files[rel]
        hits = [i for i in range(len(f.toks) - 1) if f.is_id(i, "fn") and f.is_id(i + 1, cname)]
        if len(hits) != 1:
            notes.append("`%s` (awaited by %s): %d functions of that name in %s - not summarised" % (cname, ", ".join(sorted(set(users))), len(hits), rel))
            continue
        fn_idx, params, body = find_fn(f, cname, None)
        w = LoopWalker(f, cname, body[0], body[1], {}, "callee")
        w.allow_local = True
        p = params[0]
        while p < params[1]:
            comma = f.find_top(p, params[1], lambda j: f.is_p(j, ","))
            end = comma if comma >= 0 else params[1]
            colon = f.find_top(p, end, lambda j: f.is_p(j, ":"))
            if colon > p:
                for k in range(p, colon):
                    if f.is_id(k) and f.toks[k].text not in ("mut", "self", "ref"):
                        w.tainted.add(f.toks[k].text)
            p = end + 1
        w.walk(body[0], body[1])
        w.sites.sort(key=lambda s: s["idx"])
        loops.append(dict(name="callee_" + cname, file=rel, fn=cname, role="callee", line=f.toks[fn_idx].line, sites=w.sites, resources=[],
                          users=sorted(set(users))))
    return files, loops, notes


# ------------------------------------------------------------------------------------------------------------------
# emission
# ------------------------------------------------------------------------------------------------------------------

def lstr(s):
    return '"' + s.replace("\\", "\\\\").replace('"', '\\"').replace("\n", " ") + '"'


def lbool(b):
    return "true" if b else "false"


def emit(root, files, loops, notes):
    out = []
    out.append("/- GENERATED by translate_loops.py — do not edit.")
    out.append("   source: %s (root of the checkout)" % root)
    h = hashlib.sha256()
    for rel in sorted(files):
        h.update(files[rel].sha.encode())
    out.append("   sha256: %s (of the sha256 of the files below, in this order)" % h.hexdigest())
    for rel in sorted(files):
        out.append("     - %s (sha256 %s)" % (rel, files[rel].sha))
    out.append("   loops: " + ", ".join("%s (%s:%d, %s; own resources used: %s)" % (l["name"], l["file"].split("/")[-1], l["line"], l["role"],
                                                                                  ", ".join(l["resources"]) or "none") for l in loops))
    for l in loops:
        if l["role"] == "callee":
            out.append("   callee summary: callee_%s = the body of `fn %s` (%s:%d), awaited by %s in its own task; its parameters are flow data," % (
                l["fn"], l["fn"], l["file"].split("/")[-1], l["line"], ", ".join(l["users"])))
            out.append("     an `.await` in it that mentions none of them (nor anything bound from them) is recorded with perFlow = false, service = false.")
    for n in notes:
        out.append("   callee " + n)
    out.append("   assumed externals: none are called - the awaited / called operations are named, not modelled; what is assumed of")
    out.append("   them is exactly the classification below (an own-resource operation completes; anything else may stall or fail).")
    out.append(RULES.rstrip("\n"))
    out.append("-/")
    out.append("import Octo.Model.Loops")
    out.append("")
    out.append("namespace Octo.LoopsGen")
    out.append("open Octo.Loops")
    out.append("")
    for l in loops:
        out.append("/-- `%s` of %s, %s at line %d -/" % (l["fn"], l["file"], "function" if l["role"] == "callee" else "loop", l["line"]))
        out.append("def %s : Loop :=" % l["name"])
        out.append("  { name := %s, file := %s, fn := %s, role := .%s, line := %d," % (lstr(l["name"]), lstr(l["file"]), lstr(l["fn"]), l["role"], l["line"]))
        out.append("    sites := [")
        rows = []
        for s in l["sites"]:
            rows.append("      { line := %d, kind := .%s, op := %s, text := %s,\n        inSpawn := %s, inPushedFuture := %s, perFlow := %s, handled := %s, service := %s, fallible := %s, selectHead := %s, cause := .%s }" % (
                s["line"], s["kind"], lstr(s["op"]), lstr(s["text"]), lbool(s["inSpawn"]), lbool(s["inPushedFuture"]), lbool(s["perFlow"]), lbool(s["handled"]),
                lbool(s["service"]), lbool(s["fallible"]), lbool(s["selectHead"]), s["cause"]))
        out.append(",\n".join(rows))
        out.append("    ] }")
        out.append("")
    out.append("/-- the loops that serve every flow, in the order of the target list -/")
    out.append("def serviceLoops : List Loop := [%s]" % ", ".join(l["name"] for l in loops if l["role"] == "service"))
    out.append("/-- the loops that serve one association / binding -/")
    out.append("def assocLoops : List Loop := [%s]" % ", ".join(l["name"] for l in loops if l["role"] == "assoc"))
    out.append("/-- bodies of the functions of the same file that a service loop awaits in its own task -/")
    out.append("def callees : List Loop := [%s]" % ", ".join(l["name"] for l in loops if l["role"] == "callee"))
    out.append("")
    out.append("end Octo.LoopsGen")
    return "\n".join(out) + "\n"


def main(argv):
    if len(argv) != 3:
        sys.stderr.write("usage: translate_loops.py <root of a checkout> <out.lean>\n")
        return 2
    root, dst = argv[1], argv[2]
    try:
        files, loops, notes = extract(root)
    except (IOError, OSError) as e:
        sys.stderr.write("translate_loops: %s\n" % e)
        return 2
    except Unsupported as e:
        sys.stderr.write("translate_loops: unsupported: %s (line %s)\n" % (e.what, e.line))
        return 3
    text = emit(root, files, loops, notes)
    try:
        with open(dst, "w") as f:
            f.write(text)
    except (IOError, OSError) as e:
        sys.stderr.write("translate_loops: %s\n" % e)
        return 2
    return 0


if __name__ == "__main__":
    sys.exit(main(sys.argv))
