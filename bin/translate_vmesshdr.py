#!/usr/bin/env python3
"""Rust-subset -> Lean 4 translator for the VMess connection-level codecs.

usage:  translate_vmesshdr.py <path/to/octo-squirrel-server/src/server/vmess.rs> <out.lean>

Translated (located by name):
  server   <arg>                                             `enum DecodeState / EncodeState`, `struct ServerAeadCodec`,
                                                             `ServerAeadCodec::{decode_header, decode_body}`, `Decoder::decode`
  client   <ws>/octo-squirrel-client/src/client/vmess.rs     | client_vmess.rs   `struct ClientAEADCodec`, `Decoder::decode`
  authid   <ws>/octo-squirrel/src/protocol/vmess/aead/auth_id.rs | auth_id.rs    `matching`
  encrypt  <ws>/octo-squirrel/src/protocol/vmess/aead/encrypt.rs | encrypt.rs    `open_header`, consts NONCE_SIZE / TAG_SIZE
  header   <ws>/octo-squirrel/src/protocol/vmess/header.rs   | header.rs         `enum RequestCommand / RequestOption / SecurityType`,
                                                             `struct RequestHeader`, `RequestOption::{values, from_mask, get_mask}`,
                                                             `SecurityType::from(u8)`, `RequestHeader::new`
  kdf      <ws>/octo-squirrel/src/protocol/vmess/aead/kdf.rs | kdf.rs            the `SALT_*` constants (signatures of kdf16 / kdfn)
  message  <ws>/octo-squirrel-server/src/server/template.rs  | template.rs       `enum InboundIn`
  session  <ws>/octo-squirrel/src/protocol/vmess/session.rs  | session.rs        signature of `ServerSession::new` (structs: Octo.VmessBodyGen)
  body     <ws>/octo-squirrel/src/codec/vmess/aead.rs        | codec_vmess_aead.rs  signatures of `new_decoder`, `decode_payload`, `decode_packet`
  vmess    <ws>/octo-squirrel/src/protocol/vmess.rs          | protocol_vmess.rs signatures of `now`, `crc32`, `read_address_port`
  util     <ws>/octo-squirrel/src/util.rs                    | util.rs           signature of `fnv::fnv1a32`
  crypto   <ws>/octo-squirrel/src/crypto.rs                  | crypto.rs         signature of `decrypt` of `aes_ecb_no_padding_impl!`
(`<ws>` = four directories above the argument; the flat name is looked up next to the argument first.)

Called, not re-translated: `check_header_length`, `address::read_address_port` (Octo/Gen/VmessAddrGen.lean),
`AEADBodyCodec::{decode_payload, decode_packet}`, `DynSession`, `ServerSession`, `ClientSession` (Octo/Gen/VmessBodyGen.lean).
Not translated = ASSUMED EXTERNALS (fields of the record `Ext`, first parameter `X` of every generated function): see EXT below.

Exit status: 0 a Lean module was written | 2 usage / IO error | 3 a construct outside the supported subset inside a target
item, a missing target item / source file, or a changed external signature; one line on stderr; nothing is written.
"""
import hashlib
import os
import re
import sys

sys.path.insert(0, os.path.dirname(os.path.abspath(__file__)))
import translate_pw as pw  # noqa: E402
import translate_nonce as tn  # noqa: E402
import translate_trojan as tt  # noqa: E402
from translate_pw import Unsupported, Node  # noqa: E402

INTS = {"u8": ("U8", "UInt8", 8), "u16": ("U16", "UInt16", 16), "u32": ("U32", "UInt32", 32), "u64": ("U64", "UInt64", 64),
        "usize": ("U64", "Usize", 64)}
SINTS = {"i32": ("I32", "I32", 32), "i64": ("I64", "I64", 64)}
PREFIX = {"u8": "U8", "u16": "U16", "u32": "U32", "u64": "U64", "usize": "Usize", "i32": "I32", "i64": "I64"}
LOG_MACROS = ("trace", "debug", "info", "warn", "error")

# --------------------------------------------------------------------------------------------
# parser (own recursive descent over the tokens of translate_nonce.tokenize)
# --------------------------------------------------------------------------------------------

BINOPS = [["||"], ["&&"], ["==", "!=", "<", ">", "<=", ">="], ["|"], ["^"], ["&"], ["<<", ">>"], ["+", "-"], ["*", "/", "%"]]


class Parser:
    def __init__(self, toks, wanted):
        """wanted: predicate(kind, owner, name) -> bool deciding which items are parsed (others: bracket matching)"""
        self.toks = toks
        self.i = 0
        self.wanted = wanted
        self.items = []       # parsed items
        self.skipped = []     # (what, first line, last line)
        self.uses = {}        # last segment -> full path
        self.globs = []
        self.sigs = {}        # (owner, fn name) -> signature text, for every fn seen (parsed or not)

    # -- token helpers
    def tok(self):
        return self.toks[self.i]

    def peek(self, k=1):
        return self.toks[min(self.i + k, len(self.toks) - 1)]

    def at(self, text):
        t = self.tok()
        return t.text == text and t.kind in ("punct", "ident")

    def accept(self, text):
        if self.at(text):
            self.i += 1
            return True
        return False

    def expect(self, text):
        if not self.accept(text):
            raise Unsupported("expected `%s`, found `%s`" % (text, self.tok().text), self.tok().line)

    def ident(self):
        t = self.tok()
        if t.kind != "ident":
            raise Unsupported("expected an identifier, found `%s`" % t.text, t.line)
        self.i += 1
        return t.text

    def skip_balanced(self):
        """skip one bracketed group starting at the current opening bracket"""
        pairs = {"(": ")", "[": "]", "{": "}"}
        depth = 0
        while True:
            t = self.tok()
            if t.kind == "eof":
                raise Unsupported("unbalanced brackets", t.line)
            if t.kind == "punct" and t.text in pairs:
                depth += 1
            elif t.kind == "punct" and t.text in pairs.values():
                depth -= 1
            self.i += 1
            if depth == 0:
                return

    def skip_item_rest(self):
        """skip to the end of an item: a `;` at depth 0 or a balanced `{..}`"""
        while True:
            t = self.tok()
            if t.kind == "eof":
                return
            if t.kind == "punct" and t.text == ";":
                self.i += 1
                return
            if t.kind == "punct" and t.text == "{":
                self.skip_balanced()
                return
            if t.kind == "punct" and t.text in "([":
                self.skip_balanced()
                continue
            self.i += 1

    def note(self, what, first):
        self.skipped.append((what, first, self.toks[self.i - 1].line))

    def text_between(self, a, b):
        return " ".join(t.text for t in self.toks[a:b])

    # -- items
    def parse_attrs(self):
        gated = False
        while self.at("#"):
            self.i += 1
            self.accept("!")
            start = self.i
            self.skip_balanced()
            txt = self.text_between(start, self.i)
            if "cfg" in txt and ("test" in txt or "feature" in txt):
                gated = True
            if txt.replace(" ", "") == "[test]":
                gated = True
        return gated

    def parse_vis(self):
        if self.accept("pub"):
            if self.at("("):
                self.skip_balanced()

    def parse_items(self, owner_mod=None, stop=None):
        while self.tok().kind != "eof" and not (stop and self.at(stop)):
            first = self.tok().line
            gated = self.parse_attrs()
            self.parse_vis()
            t = self.tok()
            if gated:
                self.skip_item_rest()
                self.note("cfg/test-gated item", first)
                continue
            if t.text == "use":
                self.parse_use()
            elif t.text == "mod":
                self.i += 1
                name = self.ident()
                if self.accept(";"):
                    continue
                self.expect("{")
                self.parse_items(name, "}")
                self.expect("}")
            elif t.text == "const" and self.peek().text != "fn":
                self.parse_const(None)
            elif t.text == "enum":
                self.parse_enum()
            elif t.text == "struct":
                self.parse_struct()
            elif t.text == "impl":
                self.parse_impl()
            elif t.text == "fn" or (t.text in ("async", "unsafe", "const") and self.peek().text == "fn"):
                self.parse_fn(None, None, owner_mod)
            elif t.text == "macro_rules":
                self.skip_item_rest()
                self.note("macro_rules", first)
            elif t.kind == "ident" and self.peek().text == "!":
                self.skip_item_rest()      # item macro invocation (`session_impl!(..);`)
                self.note("macro invocation `%s!`" % t.text, first)
            elif t.text in ("trait", "type", "static", "extern"):
                self.skip_item_rest()
                self.note("%s item" % t.text, first)
            else:
                raise Unsupported("item starting with `%s`" % t.text, t.line)

    def parse_use(self):
        self.expect("use")
        segs = []
        while True:
            if self.at("*"):
                self.i += 1
                self.globs.append(list(segs))
                break
            if self.at("{"):
                self.skip_balanced()
                break
            segs.append(self.ident())
            if not self.accept("::"):
                break
        if self.accept("as"):
            alias = self.ident()
            self.uses[alias] = segs
        elif segs and not (self.globs and self.globs[-1] == segs):
            self.uses[segs[-1]] = segs
        self.expect(";")

    def parse_const(self, owner):
        first = self.tok().line
        self.expect("const")
        name = self.ident()
        self.expect(":")
        ty = self.parse_type()
        self.expect("=")
        if self.wanted("const", owner, name):
            e = self.parse_expr()
            self.expect(";")
            self.items.append(Node("const", first, name=name, ty=ty, expr=e, owner=owner))
        else:
            self.skip_item_rest()
            self.note("const %s" % name, first)

    def parse_enum(self):
        first = self.tok().line
        self.expect("enum")
        name = self.ident()
        if not self.wanted("enum", None, name):
            self.skip_item_rest()
            self.note("enum %s" % name, first)
            return
        self.expect("{")
        variants = []
        while not self.at("}"):
            self.parse_attrs()
            ln = self.tok().line
            v = self.ident()
            fields, disc = [], None
            if self.at("("):
                self.i += 1
                while not self.at(")"):
                    fields.append(self.parse_type())
                    if not self.accept(","):
                        break
                self.expect(")")
            elif self.at("{"):
                raise Unsupported("struct-like enum variant", ln)
            if self.accept("="):
                t = self.tok()
                if t.kind != "int":
                    raise Unsupported("enum discriminant that is not a literal", t.line)
                disc = parse_int(t)[0]
                self.i += 1
            variants.append(Node("variant", ln, name=v, fields=fields, disc=disc))
            if not self.accept(","):
                break
        self.expect("}")
        self.items.append(Node("enum", first, name=name, variants=variants))

    def parse_struct(self):
        first = self.tok().line
        self.expect("struct")
        name = self.ident()
        if not self.wanted("struct", None, name):
            self.skip_item_rest()
            self.note("struct %s" % name, first)
            return
        if not self.at("{"):
            raise Unsupported("struct `%s` without named fields" % name, first)
        self.expect("{")
        fields = []
        while not self.at("}"):
            self.parse_attrs()
            self.parse_vis()
            ln = self.tok().line
            f = self.ident()
            self.expect(":")
            fields.append(Node("sfield", ln, name=f, ty=self.parse_type()))
            if not self.accept(","):
                break
        self.expect("}")
        self.items.append(Node("struct", first, name=name, fields=fields))

    def parse_impl(self):
        first = self.tok().line
        self.expect("impl")
        if self.at("<"):
            raise Unsupported("generic impl", first)
        a = self.parse_type()
        trait = None
        if self.accept("for"):
            trait = a
            a = self.parse_type()
        if a.kind != "tname":
            self.skip_item_rest()
            self.note("impl for a non-nominal type", first)
            return
        owner = a.segs[-1]
        tname = None
        if trait is not None:
            tname = trait.segs[-1] + ("_" + show_type(trait.args[0]) if trait.args else "")
        self.expect("{")
        self.assoc = {}
        while not self.at("}"):
            f0 = self.tok().line
            gated = self.parse_attrs()
            self.parse_vis()
            if self.at("type"):
                self.i += 1
                an = self.ident()
                self.expect("=")
                self.assoc[an] = self.parse_type()
                self.expect(";")
                continue
            if self.at("const") and self.peek().text != "fn":
                self.parse_const(owner)
                continue
            if gated:
                self.skip_item_rest()
                self.note("cfg-gated item of impl %s" % owner, f0)
                continue
            self.parse_fn(owner, tname, None)
        self.expect("}")

    def parse_fn(self, owner, trait, modname):
        first = self.tok().line
        start = self.i
        while self.tok().text in ("async", "unsafe", "const"):
            self.i += 1
        self.expect("fn")
        name = self.ident()
        if self.at("<"):
            # generics: only skipped functions may have them
            depth = 0
            while True:
                if self.at("<"):
                    depth += 1
                elif self.at(">"):
                    depth -= 1
                elif self.at(">>"):
                    depth -= 2
                self.i += 1
                if depth <= 0:
                    break
            generic = True
        else:
            generic = False
        if not self.at("("):
            raise Unsupported("fn header of `%s`" % name, first)
        # signature text up to the body
        j = self.i
        depth = 0
        while True:
            t = self.toks[j]
            if t.kind == "eof":
                raise Unsupported("fn without a body", first)
            if t.text in ("(", "[") and t.kind == "punct":
                depth += 1
            elif t.text in (")", "]") and t.kind == "punct":
                depth -= 1
            elif depth == 0 and t.kind == "punct" and t.text in ("{", ";"):
                break
            j += 1
        sig = self.text_between(start, j)
        key_owner = owner if owner else (("mod", modname) if modname else None)
        self.sigs[(key_owner, trait, name)] = sig
        if not self.wanted("fn", (owner, trait, modname), name):
            self.i = j
            self.skip_item_rest()
            self.note("fn %s%s" % ((owner + "::") if owner else ((modname + "::") if modname else ""), name), first)
            return
        if generic:
            raise Unsupported("generic fn `%s`" % name, first)
        self.expect("(")
        params = []
        selfmode = None
        while not self.at(")"):
            ln = self.tok().line
            if self.at("&") and (self.peek().text == "self" or (self.peek().text == "mut" and self.peek(2).text == "self")):
                self.i += 1
                selfmode = "mut" if self.accept("mut") else "ref"
                self.expect("self")
            elif self.at("self"):
                self.i += 1
                selfmode = "val"
            elif self.at("mut") and self.peek().text == "self":
                self.i += 2
                selfmode = "val"
            else:
                mutb = self.accept("mut")
                if self.at("_"):
                    self.i += 1
                    pname = "_"
                else:
                    pname = self.ident()
                self.expect(":")
                params.append(Node("param", ln, name=pname, ty=self.parse_type(), mutb=mutb))
            if not self.accept(","):
                break
        self.expect(")")
        ret = None
        if self.accept("->"):
            ret = self.parse_type()
        if self.at("where"):
            raise Unsupported("where clause", self.tok().line)
        body = self.parse_block()
        self.items.append(Node("fn", first, name=name, owner=owner, trait=trait, modname=modname, selfmode=selfmode, params=params,
                               ret=ret, body=body, sig=sig, assoc=dict(getattr(self, "assoc", {})) if owner else {}))

    # -- types
    def parse_type(self):
        t = self.tok()
        ln = t.line
        if self.accept("&"):
            if self.tok().kind == "lifetime":
                self.i += 1
            m = self.accept("mut")
            return Node("tref", ln, mut=m, inner=self.parse_type())
        if self.at("&&"):
            raise Unsupported("`&&` type", ln)
        if self.accept("["):
            elem = self.parse_type()
            if self.accept(";"):
                n = self.parse_expr()
                self.expect("]")
                return Node("tarray", ln, elem=elem, len=n)
            self.expect("]")
            return Node("tslice", ln, elem=elem)
        if self.accept("("):
            elems = []
            while not self.at(")"):
                elems.append(self.parse_type())
                if not self.accept(","):
                    break
            self.expect(")")
            if not elems:
                return Node("tunit", ln)
            return Node("ttuple", ln, elems=elems)
        if self.accept("dyn"):
            inner = self.parse_type()
            return Node("tdyn", ln, inner=inner)
        if self.accept("impl"):
            raise Unsupported("`impl Trait` type", ln)
        segs = [self.ident()]
        args = []
        while True:
            if self.at("::") and self.peek().kind == "ident":
                self.i += 1
                segs.append(self.ident())
                continue
            break
        if self.at("<"):
            self.i += 1
            while not (self.at(">") or self.at(">>")):
                if self.tok().kind == "lifetime":
                    self.i += 1
                else:
                    args.append(self.parse_type())
                if not self.accept(","):
                    break
            self.close_angle()
        return Node("tname", ln, segs=segs, args=args)

    def close_angle(self):
        if self.at(">>"):
            # split the token
            t = self.tok()
            self.toks[self.i] = pw.Tok("punct", ">", t.line)
            self.toks.insert(self.i, pw.Tok("punct", ">", t.line))
        self.expect(">")

    # -- blocks / statements
    def parse_block(self):
        ln = self.tok().line
        self.expect("{")
        stmts = []
        tail = None
        while not self.at("}"):
            if self.accept(";"):
                continue
            t = self.tok()
            if t.text == "let":
                stmts.append(self.parse_let())
                continue
            if t.text == "const":
                l2 = t.line
                self.i += 1
                name = self.ident()
                self.expect(":")
                ty = self.parse_type()
                self.expect("=")
                e = self.parse_expr()
                self.expect(";")
                stmts.append(Node("lconst", l2, name=name, ty=ty, expr=e))
                continue
            if t.text in ("fn", "struct", "enum", "impl", "use", "type", "static", "mod", "trait"):
                raise Unsupported("item inside a function body (`%s`)" % t.text, t.line)
            e = self.parse_expr_stmt()
            if self.accept(";"):
                stmts.append(Node("expr", e.line, expr=e))
            elif self.at("}"):
                tail = e
            elif e.kind in ("if", "match", "for", "block"):
                stmts.append(Node("expr", e.line, expr=e))
            else:
                raise Unsupported("expected `;` after an expression", self.tok().line)
        self.expect("}")
        return Node("block", ln, stmts=stmts, tail=tail)

    def parse_let(self):
        ln = self.tok().line
        self.expect("let")
        pat = self.parse_pattern()
        ty = None
        if self.accept(":"):
            ty = self.parse_type()
        self.expect("=")
        e = self.parse_expr()
        if self.at("else"):
            raise Unsupported("let-else", ln)
        self.expect(";")
        return Node("let", ln, pat=pat, ty=ty, expr=e)

    def parse_pattern(self):
        t = self.tok()
        ln = t.line
        if self.accept("_"):
            return Node("pwild", ln)
        if self.accept("("):
            subs = []
            while not self.at(")"):
                subs.append(self.parse_pattern())
                if not self.accept(","):
                    break
            self.expect(")")
            return Node("ptuple", ln, subs=subs)
        if t.kind == "int":
            self.i += 1
            return Node("pint", ln, value=parse_int(t)[0])
        if self.accept("&"):
            return self.parse_pattern()
        byref = None
        if self.accept("ref"):
            byref = "mut" if self.accept("mut") else "ref"
            return Node("pbind", ln, name=self.ident(), byref=byref, mutb=False)
        if self.accept("mut"):
            return Node("pbind", ln, name=self.ident(), byref=None, mutb=True)
        segs = [self.ident()]
        while self.accept("::"):
            segs.append(self.ident())
        if self.at("("):
            self.i += 1
            subs = []
            while not self.at(")"):
                subs.append(self.parse_pattern())
                if not self.accept(","):
                    break
            self.expect(")")
            return Node("pctor", ln, segs=segs, subs=subs)
        if self.at("{"):
            raise Unsupported("struct pattern", ln)
        if len(segs) == 1 and (segs[0][0].islower() or segs[0][0] == "_"):
            return Node("pbind", ln, name=segs[0], byref=None, mutb=False)
        return Node("pctor", ln, segs=segs, subs=[])

    def parse_expr_stmt(self):
        t = self.tok()
        if t.text == "if":
            return self.parse_if()
        if t.text == "match":
            return self.parse_match()
        if t.text == "for":
            return self.parse_for()
        if t.text in ("loop", "while", "unsafe", "async"):
            raise Unsupported("`%s`" % t.text, t.line)
        if t.text == "return":
            self.i += 1
            e = None
            if not (self.at(";") or self.at("}")):
                e = self.parse_expr()
            return Node("return", t.line, expr=e)
        if t.text in ("break", "continue"):
            raise Unsupported("`%s`" % t.text, t.line)
        e = self.parse_expr()
        for op in ("=", "+=", "-=", "*=", "|=", "&=", "^=", "<<=", ">>=", "/=", "%="):
            if self.at(op):
                self.i += 1
                r = self.parse_expr()
                return Node("assign", e.line, lhs=e, op=op, rhs=r)
        return e

    def parse_if(self):
        ln = self.tok().line
        self.expect("if")
        if self.accept("let"):
            pat = self.parse_pattern()
            self.expect("=")
            scrut = self.parse_expr(no_struct=True)
            then = self.parse_block()
            els = None
            if self.accept("else"):
                els = self.parse_if() if self.at("if") else self.parse_block()
            return Node("iflet", ln, pat=pat, scrut=scrut, then=then, els=els)
        cond = self.parse_expr(no_struct=True)
        then = self.parse_block()
        els = None
        if self.accept("else"):
            els = self.parse_if() if self.at("if") else self.parse_block()
        return Node("if", ln, cond=cond, then=then, els=els)

    def parse_match(self):
        ln = self.tok().line
        self.expect("match")
        scrut = self.parse_expr(no_struct=True)
        self.expect("{")
        arms = []
        while not self.at("}"):
            al = self.tok().line
            pats = [self.parse_pattern()]
            while self.accept("|"):
                pats.append(self.parse_pattern())
            guard = None
            if self.accept("if"):
                guard = self.parse_expr(no_struct=True)
            self.expect("=>")
            if self.at("{"):
                body = self.parse_block()
                self.accept(",")
            else:
                e = self.parse_expr_stmt()
                body = Node("block", e.line, stmts=[], tail=e)
                if not self.accept(","):
                    if not self.at("}"):
                        raise Unsupported("expected `,` after a match arm", self.tok().line)
            arms.append(Node("arm", al, pats=pats, guard=guard, body=body))
        self.expect("}")
        return Node("match", ln, scrut=scrut, arms=arms)

    def parse_for(self):
        ln = self.tok().line
        self.expect("for")
        pat = self.parse_pattern()
        self.expect("in")
        it = self.parse_expr(no_struct=True)
        body = self.parse_block()
        return Node("for", ln, pat=pat, iter=it, body=body)

    # -- expressions
    def parse_expr(self, no_struct=False):
        return self.parse_level(0, no_struct)

    def parse_level(self, lvl, ns):
        if lvl == len(BINOPS):
            return self.parse_cast(ns)
        l = self.parse_level(lvl + 1, ns)
        while True:
            t = self.tok()
            if t.kind == "punct" and t.text in BINOPS[lvl]:
                if lvl == 2 and False:
                    pass
                self.i += 1
                r = self.parse_level(lvl + 1, ns)
                l = Node("bin", t.line, op=t.text, l=l, r=r)
                continue
            return l

    def parse_cast(self, ns):
        e = self.parse_unary(ns)
        while self.at("as"):
            ln = self.tok().line
            self.i += 1
            e = Node("cast", ln, expr=e, ty=self.parse_type())
        return e

    def parse_unary(self, ns):
        t = self.tok()
        if t.kind == "punct" and t.text in ("!", "-", "*"):
            self.i += 1
            return Node("unary", t.line, op=t.text, expr=self.parse_unary(ns))
        if t.kind == "punct" and t.text == "&":
            self.i += 1
            m = self.accept("mut")
            return Node("ref", t.line, mut=m, expr=self.parse_unary(ns))
        if t.kind == "punct" and t.text == "&&":
            raise Unsupported("`&&` reference", t.line)
        return self.parse_postfix(ns)

    def parse_args(self):
        self.expect("(")
        args = []
        while not self.at(")"):
            args.append(self.parse_expr())
            if not self.accept(","):
                break
        self.expect(")")
        return args

    def parse_postfix(self, ns):
        e = self.parse_primary(ns)
        while True:
            t = self.tok()
            if self.at("?"):
                self.i += 1
                e = Node("try", t.line, expr=e)
            elif self.at("."):
                self.i += 1
                if self.tok().kind == "int":
                    idx = int(self.tok().text)
                    self.i += 1
                    e = Node("tfield", t.line, base=e, index=idx)
                    continue
                if self.at("await"):
                    raise Unsupported("`.await`", t.line)
                name = self.ident()
                turbofish = None
                if self.at("::"):
                    self.i += 1
                    self.expect("<")
                    turbofish = [self.parse_type()]
                    while self.accept(","):
                        turbofish.append(self.parse_type())
                    self.close_angle()
                if self.at("("):
                    e = Node("mcall", t.line, base=e, name=name, args=self.parse_args(), turbofish=turbofish)
                else:
                    e = Node("field", t.line, base=e, name=name)
            elif self.at("["):
                self.i += 1
                lo = hi = None
                if self.at(".."):
                    self.i += 1
                    if not self.at("]"):
                        hi = self.parse_expr()
                    e = Node("slice", t.line, base=e, lo=None, hi=hi)
                else:
                    lo = self.parse_expr()
                    if self.at(".."):
                        self.i += 1
                        if not self.at("]"):
                            hi = self.parse_expr()
                        e = Node("slice", t.line, base=e, lo=lo, hi=hi)
                    elif self.at("..="):
                        raise Unsupported("inclusive range index", t.line)
                    else:
                        e = Node("index", t.line, base=e, idx=lo)
                self.expect("]")
            elif self.at("(") and e.kind == "path":
                e = Node("call", t.line, segs=e.segs, targs=e.targs, args=self.parse_args())
            else:
                return e

    def parse_primary(self, ns):
        t = self.tok()
        ln = t.line
        if t.kind == "int":
            self.i += 1
            v, suffix = parse_int(t)
            return Node("int", ln, value=v, suffix=suffix)
        if t.kind == "str":
            self.i += 1
            if t.text.startswith("b\""):
                return Node("bstr", ln, bytes=tt.rust_string(t.text[1:], ln), text=t.text)
            return Node("str", ln, text=t.text)
        if t.kind == "char":
            self.i += 1
            return Node("int", ln, value=tt.byte_literal(t), suffix="u8")
        if t.kind in ("float", "rawident", "other", "lifetime"):
            raise Unsupported("token `%s`" % t.text, ln)
        if self.accept("("):
            if self.accept(")"):
                return Node("unit", ln)
            e = self.parse_expr()
            if self.at(","):
                elems = [e]
                while self.accept(","):
                    if self.at(")"):
                        break
                    elems.append(self.parse_expr())
                self.expect(")")
                return Node("tuple", ln, elems=elems)
            self.expect(")")
            return Node("paren", ln, expr=e)
        if self.accept("["):
            elems = []
            if not self.at("]"):
                first = self.parse_expr()
                if self.accept(";"):
                    n = self.parse_expr()
                    self.expect("]")
                    return Node("repeat", ln, elem=first, len=n)
                elems.append(first)
                while self.accept(","):
                    if self.at("]"):
                        break
                    elems.append(self.parse_expr())
            self.expect("]")
            return Node("array", ln, elems=elems)
        if self.at("|") or self.at("||"):
            params = []
            if self.accept("||"):
                pass
            else:
                self.expect("|")
                while not self.at("|"):
                    if self.at("_"):
                        self.i += 1
                        params.append("_")
                    else:
                        self.accept("&")
                        self.accept("mut")
                        params.append(self.ident())
                    if self.accept(":"):
                        self.parse_type()
                    if not self.accept(","):
                        break
                self.expect("|")
            if self.at("{"):
                raise Unsupported("closure with a block body", ln)
            return Node("closure", ln, params=params, body=self.parse_expr())
        if t.text == "if":
            return self.parse_if()
        if t.text == "match":
            return self.parse_match()
        if self.at("{"):
            return self.parse_block()
        if self.at("<"):
            # qualified path  <T as Trait>::A::B
            self.i += 1
            ty = self.parse_type()
            self.expect("as")
            tr = self.parse_type()
            self.close_angle()
            segs = []
            while self.accept("::"):
                segs.append(self.ident())
            return Node("qpath", ln, ty=ty, trait=tr, segs=segs)
        if t.kind == "ident":
            if t.text in ("loop", "while", "unsafe", "async", "move", "break", "continue"):
                raise Unsupported("`%s`" % t.text, ln)
            if t.text == "return":
                self.i += 1
                e = None
                if not (self.at(";") or self.at("}") or self.at(",")):
                    e = self.parse_expr()
                return Node("return", ln, expr=e)
            segs = [self.ident()]
            targs = None
            while self.at("::"):
                if self.peek().text == "<":
                    self.i += 2
                    targs = [self.parse_type()]
                    while self.accept(","):
                        targs.append(self.parse_type())
                    self.close_angle()
                    continue
                self.i += 1
                segs.append(self.ident())
            if self.at("!"):
                self.i += 1
                return self.parse_macro(segs[-1], ln)
            if self.at("{") and not ns and (segs[-1][0].isupper()):
                self.i += 1
                fields = []
                while not self.at("}"):
                    if self.at(".."):
                        raise Unsupported("struct update syntax", self.tok().line)
                    f = self.ident()
                    if self.accept(":"):
                        fields.append((f, self.parse_expr()))
                    else:
                        fields.append((f, Node("path", ln, segs=[f], targs=None)))
                    if not self.accept(","):
                        break
                self.expect("}")
                return Node("structlit", ln, segs=segs, fields=fields)
            return Node("path", ln, segs=segs, targs=targs)
        raise Unsupported("expression starting with `%s`" % t.text, ln)

    def parse_macro(self, name, ln):
        if name not in LOG_MACROS + ("bail", "anyhow", "vec", "panic"):
            raise Unsupported("macro `%s!`" % name, ln)
        close = {"(": ")", "[": "]", "{": "}"}[self.tok().text]
        self.i += 1
        args = []
        rep = None
        while not self.at(close):
            args.append(self.parse_expr())
            if name == "vec" and self.accept(";"):
                rep = self.parse_expr()
                break
            if not self.accept(","):
                break
        self.expect(close)
        return Node("macro", ln, name=name, args=args, rep=rep)


def parse_int(t):
    text = t.text.replace("_", "")
    suffix = None
    for s in ("usize", "isize", "u128", "i128", "u16", "u32", "u64", "i16", "i32", "i64", "u8", "i8"):
        if text.endswith(s):
            suffix = s
            text = text[:-len(s)]
            break
    try:
        if text.startswith(("0x", "0X")):
            v = int(text[2:], 16)
        elif text.startswith(("0b", "0B")):
            v = int(text[2:], 2)
        elif text.startswith(("0o", "0O")):
            v = int(text[2:], 8)
        else:
            v = int(text, 10)
    except ValueError:
        raise Unsupported("integer literal `%s`" % t.text, t.line)
    return v, suffix


def show_type(t):
    k = t.kind
    if k == "tref":
        return "&%s%s" % ("mut " if t.mut else "", show_type(t.inner))
    if k == "tarray":
        return "[%s; %s]" % (show_type(t.elem), show_expr(t.len))
    if k == "tslice":
        return "[%s]" % show_type(t.elem)
    if k == "tunit":
        return "()"
    if k == "ttuple":
        return "(%s)" % ", ".join(show_type(x) for x in t.elems)
    if k == "tdyn":
        return "dyn %s" % show_type(t.inner)
    s = "::".join(t.segs)
    if t.args:
        s += "<%s>" % ", ".join(show_type(a) for a in t.args)
    return s


def show_pat(p):
    k = p.kind
    if k == "pwild":
        return "_"
    if k == "pint":
        return str(p.value)
    if k == "ptuple":
        return "(%s)" % ", ".join(show_pat(x) for x in p.subs)
    if k == "pbind":
        return {"mut": "ref mut ", "ref": "ref ", None: ""}[p.byref] + ("mut " if p.mutb else "") + p.name
    s = "::".join(p.segs)
    if p.subs:
        s += "(%s)" % ", ".join(show_pat(x) for x in p.subs)
    return s


def show_expr(e):
    k = e.kind
    if k == "int":
        return str(e.value) + (e.suffix or "")
    if k == "bstr":
        return e.text
    if k == "str":
        return "\"…\""
    if k == "unit":
        return "()"
    if k == "path":
        return "::".join(e.segs) + ("::<%s>" % ", ".join(show_type(t) for t in e.targs) if e.targs else "")
    if k == "qpath":
        return "<%s as %s>::%s" % (show_type(e.ty), show_type(e.trait), "::".join(e.segs))
    if k == "call":
        return "%s%s(%s)" % ("::".join(e.segs), ("::<%s>" % ", ".join(show_type(t) for t in e.targs) if e.targs else ""),
                             ", ".join(show_expr(a) for a in e.args))
    if k == "mcall":
        return "%s.%s(%s)" % (show_expr(e.base), e.name, ", ".join(show_expr(a) for a in e.args))
    if k == "field":
        return "%s.%s" % (show_expr(e.base), e.name)
    if k == "tfield":
        return "%s.%d" % (show_expr(e.base), e.index)
    if k == "index":
        return "%s[%s]" % (show_expr(e.base), show_expr(e.idx))
    if k == "slice":
        return "%s[%s..%s]" % (show_expr(e.base), show_expr(e.lo) if e.lo else "", show_expr(e.hi) if e.hi else "")
    if k == "unary":
        return "%s%s" % (e.op, show_expr(e.expr))
    if k == "ref":
        return "&%s%s" % ("mut " if e.mut else "", show_expr(e.expr))
    if k == "bin":
        return "%s %s %s" % (show_expr(e.l), e.op, show_expr(e.r))
    if k == "cast":
        return "%s as %s" % (show_expr(e.expr), show_type(e.ty))
    if k == "try":
        return "%s?" % show_expr(e.expr)
    if k == "paren":
        return "(%s)" % show_expr(e.expr)
    if k == "tuple":
        return "(%s)" % ", ".join(show_expr(x) for x in e.elems)
    if k == "array":
        return "[%s]" % ", ".join(show_expr(x) for x in e.elems)
    if k == "repeat":
        return "[%s; %s]" % (show_expr(e.elem), show_expr(e.len))
    if k == "macro":
        if e.name in LOG_MACROS + ("bail", "anyhow", "panic"):
            return "%s!(%s)" % (e.name, ", ".join(["\"…\""] + [show_expr(a) for a in e.args if a.kind != "str"]))
        if e.rep is not None:
            return "vec![%s; %s]" % (show_expr(e.args[0]), show_expr(e.rep))
        return "vec![%s]" % ", ".join(show_expr(a) for a in e.args)
    if k == "structlit":
        return "%s { %s }" % ("::".join(e.segs), ", ".join("%s: %s" % (f, show_expr(v)) for f, v in e.fields))
    if k == "closure":
        return "|%s| %s" % (", ".join(e.params), show_expr(e.body))
    if k == "if":
        return "if %s { ... }%s" % (show_expr(e.cond), " else { ... }" if e.els else "")
    if k == "iflet":
        return "if let %s = %s { ... }%s" % (show_pat(e.pat), show_expr(e.scrut), " else { ... }" if e.els else "")
    if k == "match":
        return "match %s { ... }" % show_expr(e.scrut)
    if k == "for":
        return "for %s in %s { ... }" % (show_pat(e.pat), show_expr(e.iter))
    if k == "block":
        return "{ ... }"
    if k == "return":
        return "return%s" % ((" " + show_expr(e.expr)) if e.expr else "")
    if k == "assign":
        return "%s %s %s" % (show_expr(e.lhs), e.op, show_expr(e.rhs))
    return "<%s>" % k


# --------------------------------------------------------------------------------------------
# types
#   'u8' 'u16' 'u32' 'u64' 'usize' 'i32' 'i64' 'bool' 'unit'       ('bytes', n | None)   BytesMut / Bytes / Vec<u8> / &[u8] / [u8; n]
#   ('list', T)  ('option', T)  ('result', T)  ('tuple', (T, ..))   ('enum', name)  ('struct', name)
#   'IoCursor' 'GCM' 'Address' 'BodyCodec' 'ServerSession' 'ClientSession' 'DynSession'
# --------------------------------------------------------------------------------------------

OPAQUE_LEAN = {"IoCursor": "IoCursor", "GCM": "GCM", "Address": "Octo.VmessAddrGen.Address", "BodyCodec": "AEADBodyCodec CM XR",
               "ServerSession": "ServerSession", "ClientSession": "ClientSession", "DynSession": "DynSession", "W": "W",
               "SocketAddr": "Octo.VmessAddrGen.SocketAddr"}
CRATE_CONSTS = {("Aes128Gcm", "AeadCore", ("NonceSize", "USIZE")): 12, ("Aes128Gcm", "AeadCore", ("TagSize", "USIZE")): 16}
SIZE_OF = {"u8": 1, "u16": 2, "u32": 4, "u64": 8, "usize": 8}


def is_int(t):
    return t in INTS or t in SINTS


def is_bytes(t):
    return isinstance(t, tuple) and t[0] == "bytes"


def type_str(t):
    if isinstance(t, str):
        return t
    if t[0] == "bytes":
        return "[u8; %d]" % t[1] if t[1] is not None else "bytes"
    if t[0] in ("list", "option", "result"):
        return "%s<%s>" % (t[0], type_str(t[1]))
    if t[0] == "tuple":
        return "(%s)" % ", ".join(type_str(x) for x in t[1])
    return t[1]


class V:
    def __init__(self, name, lean, ty, mode, order):
        self.name, self.lean, self.ty, self.mode, self.order = name, lean, ty, mode, order
        self.alias = None      # (root V, function () -> lean line that stores this alias back into the root)


class FnInfo:
    def __init__(self, node, lean, selfty):
        self.node, self.lean, self.selfty = node, lean, selfty
        self.params = []       # (name, type, mode)   mode: 'val' | 'ref' | 'mut'
        self.ret = None
        self.effect = False
        self.generic = False   # takes the body codec's type parameters in its types


class Gen:
    def __init__(self):
        self.enums = {}        # name -> Node
        self.structs = {}
        self.generic_types = set()
        self.consts = {}       # (owner/module or None, name) -> (type, lean name, value or None)
        self.fns = {}          # key -> FnInfo     key: (owner or ('mod', m), name)
        self.out = []
        self.lines = []
        self.fresh_n = 0
        self.cur = None
        self.uses = {}
        self.ext_used = set()

    # -- small helpers
    def fresh(self):
        self.fresh_n += 1
        return "v%d" % self.fresh_n

    def lt(self, t):
        if t in INTS:
            return INTS[t][1]
        if t in SINTS:
            return SINTS[t][1]
        if t == "bool":
            return "Bool"
        if t == "unit":
            return "Unit"
        if isinstance(t, str):
            return OPAQUE_LEAN[t]
        if t[0] == "bytes":
            return "List UInt8"
        if t[0] == "list":
            return "List %s" % self.la(t[1])
        if t[0] == "option":
            return "Option %s" % self.la(t[1])
        if t[0] == "result":
            return "RResult %s" % self.la(t[1])
        if t[0] == "tuple":
            return " × ".join(self.la(x) for x in t[1])
        if t[1] in self.generic_types:
            return "%s CM XR" % t[1]
        return t[1]

    def la(self, t):
        s = self.lt(t)
        return "(%s)" % s if " " in s else s

    def const_eval(self, e):
        k = e.kind
        if k == "int":
            return e.value
        if k == "paren":
            return self.const_eval(e.expr)
        if k == "bin" and e.op in ("+", "-", "*"):
            a, b = self.const_eval(e.l), self.const_eval(e.r)
            v = a + b if e.op == "+" else a - b if e.op == "-" else a * b
            if v < 0 or v >= 1 << 64:
                raise Unsupported("constant expression out of range", e.line)
            return v
        if k == "path":
            c = self.find_const(e.segs, e.line)
            if c is not None and c[2] is not None and not isinstance(c[2], list):
                return c[2]
        if k == "qpath":
            key = (e.ty.segs[-1] if e.ty.kind == "tname" else None, e.trait.segs[-1] if e.trait.kind == "tname" else None, tuple(e.segs))
            if key in CRATE_CONSTS:
                self.crate_consts_used.add(key)
                return CRATE_CONSTS[key]
        if k == "call" and e.segs[-1] == "size_of" and e.targs and e.targs[0].kind == "tname" and e.targs[0].segs[-1] in SIZE_OF:
            return SIZE_OF[e.targs[0].segs[-1]]
        raise Unsupported("constant expression `%s`" % show_expr(e), e.line)

    def find_const(self, segs, line):
        name = segs[-1]
        if len(segs) == 1:
            if hasattr(self, "local_consts") and name in self.local_consts:
                return self.local_consts[name]
            return self.consts.get((self.cur_module, name)) or self.consts.get((None, name))
        return self.consts.get((segs[-2], name))

    def resolve_type(self, t, selfty=None):
        k = t.kind
        if k == "tref":
            return self.resolve_type(t.inner, selfty)
        if k == "tunit":
            return "unit"
        if k == "ttuple":
            return ("tuple", tuple(self.resolve_type(x, selfty) for x in t.elems))
        if k == "tdyn":
            if t.inner.kind == "tname" and t.inner.segs[-1] == "Session":
                return "DynSession"
            raise Unsupported("type `%s`" % show_type(t), t.line)
        if k in ("tarray", "tslice"):
            inner = self.resolve_type(t.elem, selfty)
            if inner == "u8":
                return ("bytes", self.const_eval(t.len) if k == "tarray" else None)
            if k == "tslice":
                return ("list", inner)
            raise Unsupported("array type `%s`" % show_type(t), t.line)
        name = t.segs[-1]
        if len(t.segs) == 2 and t.segs[0] == "Self" and name in getattr(self, "assoc", {}):
            return self.resolve_type(self.assoc[name], selfty)
        if name in INTS or name in SINTS:
            return name
        if name == "bool":
            return "bool"
        if name == "Self" and selfty:
            return selfty
        if name in ("BytesMut", "Bytes"):
            return ("bytes", None)
        if name == "Vec" and len(t.args) == 1:
            inner = self.resolve_type(t.args[0], selfty)
            return ("bytes", None) if inner == "u8" else ("list", inner)
        if name == "Box" and len(t.args) == 1:
            return self.resolve_type(t.args[0], selfty)
        if name == "Option" and len(t.args) == 1:
            return ("option", self.resolve_type(t.args[0], selfty))
        if name == "Result" and t.args:
            return ("result", self.resolve_type(t.args[0], selfty))
        if name == "AEADBodyCodec":
            return "BodyCodec"
        if name in ("ServerSession", "ClientSession", "Address", "SocketAddr"):
            return name
        if name == "Aes128Gcm":
            return "GCM"
        if name in self.enums:
            return ("enum", name)
        if name in self.structs:
            return ("struct", name)
        raise Unsupported("type `%s`" % show_type(t), t.line)

    def mentions_body(self, t, seen=()):
        if t == "BodyCodec":
            return True
        if isinstance(t, tuple):
            if t[0] in ("list", "option", "result"):
                return self.mentions_body(t[1], seen)
            if t[0] == "tuple":
                return any(self.mentions_body(x, seen) for x in t[1])
            if t[0] in ("enum", "struct") and t[1] not in seen:
                return t[1] in self.generic_types
        return False

    # -- environment
    def lookup(self, name, line):
        for fr in reversed(self.env):
            if name in fr:
                return fr[name]
        raise Unsupported("unknown name `%s`" % name, line)

    def declare(self, name, ty, mode="val", lean=None):
        if lean is None:
            base = {"self": "self_", "at": "at_", "end": "end_", "from": "from_", "open": "open_", "show": "show_", "then": "then_",
                    "do": "do_", "have": "have_", "fun": "fun_", "match": "match_"}.get(name, name)
            if base == "_":
                base = self.fresh()
            lean = base
            k = 0
            while lean in self.live_names():
                k += 1
                lean = "%s_%d" % (base, k)
        self.order += 1
        v = V(name, lean, ty, mode, self.order)
        self.env[-1][name] = v
        self.all_vars.append(v)
        return v

    def live_names(self):
        return {v.lean for v in self.all_vars}

    def rebind(self, v, pre):
        self.log.add(v)
        if v.alias is not None:
            root, wb = v.alias
            pre.append(wb())
            self.rebind(root, pre)

    # -- places
    def place_of(self, e):
        """(V, [field names]) of a mutable place expression, or None"""
        while e.kind in ("paren",) or (e.kind == "ref") or (e.kind == "unary" and e.op == "*"):
            e = e.expr
        if e.kind == "path" and len(e.segs) == 1:
            for fr in reversed(self.env):
                if e.segs[0] in fr:
                    return fr[e.segs[0]], []
            return None
        if e.kind == "field":
            p = self.place_of(e.base)
            if p is None:
                return None
            return p[0], p[1] + [e.name]
        return None

    def place_type(self, v, fields, line):
        t = v.ty
        for f in fields:
            t = self.field_type(t, f, line)
        return t

    def field_type(self, t, f, line):
        if t in ("ServerSession", "ClientSession"):
            if f in ("request_body_iv", "request_body_key", "response_body_iv", "response_body_key"):
                return ("bytes", 16)
            if f == "response_header":
                return "u8"
        if isinstance(t, tuple) and t[0] == "struct":
            for fl in self.structs[t[1]].fields:
                if fl.name == f:
                    return self.resolve_type(fl.ty, t)
        raise Unsupported("field `%s` of `%s`" % (f, type_str(t)), line)

    def place_term(self, v, fields):
        return ".".join([v.lean] + fields)

    def set_path(self, root, fields, val):
        if not fields:
            return val
        return "{ %s with %s := %s }" % (root, fields[0], self.set_path("%s.%s" % (root, fields[0]), fields[1:], val))

    def write_place(self, v, fields, val, pre):
        if fields or val != v.lean:
            pre.append("let %s : %s := %s" % (v.lean, self.lt(v.ty), self.set_path(v.lean, fields, val)))
        self.rebind(v, pre)

    def bind_place(self, v, fields):
        """name to bind a new value of the place to (the variable itself when there are no fields)"""
        return v.lean if not fields else self.fresh()

    # -- literals
    def lit(self, v, ty, line):
        if ty in INTS:
            if v >= 1 << INTS[ty][2]:
                raise Unsupported("literal %d out of range for %s" % (v, ty), line)
            return "(%d : %s)" % (v, INTS[ty][1])
        if ty == "i64":
            return "(I64.ofNat %d)" % v
        raise Unsupported("integer literal where `%s` is expected" % type_str(ty), line)

    def is_lit(self, e):
        while e.kind == "paren":
            e = e.expr
        return e.kind == "int" and e.suffix is None

    # -- expressions: (term, type); effects / panics are hoisted into `pre`
    def ex(self, e, pre, want=None):
        k = e.kind
        if k == "paren":
            return self.ex(e.expr, pre, want)
        if k == "int":
            ty = e.suffix or want
            if ty is None or not is_int(ty):
                raise Unsupported("cannot type the literal `%s`" % show_expr(e), e.line)
            return self.lit(e.value, ty, e.line), ty
        if k == "bstr":
            return "([%s] : List UInt8)" % ", ".join(str(b) for b in e.bytes), ("bytes", len(e.bytes))
        if k == "unit":
            return "()", "unit"
        if k == "ref" or (k == "unary" and e.op == "*"):
            return self.ex(e.expr, pre, want)
        if k == "path":
            return self.ex_path(e, pre, want)
        if k == "qpath":
            return self.lit(self.const_eval(e), want or "usize", e.line), want or "usize"
        if k == "field":
            p = self.place_of(e)
            if p is not None:
                return self.place_term(*p), self.place_type(p[0], p[1], e.line)
            t, ty = self.ex(e.base, pre)
            return "%s.%s" % (t, e.name), self.field_type(ty, e.name, e.line)
        if k == "tuple":
            parts = [self.ex(x, pre) for x in e.elems]
            return "(%s)" % ", ".join(p[0] for p in parts), ("tuple", tuple(p[1] for p in parts))
        if k == "array":
            parts = [self.ex(x, pre, "u8") for x in e.elems]
            if any(p[1] != "u8" for p in parts):
                raise Unsupported("array literal that is not of bytes", e.line)
            return "([%s] : List UInt8)" % ", ".join(p[0] for p in parts), ("bytes", len(parts))
        if k == "repeat":
            el, ety = self.ex(e.elem, pre, "u8")
            if ety != "u8":
                raise Unsupported("`[v; n]` that is not of bytes", e.line)
            n = self.const_eval(e.len)
            return "(List.replicate %d %s)" % (n, el), ("bytes", n)
        if k == "macro":
            return self.ex_macro(e, pre, want)
        if k == "cast":
            return self.ex_cast(e, pre)
        if k == "unary":
            if e.op == "!":
                t, ty = self.ex(e.expr, pre, want)
                if ty == "bool":
                    return "(!%s)" % t, "bool"
            raise Unsupported("unary `%s`" % e.op, e.line)
        if k == "bin":
            return self.ex_bin(e, pre, want)
        if k == "try":
            t, ty = self.ex(e.expr, pre, ("result", want) if want else None)
            if not (isinstance(ty, tuple) and ty[0] == "result"):
                raise Unsupported("`?` on `%s`" % type_str(ty), e.line)
            if not (isinstance(self.cur.ret, tuple) and self.cur.ret[0] == "result"):
                raise Unsupported("`?` in a function that does not return a Result", e.line)
            v = self.fresh()
            pre.append("Flow.bind (Flow.question %s %s) fun %s =>" % (t, self.on_err(), v))
            return v, ty[1]
        if k == "index":
            b, bty = self.ex(e.base, pre)
            i, ity = self.ex(e.idx, pre, "usize")
            if not is_bytes(bty) or ity != "usize":
                raise Unsupported("index `%s`" % show_expr(e), e.line)
            v = self.fresh()
            pre.append("Flow.bind (Flow.byteAt %s %s) fun %s =>" % (b, i, v))
            return v, "u8"
        if k == "slice":
            b, bty = self.ex(e.base, pre)
            if not is_bytes(bty):
                raise Unsupported("range index of `%s`" % type_str(bty), e.line)
            lo = self.ex(e.lo, pre, "usize") if e.lo is not None else None
            hi = self.ex(e.hi, pre, "usize") if e.hi is not None else None
            for x in (lo, hi):
                if x is not None and x[1] != "usize":
                    raise Unsupported("range bound that is not usize", e.line)
            n = None
            hc = self.try_const(e.hi) if e.hi is not None else None
            lc = 0 if e.lo is None else self.try_const(e.lo)
            if hc is not None and lc is not None and hc >= lc:
                n = hc - lc
            if lo is None and hi is None:
                return b, bty
            v = self.fresh()
            if lo is None:
                pre.append("Flow.bind (Flow.slice_to %s %s) fun %s =>" % (b, hi[0], v))
            elif hi is None:
                pre.append("Flow.bind (Flow.slice_from %s %s) fun %s =>" % (b, lo[0], v))
            else:
                pre.append("Flow.bind (Flow.slice_range %s %s %s) fun %s =>" % (b, lo[0], hi[0], v))
            return v, ("bytes", n)
        if k == "call":
            return self.ex_call(e, pre, want)
        if k == "mcall":
            return self.ex_mcall(e, pre, want)
        if k == "structlit":
            return self.ex_structlit(e, pre, want)
        raise Unsupported("expression `%s`" % show_expr(e), e.line)

    def try_const(self, e):
        try:
            return self.const_eval(e)
        except Unsupported:
            return None

    def on_err(self):
        return self.ret_term("RResult.err")

    def ret_term(self, val):
        parts = []
        if self.cur.node.selfmode == "mut":
            parts.append(self.lookup("self", 0).lean)
        if self.cur.effect:
            parts.append("w_")
        for (n, t, m) in self.cur.params:
            if m == "mut":
                parts.append(self.param_vars[n].lean)
        parts.append(val)
        return parts[0] if len(parts) == 1 else "(%s)" % ", ".join(parts)

    def ex_path(self, e, pre, want):
        segs = e.segs
        if len(segs) == 1:
            for fr in reversed(self.env):
                if segs[0] in fr:
                    v = fr[segs[0]]
                    return v.lean, v.ty
            if segs[0] in ("true", "false"):
                return segs[0], "bool"
            if segs[0] == "None":
                if not (isinstance(want, tuple) and want[0] == "option"):
                    raise Unsupported("`None` of unknown type", e.line)
                return "(none : %s)" % self.lt(want), want
        c = self.find_const(segs, e.line)
        if c is not None:
            return c[1], c[0]
        # enum variant without fields
        if len(segs) >= 2:
            en = segs[-2]
            if en == "Self" and isinstance(self.cur.selfty, tuple):
                en = self.cur.selfty[1]
            if en in self.enums:
                for va in self.enums[en].variants:
                    if va.name == segs[-1] and not va.fields:
                        return "%s.%s" % (en, va.name), ("enum", en)
        raise Unsupported("name `%s`" % "::".join(segs), e.line)

    def ex_cast(self, e, pre):
        if e.ty.kind != "tname":
            raise Unsupported("cast to `%s`" % show_type(e.ty), e.line)
        to = e.ty.segs[-1]
        if self.is_lit(e.expr):
            return self.ex(e.expr, pre, to)
        t, ty = self.ex(e.expr, pre)
        if isinstance(ty, tuple) and ty[0] == "enum" and to == "u8":
            if any(v.fields for v in self.enums[ty[1]].variants):
                raise Unsupported("`as` on an enum with fields", e.line)
            return "(%s.as_u8 %s)" % (ty[1], t), "u8"
        if ty == to:
            return t, ty
        if ty in INTS and to in INTS:
            if INTS[ty][1] == INTS[to][1]:
                return t, to
            return "(%s.as_%s %s)" % (PREFIX[ty], to, t), to
        if ty == "u32" and to == "i32":
            return "(U32.as_i32 %s)" % t, "i32"
        raise Unsupported("cast `%s` (%s as %s)" % (show_expr(e), type_str(ty), to), e.line)

    def ex_bin(self, e, pre, want):
        op = e.op
        if op in ("&&", "||"):
            l, lt_ = self.ex(e.l, pre, "bool")
            pre2 = []
            outer_log = self.log
            self.log = set()
            r, rt = self.ex(e.r, pre2, "bool")
            rebound = sorted(self.log, key=lambda v: v.order)     # state changed by the lazily evaluated operand: carried out
            self.log = outer_log | self.log
            if lt_ != "bool" or rt != "bool":
                raise Unsupported("`%s` on non-bool" % op, e.line)
            if not pre2:
                return "(%s %s %s)" % (l, op, r), "bool"
            v = self.fresh()
            names = [x.lean for x in rebound]
            tup = lambda val: val if not names else "(%s)" % ", ".join(names + [val])
            inner = "\n".join("  " + x for x in pre2 + ["Flow.next %s" % tup(r)])
            if op == "&&":
                pre.append("Flow.bind (\n  if %s then\n%s\n  else Flow.next %s\n) fun %s =>" % (l, indent_text(inner, 1), tup("false"), tup(v)))
            else:
                pre.append("Flow.bind (\n  if %s then Flow.next %s else\n%s\n) fun %s =>" % (l, tup("true"), indent_text(inner, 1), tup(v)))
            return v, "bool"
        cmp = op in ("==", "!=", "<", ">", "<=", ">=")
        w = None if cmp else want
        if self.is_lit(e.l) and not self.is_lit(e.r):
            r, ty = self.ex(e.r, pre, w)
            l, _ = self.ex(e.l, pre, ty)
        else:
            l, ty = self.ex(e.l, pre, w)
            if op in ("<<", ">>"):
                if not self.is_lit(e.r) or ty not in INTS:
                    raise Unsupported("shift by a non-literal", e.line)
                n = self.const_eval(e.r)
                if n >= INTS[ty][2]:
                    raise Unsupported("shift by %d on %s" % (n, ty), e.line)
                return "(%s %s %s)" % (l, "<<<" if op == "<<" else ">>>", self.lit(n, ty, e.line)), ty
            r, rty = self.ex(e.r, pre, ty)
            if not self.same(rty, ty):
                raise Unsupported("operands of `%s` have types %s and %s" % (op, type_str(ty), type_str(rty)), e.line)
        if cmp:
            if op in ("==", "!="):
                if not self.has_eq(ty):
                    raise Unsupported("`%s` on `%s`" % (op, type_str(ty)), e.line)
                return "(%s %s %s)" % (l, op, r), "bool"
            if ty in INTS:
                return "(decide (%s %s %s))" % (l, {"<": "<", ">": ">", "<=": "≤", ">=": "≥"}[op], r), "bool"
            if ty == "i64":
                return "(I64.%s %s %s)" % ({"<": "lt", ">": "gt", "<=": "le", ">=": "ge"}[op], l, r), "bool"
            raise Unsupported("comparison on `%s`" % type_str(ty), e.line)
        if op in ("&", "|", "^"):
            if ty not in INTS:
                raise Unsupported("`%s` on `%s`" % (op, type_str(ty)), e.line)
            return "(%s %s %s)" % (l, {"&": "&&&", "|": "|||", "^": "^^^"}[op], r), ty
        if op in ("+", "-", "*"):
            nm = {"+": "add", "-": "sub", "*": "mul"}[op]
            if ty in INTS:
                pre.append("Flow.bind (Flow.arith ov (%s.%sOk %s %s)) fun () =>" % (INTS[ty][0], nm, l, r))
                return "(%s %s %s)" % (l, op, r), ty
            if ty == "i64" and op == "-":
                pre.append("Flow.bind (Flow.arith ov (I64.subOk %s %s)) fun () =>" % (l, r))
                return "(I64.sub %s %s)" % (l, r), ty
        raise Unsupported("operator `%s` on `%s`" % (op, type_str(ty)), e.line)

    def same(self, a, b):
        if is_bytes(a) and is_bytes(b):
            return True
        if isinstance(a, tuple) and isinstance(b, tuple) and a[0] == b[0] and a[0] in ("option", "result", "list"):
            return self.same(a[1], b[1])
        return a == b

    def has_eq(self, t):
        if is_int(t) or t == "bool" or is_bytes(t):
            return True
        if isinstance(t, tuple) and t[0] == "option":
            return self.has_eq(t[1])
        if isinstance(t, tuple) and t[0] == "enum":
            return t[1] not in self.generic_types
        return False

    def pure(self, e):
        """free of effects and panics (for arguments of logging / error macros and closure bodies)"""
        k = e.kind
        if k in ("int", "str", "bstr", "unit", "path"):
            return True
        if k in ("paren", "ref"):
            return self.pure(e.expr)
        if k == "unary":
            return self.pure(e.expr)
        if k == "field":
            return self.pure(e.base)
        if k == "cast":
            return self.pure(e.expr)
        if k == "bin" and e.op in ("&", "|", "^", "==", "!=", "<", ">", "<=", ">=", "&&", "||"):
            return self.pure(e.l) and self.pure(e.r)
        if k == "mcall" and e.name in ("len", "remaining", "first", "is_empty") and not e.args:
            return self.pure(e.base)
        return False


def indent_text(s, n):
    return "\n".join(("  " * n) + x for x in s.split("\n"))


# --------------------------------------------------------------------------------------------
# assumed externals: field of `Ext` -> (Lean type, doc, (role, owner-key, fn name, expected signature) or None)
# --------------------------------------------------------------------------------------------
EXT = [
    ("body", "Octo.VmessBodyGen.Ext CM XR W", "the assumed externals of the body codec (`Octo.VmessBodyGen.Ext`: `CipherMethod`, SHAKE128 reader, `dice::fill_bytes`)", None),
    ("utf8_ok", "List UInt8 → Bool", "`String::from_utf8(v).is_ok()` (parameter `utf8Ok` of `Octo.VmessAddrGen.read_address_port`)", None),
    ("kdf16", "List UInt8 → List (List UInt8) → List UInt8", "`kdf::kdf16(key, path)`: the nested HMAC-SHA256 tree of kdf.rs, first 16 bytes",
     ("kdf", None, "kdf16", "pub fn kdf16 ( key : & [ u8 ] , path : Vec < & [ u8 ] > ) -> [ u8 ; 16 ]")),
    ("kdfn", "Usize → List UInt8 → List (List UInt8) → List UInt8", "`kdf::kdfn::<N>(key, path)`: first `N` bytes (zero-filled beyond 32)",
     ("kdf", None, "kdfn", "pub fn kdfn < const N : usize > ( key : & [ u8 ] , path : Vec < & [ u8 ] > ) -> [ u8 ; N ]")),
    ("gcm_new", "List UInt8 → RResult GCM", "`Aes128Gcm::new_from_slice(key)` (`Err(InvalidLength)` unless 16 bytes)", None),
    ("gcm_encrypt", "GCM → List UInt8 → List UInt8 → List UInt8 → RResult (List UInt8)",
     "`Aead::encrypt(&self, nonce, Payload { msg, aad })`: arguments (cipher, nonce, msg, aad); ciphertext ‖ tag", None),
    ("gcm_decrypt", "GCM → List UInt8 → List UInt8 → List UInt8 → RResult (List UInt8)",
     "`Aead::decrypt(&self, nonce, Payload { msg, aad })`: arguments (cipher, nonce, msg, aad)", None),
    ("gcm_decrypt_in_place", "GCM → List UInt8 → List UInt8 → List UInt8 → List UInt8 × RResult Unit",
     "`AeadInPlace::decrypt_in_place(&self, nonce, aad, buffer)`: (final buffer, result)", None),
    ("ecb_decrypt", "List UInt8 → List UInt8 → Res (List UInt8)",
     "`Aes128EcbNoPadding::decrypt(key, buf)`: the final buffer (panics - `expect` - on a short key / a length that is no multiple of 16)",
     ("crypto", None, "decrypt", "pub fn decrypt ( key : & [ u8 ] , buf : & mut [ u8 ] )")),
    ("crc32", "List UInt8 → UInt32", "`vmess::crc32(bytes)` (CRC-32/ISO-HDLC)",
     ("vmess", None, "crc32", "pub fn crc32 ( bytes : & [ u8 ] ) -> u32")),
    ("fnv1a32", "List UInt8 → UInt32", "`util::fnv::fnv1a32(data)`",
     ("util", ("mod", "fnv"), "fnv1a32", "pub fn fnv1a32 ( data : & [ u8 ] ) -> u32")),
    ("now", "W → W × RResult I64", "`vmess::now()`: the clock, whole seconds since the epoch as i64 (`Err` when the system time is before it); `W` = the world the clock is read from",
     ("vmess", None, "now", "pub fn now ( ) -> Result < i64 , SystemTimeError >")),
    ("server_session_new", "List UInt8 → List UInt8 → UInt8 → ServerSession",
     "`ServerSession::new(request_body_iv, request_body_key, response_header)` (response IV / key = SHA-256 of the request's, 16 bytes)",
     ("session", "ServerSession", "new", "pub fn new ( request_body_iv : [ u8 ; 16 ] , request_body_key : [ u8 ; 16 ] , response_header : u8 ) -> Self")),
    ("new_decoder", "RequestHeader → DynSession → DynSession × RResult (AEADBodyCodec CM XR)",
     "`AEADBodyCodec::new_decoder(header, session)`: (final `*session`, result)",
     ("body", "AEADBodyCodec", "new_decoder", "pub fn new_decoder ( header : & RequestHeader , session : & mut dyn Session ) -> Result < Self , InvalidLength >")),
]
EXT.append(("new_encoder", "RequestHeader → DynSession → DynSession × RResult (AEADBodyCodec CM XR)",
            "`AEADBodyCodec::new_encoder(header, session)`: (final `*session`, result)",
            ("body", "AEADBodyCodec", "new_encoder", "pub fn new_encoder ( header : & RequestHeader , session : & mut dyn Session ) -> Result < Self , InvalidLength >")))
EXT_SIGS_IMPORTED = [
    ("body", "AEADBodyCodec", "encode_payload",
     "pub fn encode_payload ( & mut self , mut src : BytesMut , dst : & mut BytesMut , session : & mut dyn Session ) -> Result < ( ) , aead :: Error >"),
    ("body", "AEADBodyCodec", "encode_packet",
     "pub fn encode_packet ( & mut self , mut src : BytesMut , dst : & mut BytesMut , session : & mut dyn Session ) -> Result < ( ) , aead :: Error >"),
    ("body", "AEADBodyCodec", "decode_payload",
     "pub fn decode_payload ( & mut self , src : & mut BytesMut , session : & mut dyn Session ) -> Result < Option < BytesMut > , aead :: Error >"),
    ("body", "AEADBodyCodec", "decode_packet",
     "pub fn decode_packet ( & mut self , src : & mut BytesMut , session : & mut dyn Session ) -> Result < Option < BytesMut > , aead :: Error >"),
    ("vmess", ("mod", "address"), "read_address_port", "pub fn read_address_port ( buf : & mut Bytes ) -> Result < Address , FromUtf8Error >"),
]
USE_SUFFIX = {
    "kdf": ["aead", "kdf"], "auth_id": ["aead", "auth_id"], "encrypt": ["aead", "encrypt"], "address": ["vmess", "address"],
    "fnv": ["util", "fnv"], "AEADBodyCodec": ["codec", "vmess", "aead", "AEADBodyCodec"], "Aes128Gcm": ["aes_gcm", "Aes128Gcm"],
    "Aes128EcbNoPadding": ["crypto", "Aes128EcbNoPadding"], "vmess": ["protocol", "vmess"], "Cursor": ["io", "Cursor"],
    "RequestHeader": ["vmess", "header", "RequestHeader"], "RequestCommand": ["vmess", "header", "RequestCommand"],
    "RequestOption": ["vmess", "header", "RequestOption"], "SecurityType": ["vmess", "header", "SecurityType"],
    "ServerSession": ["vmess", "session", "ServerSession"], "ClientSession": ["vmess", "session", "ClientSession"],
    "InboundIn": ["template", "message", "InboundIn"], "Bytes": ["bytes", "Bytes"], "BytesMut": ["bytes", "BytesMut"],
    "bail": ["anyhow", "bail"], "anyhow": ["anyhow", "anyhow"], "debug": ["log", "debug"], "info": ["log", "info"],
    "size_of": ["mem", "size_of"], "Payload": ["aead", "Payload"], "OutboundIn": ["template", "message", "OutboundIn"],
}


class Gen2(Gen):
    def require_use(self, name, line):
        """`name` must be bound by a `use` item of the current file to the path the translator assumes"""
        if name not in USE_SUFFIX:
            return
        got = self.uses.get(name)
        suf = USE_SUFFIX[name]
        if got is None:
            if name in ("kdf", "auth_id", "encrypt") and any(g[-1] == "aead" for g in self.globs):
                return
            if name == "vmess" and self.cur_module in ("auth_id",):
                got = self.uses.get("vmess")
            if got is None:
                raise Unsupported("`%s` is not bound by a `use` item" % name, line)
        if got[0] == "super" and got[-1] == name and self.cur_module in ("auth_id", "encrypt"):
            self.checked_uses.add(name)
            return
        if got[-len(suf):] != suf:
            raise Unsupported("`%s` is bound to `%s`, expected `..::%s`" % (name, "::".join(got), "::".join(suf)), line)
        self.checked_uses.add(name)

    def use_ext(self, f):
        self.ext_used.add(f)
        return "X.%s" % f

    # -- macros
    def ex_macro(self, e, pre, want):
        if e.name == "vec":
            if e.rep is not None:
                raise Unsupported("`vec![v; n]`", e.line)
            parts = [self.ex(a, pre) for a in e.args]
            if all(is_bytes(p[1]) for p in parts):
                return "[%s]" % ", ".join(p[0] for p in parts), ("list", ("bytes", None))
            if parts and all(p[1] == parts[0][1] for p in parts):
                return "[%s]" % ", ".join(p[0] for p in parts), ("list", parts[0][1])
            raise Unsupported("`vec![..]` of mixed types", e.line)
        raise Unsupported("macro `%s!` in expression position" % e.name, e.line)

    def ex_structlit(self, e, pre, want):
        name = e.segs[-1]
        if name == "Self" and isinstance(self.cur.selfty, tuple):
            name = self.cur.selfty[1]
        if name not in self.structs:
            raise Unsupported("struct literal `%s`" % name, e.line)
        st = self.structs[name]
        given = dict(e.fields)
        if set(given) != {f.name for f in st.fields}:
            raise Unsupported("struct literal `%s` does not name every field" % name, e.line)
        parts = []
        for f in st.fields:
            fty = self.resolve_type(f.ty, ("struct", name))
            t, ty = self.ex(given[f.name], pre, fty)
            if not self.same(ty, fty):
                raise Unsupported("field `%s`: %s where %s is expected" % (f.name, type_str(ty), type_str(fty)), e.line)
            parts.append("%s := %s" % (f.name, t))
        return "({ %s } : %s)" % (", ".join(parts), self.lt(("struct", name))), ("struct", name)

    # -- calls
    def args_of(self, e, tys, pre):
        if len(e.args) != len(tys):
            raise Unsupported("`%s`: %d arguments" % (show_expr(e), len(e.args)), e.line)
        out = []
        for a, ty in zip(e.args, tys):
            t, got = self.ex(a, pre, ty)
            if ty is not None and not self.same(got, ty):
                raise Unsupported("argument `%s` has type %s, expected %s" % (show_expr(a), type_str(got), type_str(ty)), a.line)
            out.append(t)
        return out

    def from_be_bytes(self, e, pre, ty):
        n = {"u16": 2, "u32": 4, "i32": 4, "i64": 8}[ty]
        fn = "%s.from_be_bytes" % PREFIX[ty]
        a = e.args[0]
        # `x.try_into().unwrap()` / `x.try_into().map_err(..)?` / an array
        if a.kind == "mcall" and a.name == "unwrap" and a.base.kind == "mcall" and a.base.name == "try_into":
            t, bty = self.ex(a.base.base, pre)
            if not is_bytes(bty):
                raise Unsupported("`try_into` on `%s`" % type_str(bty), e.line)
            if bty[1] != n:
                pre.append("Flow.bind (Flow.check (decide ((%s).length = %d))) fun () =>" % (t, n))
            return "(%s %s)" % (fn, t), ty
        if a.kind == "try" and a.expr.kind == "mcall" and a.expr.name == "map_err" and a.expr.base.kind == "mcall" \
                and a.expr.base.name == "try_into":
            self.check_err_map(a.expr.args, a.line)
            t, bty = self.ex(a.expr.base.base, pre)
            if not is_bytes(bty):
                raise Unsupported("`try_into` on `%s`" % type_str(bty), e.line)
            v = self.fresh()
            pre.append("Flow.bind (Flow.question (RResult.try_into_array %s %d) %s) fun %s =>" % (t, n, self.on_err(), v))
            return "(%s %s)" % (fn, v), ty
        t, bty = self.ex(a, pre)
        if not is_bytes(bty):
            raise Unsupported("`from_be_bytes` of `%s`" % type_str(bty), e.line)
        if bty[1] != n:
            if bty[1] is not None:
                raise Unsupported("`from_be_bytes` of %d bytes" % bty[1], e.line)
            pre.append("Flow.bind (Flow.check (decide ((%s).length = %d))) fun () =>" % (t, n))
        return "(%s %s)" % (fn, t), ty

    def check_err_map(self, args, line):
        if len(args) != 1 or args[0].kind != "closure" or len(args[0].params) != 1:
            raise Unsupported("`map_err` with something other than a one-parameter closure", line)
        b = args[0].body
        ok = b.kind == "macro" and b.name == "anyhow" and all(a.kind == "str" or (a.kind == "path" and a.segs == [args[0].params[0]])
                                                               for a in b.args)
        if not ok:
            raise Unsupported("`map_err(%s)`: only `|e| anyhow!(e)` / `|_| anyhow!(\"..\")`" % show_expr(args[0]), line)
        self.require_use("anyhow", line)

    def ex_call(self, e, pre, want):
        segs = e.segs
        name = segs[-1]
        q = segs[-2] if len(segs) >= 2 else None
        if segs == ["Ok"] or segs == ["Some"]:
            kind = "result" if name == "Ok" else "option"
            inner = want[1] if isinstance(want, tuple) and want[0] == kind else None
            if len(e.args) != 1:
                raise Unsupported("`%s`" % show_expr(e), e.line)
            t, ty = self.ex(e.args[0], pre, inner)
            return ("(RResult.ok %s)" if name == "Ok" else "(some %s)") % t, (kind, ty)
        if q == "Box" and name == "new":
            return self.ex(e.args[0], pre, want)
        if q in ("Bytes", "BytesMut") and name == "from" and len(e.args) == 1:
            self.require_use(q, e.line)
            t, ty = self.ex(e.args[0], pre)
            if not is_bytes(ty):
                raise Unsupported("`%s::from` of `%s`" % (q, type_str(ty)), e.line)
            return t, ("bytes", None)
        if q in ("BytesMut", "Vec") and name == "new" and not e.args:
            return "([] : List UInt8)", ("bytes", None)
        if q == "Cursor" and name == "new" and len(e.args) == 1:
            self.require_use("Cursor", e.line)
            p = self.place_of(e.args[0])
            if p is None or p[1] or not is_bytes(p[0].ty):
                raise Unsupported("`Cursor::new` of something other than a buffer variable", e.line)
            self.cursor_origin = p[0]
            return "(IoCursor.new %s)" % p[0].lean, "IoCursor"
        if name == "from_be_bytes" and q in ("u16", "u32", "i32", "i64") and len(e.args) == 1:
            return self.from_be_bytes(e, pre, q)
        if name == "size_of" and e.targs and len(e.targs) == 1 and e.targs[0].kind == "tname" and e.targs[0].segs[-1] in SIZE_OF:
            self.require_use("size_of", e.line)
            return "Mem.size_of_%s" % e.targs[0].segs[-1], "usize"
        if q == "Aes128Gcm" and name == "new_from_slice":
            self.require_use("Aes128Gcm", e.line)
            (k,) = self.args_of(e, [("bytes", None)], pre)
            return "(%s %s)" % (self.use_ext("gcm_new"), k), ("result", "GCM")
        if q == "Aes128EcbNoPadding" and name == "decrypt" and len(e.args) == 2:
            self.require_use("Aes128EcbNoPadding", e.line)
            k, _ = self.ex(e.args[0], pre, ("bytes", None))
            p = self.place_of(e.args[1])
            if p is None or e.args[1].kind != "ref" or not e.args[1].mut:
                raise Unsupported("`decrypt` needs `&mut` of a place", e.line)
            nv = self.bind_place(*p)
            pre.append("Flow.bind (Flow.call (%s %s %s)) fun %s =>" % (self.use_ext("ecb_decrypt"), k, self.place_term(*p), nv))
            self.write_place(p[0], p[1], nv, pre)
            return "()", "unit"
        if q == "kdf" and name in ("kdf16", "kdfn"):
            self.require_use("kdf", e.line)
            k, p = self.args_of(e, [("bytes", None), ("list", ("bytes", None))], pre)
            if name == "kdf16":
                return "(%s %s %s)" % (self.use_ext("kdf16"), k, p), ("bytes", 16)
            if not (is_bytes(want) and want[1] is not None):
                raise Unsupported("`kdf::kdfn` whose length `N` is not given by the declared type", e.line)
            return "(%s (%d : Usize) %s %s)" % (self.use_ext("kdfn"), want[1], k, p), want
        if q == "vmess" and name == "crc32":
            self.require_use("vmess", e.line)
            (b,) = self.args_of(e, [("bytes", None)], pre)
            return "(%s %s)" % (self.use_ext("crc32"), b), "u32"
        if q == "fnv" and name == "fnv1a32":
            self.require_use("fnv", e.line)
            (b,) = self.args_of(e, [("bytes", None)], pre)
            return "(%s %s)" % (self.use_ext("fnv1a32"), b), "u32"
        if q == "vmess" and name == "now" and not e.args:
            self.require_use("vmess", e.line)
            if not self.cur.effect:
                raise Unsupported("internal: clock read in a function not marked as reading the clock", e.line)
            v = self.fresh()
            pre.append("Flow.bind (Flow.next (%s w_)) fun (w_, %s) =>" % (self.use_ext("now"), v))
            self.log.add(self.w_var)
            return v, ("result", "i64")
        if q == "address" and name == "read_address_port" and len(e.args) == 1:
            self.require_use("address", e.line)
            p = self.place_of(e.args[0])
            if p is None or not is_bytes(self.place_type(p[0], p[1], e.line)):
                raise Unsupported("`read_address_port` needs `&mut` of a buffer", e.line)
            nv, v = self.bind_place(*p), self.fresh()
            pre.append("Flow.bind (Flow.call (Octo.VmessAddrGen.read_address_port ov %s %s)) fun (%s, %s) =>"
                       % (self.use_ext("utf8_ok"), self.place_term(*p), nv, v))
            self.write_place(p[0], p[1], nv, pre)
            self.imported.add("read_address_port")
            return "(RResult.ofVm %s)" % v, ("result", "Address")
        if segs == ["check_header_length"] and len(e.args) == 1:
            (h,) = self.args_of(e, [("bytes", None)], pre)
            v = self.fresh()
            pre.append("Flow.bind (Flow.call (Octo.VmessAddrGen.check_header_length ov %s)) fun %s =>" % (h, v))
            self.imported.add("check_header_length")
            return "(RResult.ofVm %s)" % v, ("result", "unit")
        if q == "ServerSession" and name == "new":
            self.require_use("ServerSession", e.line)
            a = self.args_of(e, [("bytes", 16), ("bytes", 16), "u8"], pre)
            return "(%s %s)" % (self.use_ext("server_session_new"), " ".join(a)), "ServerSession"
        if q == "AEADBodyCodec" and name in ("new_decoder", "new_encoder") and len(e.args) == 2:
            self.require_use("AEADBodyCodec", e.line)
            h, hty = self.ex(e.args[0], pre)
            if hty != ("struct", "RequestHeader"):
                raise Unsupported("`%s`: first argument of type %s" % (name, type_str(hty)), e.line)
            sess = self.dyn_arg(e.args[1], pre)
            vs, vr = self.fresh(), self.fresh()
            pre.append("Flow.bind (Flow.next (%s %s %s)) fun (%s, %s) =>" % (self.use_ext(name), h, sess[0], vs, vr))
            self.dyn_back(sess, vs, pre)
            return vr, ("result", "BodyCodec")
        # enum variant constructor
        en = q
        if en == "Self" and isinstance(self.cur.selfty, tuple) and self.cur.selfty[0] == "enum":
            en = self.cur.selfty[1]
        if en in self.enums:
            for va in self.enums[en].variants:
                if va.name == name and va.fields:
                    if en in USE_SUFFIX:
                        self.require_use(en, e.line)
                    tys = [self.resolve_type(f) for f in va.fields]
                    a = self.args_of(e, tys, pre)
                    return "(%s.%s %s)" % (en, name, " ".join(a)), ("enum", en)
        # translated function
        f = self.fn_of(segs, e.line)
        if f is not None:
            return self.call_fn(f, None, e.args, pre, e.line)
        raise Unsupported("call `%s`" % show_expr(e), e.line)

    def fn_of(self, segs, line):
        name = segs[-1]
        q = segs[-2] if len(segs) >= 2 else None
        if q == "Self" and isinstance(self.cur.selfty, tuple):
            q = self.cur.selfty[1]
        if q is None:
            return self.fns.get((("mod", self.cur_module), name)) or self.fns.get((None, name))
        if q in ("auth_id", "encrypt"):
            self.require_use(q, line)
            return self.fns.get((("mod", q), name))
        if q in ("RequestHeader", "RequestOption", "SecurityType"):
            if self.cur_module != "header":
                self.require_use(q, line)
            if q == "SecurityType" and name == "from":
                return self.fns.get((q, "From_u8_from"))
            return self.fns.get((q, name))
        return self.fns.get((q, name))

    def dyn_arg(self, a, pre):
        """an argument passed as `&mut dyn Session`: (term, place, concrete type)"""
        p = self.place_of(a)
        if p is None:
            raise Unsupported("`&mut dyn Session` argument that is not a place", a.line)
        ty = self.place_type(p[0], p[1], a.line)
        if ty == "DynSession":
            return self.place_term(*p), p, ty
        if ty not in ("ServerSession", "ClientSession"):
            raise Unsupported("`%s` passed as `&mut dyn Session`" % type_str(ty), a.line)
        return "(DynSession.%s %s)" % (ty, self.place_term(*p)), p, ty

    def dyn_back(self, sess, v, pre):
        _, p, ty = sess
        if ty == "DynSession":
            self.write_place(p[0], p[1], v, pre)
            return
        nv = self.bind_place(*p)
        pre.append("Flow.bind (Flow.as_%s %s) fun %s =>" % ("server" if ty == "ServerSession" else "client", v, nv))
        self.write_place(p[0], p[1], nv, pre)

    def call_fn(self, f, recv, arg_nodes, pre, line):
        if f.effect and not self.cur.effect:
            raise Unsupported("internal: call of a clock-reading function from one not marked so", line)
        if len(arg_nodes) != len(f.params):
            raise Unsupported("call of `%s` with %d arguments" % (f.lean, len(arg_nodes)), line)
        terms, outs, after = [], [], []
        if f.node.selfmode is not None:
            if recv is None:
                raise Unsupported("method `%s` called without a receiver" % f.lean, line)
            terms.append(self.place_term(*recv))
            if f.node.selfmode == "mut":
                nv = self.bind_place(*recv)
                outs.append(nv)
                after.append((recv, nv))
        if f.effect:
            terms.append("w_")
            outs.append("w_")
            self.log.add(self.w_var)
        for a, (pn, pty, pm) in zip(arg_nodes, f.params):
            if pm == "mut":
                p = self.place_of(a)
                if p is None:
                    raise Unsupported("`&mut` argument `%s` is not a place" % show_expr(a), a.line)
                got = self.place_type(p[0], p[1], a.line)
                if not self.same(got, pty):
                    raise Unsupported("argument `%s`: %s, expected %s" % (show_expr(a), type_str(got), type_str(pty)), a.line)
                terms.append(self.place_term(*p))
                nv = self.bind_place(*p)
                outs.append(nv)
                after.append((p, nv))
            else:
                t, got = self.ex(a, pre, pty)
                if not self.same(got, pty):
                    raise Unsupported("argument `%s`: %s, expected %s" % (show_expr(a), type_str(got), type_str(pty)), a.line)
                terms.append(t if " " not in t or t.startswith("(") else "(%s)" % t)
        rv = self.fresh()
        outs.append(rv)
        pat = outs[0] if len(outs) == 1 else "(%s)" % ", ".join(outs)
        rec = self.recursive_call(f)
        pre.append("Flow.bind (Flow.call (%s X ov %s)) fun %s =>" % (f.lean, " ".join(terms), pat) if terms else
                   "Flow.bind (Flow.call (%s X ov)) fun %s =>" % (f.lean, pat))
        for p, nv in after:
            self.write_place(p[0], p[1], nv, pre)
        return rv, f.ret

    def recursive_call(self, f):
        if f is self.cur:
            self.cur.recursive = True
        return f is self.cur

    def closure(self, c, ptypes, line):
        if c.kind != "closure" or len(c.params) != len(ptypes):
            raise Unsupported("closure expected", line)
        self.env.append({})
        names = []
        saved = list(self.all_vars)
        for p, ty in zip(c.params, ptypes):
            names.append(self.declare(p, ty).lean)
        pre2 = []
        t, ty = self.ex(c.body, pre2)
        self.env.pop()
        self.all_vars = saved
        if pre2:
            raise Unsupported("closure body `%s` can panic or has effects" % show_expr(c.body), line)
        return "(fun %s => %s)" % (" ".join(names), t), ty

    def ex_mcall(self, e, pre, want):
        name, b = e.name, e.base
        if name == "map_err":
            self.check_err_map(e.args, e.line)
            return self.ex(b, pre, want)
        if name in ("clone", "to_vec", "freeze", "to_owned", "as_ref") and not e.args:
            t, ty = self.ex(b, pre, want)
            if name != "clone" and not is_bytes(ty):
                raise Unsupported("`.%s()` on `%s`" % (name, type_str(ty)), e.line)
            return t, (("bytes", None) if name in ("to_vec", "freeze") else ty)
        if name == "into" and not e.args:
            t, ty = self.ex(b, pre, None if (isinstance(want, tuple) and want[0] == "bytes") else want)
            if ty == ("enum", "OutboundIn") and ("BytesMut", "From_OutboundIn_from") in self.fns:
                self.require_use("OutboundIn", e.line)
                return self.call_fn(self.fns[("BytesMut", "From_OutboundIn_from")], None, [b], pre, e.line)
            if not is_bytes(ty):
                raise Unsupported("`.into()` on `%s`" % type_str(ty), e.line)
            return t, ty
        # iterator idioms
        if name == "collect" and b.kind == "mcall" and b.name == "filter" and b.base.kind == "mcall" and b.base.name == "into_iter":
            l, lty = self.ex(b.base.base, pre)
            if not (isinstance(lty, tuple) and lty[0] == "list"):
                raise Unsupported("`into_iter` on `%s`" % type_str(lty), e.line)
            f, fty = self.closure(b.args[0], [lty[1]], e.line)
            if fty != "bool":
                raise Unsupported("filter closure that is not bool", e.line)
            return "(List.filter %s %s)" % (f, l), lty
        if name == "unwrap_or" and b.kind == "mcall" and b.name == "reduce" and b.base.kind == "mcall" and b.base.name == "map" \
                and b.base.base.kind == "mcall" and b.base.base.name == "iter":
            l, lty = self.ex(b.base.base.base, pre)
            if not (isinstance(lty, tuple) and lty[0] == "list"):
                raise Unsupported("`iter` on `%s`" % type_str(lty), e.line)
            f, fty = self.closure(b.base.args[0], [lty[1]], e.line)
            g, gty = self.closure(b.args[0], [fty, fty], e.line)
            d, dty = self.ex(e.args[0], pre, fty)
            if gty != fty or dty != fty:
                raise Unsupported("`reduce` closure type", e.line)
            return "(Option.getD (Iter.reduce %s (List.map %s %s)) %s)" % (g, f, l, d), fty
        # self / struct methods that are translated
        p = self.place_of(b)
        bty = self.place_type(p[0], p[1], e.line) if p is not None else None
        if isinstance(bty, tuple) and bty[0] in ("struct", "enum"):
            f = self.method_of(bty[1], name)
            if f is not None:
                return self.call_fn(f, p, e.args, pre, e.line)
        if bty == "BodyCodec" and name in ("decode_payload", "decode_packet") and len(e.args) == 2:
            src = self.place_of(e.args[0])
            if src is None or not is_bytes(self.place_type(src[0], src[1], e.line)):
                raise Unsupported("`%s`: source argument" % name, e.line)
            sess = self.dyn_arg(e.args[1], pre)
            nd, ns, vs, vr = self.bind_place(*p), self.bind_place(*src), self.fresh(), self.fresh()
            pre.append("Flow.bind (Flow.call (Octo.VmessBodyGen.AEADBodyCodec.%s X.body ov %s %s %s)) fun (%s, %s, %s, %s) =>"
                       % (name, self.place_term(*p), self.place_term(*src), sess[0], nd, ns, vs, vr))
            self.ext_used.add("body")
            self.imported.add(name)
            self.write_place(p[0], p[1], nd, pre)
            self.write_place(src[0], src[1], ns, pre)
            self.dyn_back(sess, vs, pre)
            return vr, ("result", ("option", ("bytes", None)))
        if b.kind == "mcall" and b.name == "into_inner" and not b.args and name == "advance":
            cp = self.place_of(b.base)
            if cp is None or self.place_type(cp[0], cp[1], e.line) != "IoCursor" or self.cursor_origin is None:
                raise Unsupported("`into_inner()` of something other than a cursor", e.line)
            o = self.cursor_origin
            pre.append("let %s : List UInt8 := %s.inner" % (o.lean, self.place_term(*cp)))
            self.rebind(o, pre)
            return self.buf_method(e, (o, []), o.ty, pre)
        if bty == "BodyCodec" and name in ("encode_payload", "encode_packet") and len(e.args) == 3:
            if not self.cur.effect:
                raise Unsupported("internal: body encoder (random padding) in a function not marked as using the world", e.line)
            item, ity = self.ex(e.args[0], pre, ("bytes", None))
            dst = self.place_of(e.args[1])
            if not is_bytes(ity) or dst is None or not is_bytes(self.place_type(dst[0], dst[1], e.line)):
                raise Unsupported("`%s`: arguments" % name, e.line)
            sess = self.dyn_arg(e.args[2], pre)
            nd, ndst, vs, vr = self.bind_place(*p), self.bind_place(*dst), self.fresh(), self.fresh()
            pre.append("Flow.bind (Flow.call (Octo.VmessBodyGen.AEADBodyCodec.%s X.body ov %s w_ %s %s %s)) fun (%s, w_, %s, %s, %s) =>"
                       % (name, self.place_term(*p), item, self.place_term(*dst), sess[0], nd, ndst, vs, vr))
            self.log.add(self.w_var)
            self.ext_used.add("body")
            self.imported.add(name)
            self.write_place(p[0], p[1], nd, pre)
            self.write_place(dst[0], dst[1], ndst, pre)
            self.dyn_back(sess, vs, pre)
            return vr, ("result", "unit")
        if p is not None and bty == "IoCursor":
            return self.io_method(e, p, pre)
        # value receivers
        if p is not None and is_bytes(bty) and name in ("get_u8", "get_u16", "get_u32", "advance", "split_to", "copy_to_slice",
                                                        "extend_from_slice", "copy_from_slice", "copy_to_bytes"):
            return self.buf_method(e, p, bty, pre)
        t, ty = self.ex(b, pre)
        if is_bytes(ty):
            if name in ("len", "remaining") and not e.args:
                return "(Cursor.%s %s)" % (name, t), "usize"
            if name in ("is_empty", "has_remaining") and not e.args:
                return "(Cursor.%s %s)" % (name, t), "bool"
            if name == "first" and not e.args:
                return "(List.head? %s)" % t, ("option", "u8")
            if name == "split_at" and len(e.args) == 1:
                (n,) = self.args_of(e, ["usize"], pre)
                v1, v2 = self.fresh(), self.fresh()
                pre.append("Flow.bind (Flow.split_at %s %s) fun (%s, %s) =>" % (t, n, v1, v2))
                return "(%s, %s)" % (v1, v2), ("tuple", (("bytes", None), ("bytes", None)))
        if ty in ("u16", "u32") and name == "to_be_bytes" and not e.args:
            return "(%s.to_be_bytes %s)" % (PREFIX[ty], t), ("bytes", INTS[ty][2] // 8)
        if ty == "i64" and name == "abs" and not e.args:
            pre.append("Flow.bind (Flow.arith ov (I64.absOk %s)) fun () =>" % t)
            return "(I64.abs %s)" % t, "i64"
        if isinstance(ty, tuple) and ty[0] == "option":
            if name == "unwrap_or_default" and not e.args and is_bytes(ty[1]):
                return "(Option.getD %s ([] : List UInt8))" % t, ty[1]
            if name == "unwrap_or" and len(e.args) == 1:
                d, dty = self.ex(e.args[0], pre, ty[1])
                return "(Option.getD %s %s)" % (t, d), ty[1]
            if name == "unwrap" and not e.args:
                v = self.fresh()
                pre.append("Flow.bind (Flow.unwrap %s) fun %s =>" % (t, v))
                return v, ty[1]
            if name in ("is_some", "is_none") and not e.args:
                return "(Option.%s %s)" % ("isSome" if name == "is_some" else "isNone", t), "bool"
        if ty == "GCM" and name in ("decrypt", "encrypt") and len(e.args) == 2 and e.args[1].kind == "structlit" and e.args[1].segs[-1] == "Payload":
            self.require_use("Payload", e.line)
            fl = dict(e.args[1].fields)
            if set(fl) != {"msg", "aad"}:
                raise Unsupported("`Payload` literal", e.line)
            n, _ = self.ex(e.args[0], pre, ("bytes", None))
            m, mty = self.ex(fl["msg"], pre, ("bytes", None))
            a, aty = self.ex(fl["aad"], pre, ("bytes", None))
            if not (is_bytes(mty) and is_bytes(aty)):
                raise Unsupported("`Payload` fields", e.line)
            return "(%s %s %s %s %s)" % (self.use_ext("gcm_" + name), t, n, m, a), ("result", ("bytes", None))
        if ty == "GCM" and name == "decrypt_in_place" and len(e.args) == 3:
            n, _ = self.ex(e.args[0], pre, ("bytes", None))
            a, aty = self.ex(e.args[1], pre, ("bytes", 0))
            bp = self.place_of(e.args[2])
            if bp is None or not is_bytes(self.place_type(bp[0], bp[1], e.line)) or not is_bytes(aty):
                raise Unsupported("`decrypt_in_place` arguments", e.line)
            nb, vr = self.bind_place(*bp), self.fresh()
            pre.append("Flow.bind (Flow.next (%s %s %s %s %s)) fun (%s, %s) =>"
                       % (self.use_ext("gcm_decrypt_in_place"), t, n, a, self.place_term(*bp), nb, vr))
            self.write_place(bp[0], bp[1], nb, pre)
            return vr, ("result", "unit")
        raise Unsupported("method call `%s` on `%s`" % (show_expr(e), type_str(ty)), e.line)

    def method_of(self, tyname, name):
        f = self.fns.get((tyname, name))
        if f is not None:
            return f
        for (o, n), fi in self.fns.items():
            if o == tyname and fi.node.trait is not None and fi.node.name == name:
                return fi
        return None

    def buf_method(self, e, p, bty, pre):
        name = e.name
        cur = self.place_term(*p)
        nb = self.bind_place(*p)
        if name in ("get_u8", "get_u16", "get_u32") and not e.args:
            v = self.fresh()
            pre.append("Flow.bind (Flow.%s %s) fun (%s, %s) =>" % (name, cur, nb, v))
            self.write_place(p[0], p[1], nb, pre)
            return v, name[4:]
        if name == "advance" and len(e.args) == 1:
            (n,) = self.args_of(e, ["usize"], pre)
            pre.append("Flow.bind (Flow.advance %s %s) fun %s =>" % (self.place_term(*p), n, nb))
            self.write_place(p[0], p[1], nb, pre)
            return "()", "unit"
        if name in ("split_to", "copy_to_bytes") and len(e.args) == 1:
            (n,) = self.args_of(e, ["usize"], pre)
            v = self.fresh()
            pre.append("Flow.bind (Flow.%s %s %s) fun (%s, %s) =>" % (name, self.place_term(*p), n, nb, v))
            self.write_place(p[0], p[1], nb, pre)
            return v, ("bytes", None)
        if name == "copy_to_slice" and len(e.args) == 1:
            d = self.place_of(e.args[0])
            if d is None or not is_bytes(self.place_type(d[0], d[1], e.line)):
                raise Unsupported("`copy_to_slice` destination", e.line)
            nd = self.bind_place(*d)
            pre.append("Flow.bind (Flow.copy_to_slice %s (Cursor.len %s)) fun (%s, %s) =>" % (cur, self.place_term(*d), nb, nd))
            self.write_place(p[0], p[1], nb, pre)
            self.write_place(d[0], d[1], nd, pre)
            return "()", "unit"
        if name == "extend_from_slice" and len(e.args) == 1:
            (s,) = self.args_of(e, [("bytes", None)], pre)
            self.write_place(p[0], p[1], "(Cursor.extend_from_slice %s %s)" % (self.place_term(*p), s), pre)
            return "()", "unit"
        if name == "copy_from_slice" and len(e.args) == 1:
            (s,) = self.args_of(e, [("bytes", None)], pre)
            pre.append("Flow.bind (Flow.copy_from_slice %s %s) fun %s =>" % (self.place_term(*p), s, nb))
            self.write_place(p[0], p[1], nb, pre)
            return "()", "unit"
        raise Unsupported("method `%s`" % show_expr(e), e.line)

    def io_method(self, e, p, pre):
        name = e.name
        c = self.place_term(*p)
        if name in ("remaining", "position") and not e.args:
            return "(IoCursor.%s %s)" % (name, c), ("usize" if name == "remaining" else "u64")
        if name == "copy_to_bytes" and len(e.args) == 1:
            (n,) = self.args_of(e, ["usize"], pre)
            nb, v = self.bind_place(*p), self.fresh()
            pre.append("Flow.bind (Flow.io_copy_to_bytes %s %s) fun (%s, %s) =>" % (self.place_term(*p), n, nb, v))
            self.write_place(p[0], p[1], nb, pre)
            return v, ("bytes", None)
        if name == "copy_to_slice" and len(e.args) == 1:
            d = self.place_of(e.args[0])
            if d is None or not is_bytes(self.place_type(d[0], d[1], e.line)):
                raise Unsupported("`copy_to_slice` destination", e.line)
            nb, nd = self.bind_place(*p), self.bind_place(*d)
            pre.append("Flow.bind (Flow.io_copy_to_slice %s (Cursor.len %s)) fun (%s, %s) =>" % (c, self.place_term(*d), nb, nd))
            self.write_place(p[0], p[1], nb, pre)
            self.write_place(d[0], d[1], nd, pre)
            return "()", "unit"
        if name == "into_inner" and not e.args:
            # the borrowed buffer again: (never changed through the cursor) = the variable the cursor was made from
            return "%s.inner" % c, ("bytes", None)
        raise Unsupported("method `%s` of a cursor" % show_expr(e), e.line)


class Gen3(Gen2):
    # -- output
    def emit(self, ind, text):
        for ln in text.split("\n"):
            self.lines.append("  " * ind + ln)

    def emit_pre(self, ind, pre):
        for p in pre:
            self.emit(ind, p)

    def dry(self, thunk):
        saved = (len(self.lines), self.fresh_n, list(self.all_vars), self.order, [dict(f) for f in self.env], self.log,
                 self.cursor_origin, set(self.ext_used), set(self.imported), set(self.checked_uses), getattr(self.cur, "recursive", False),
                 dict(self.local_consts), set(self.crate_consts_used))
        self.log = set()
        try:
            thunk()
            return self.log
        finally:
            del self.lines[saved[0]:]
            (_, self.fresh_n, self.all_vars, self.order, self.env, self.log, self.cursor_origin, self.ext_used, self.imported,
             self.checked_uses, rec, self.local_consts, self.crate_consts_used) = saved
            self.cur.recursive = rec

    def carried_of(self, thunk):
        mark = self.order
        visible = {id(v) for fr in self.env for v in fr.values()}
        log = self.dry(thunk)
        return sorted([v for v in log if v.order <= mark and id(v) in visible], key=lambda v: v.order)

    def tuple_pat(self, names):
        if not names:
            return "()"
        return names[0] if len(names) == 1 else "(%s)" % ", ".join(names)

    def finish(self, mode, ind, val):
        """end of a branch: `val` = (term, type) of the value it yields, or None"""
        if mode["kind"] == "fn":
            if val is None:
                if self.cur.ret != "unit":
                    raise Unsupported("a path through `%s` yields no value" % self.cur.node.name, self.cur.node.line)
                val = ("()", "unit")
            if not self.same(val[1], self.cur.ret):
                raise Unsupported("value of type %s where the function returns %s" % (type_str(val[1]), type_str(self.cur.ret)),
                                  self.cur.node.line)
            self.emit(ind, "Flow.ret %s" % self.ret_term(val[0]))
            return
        names = [v.lean for v in mode["carried"]]
        if mode["value"]:
            if val is None:
                raise Unsupported("a branch yields no value", self.cur.node.line)
            if mode.get("vty") is None:
                mode["vty"] = val[1]
            elif not self.same(mode["vty"], val[1]):
                raise Unsupported("branches yield %s and %s" % (type_str(mode["vty"]), type_str(val[1])), self.cur.node.line)
            names = names + [val[0]]
        self.emit(ind, "Flow.next %s" % self.tuple_pat(names))

    def want_of(self, mode):
        if mode["kind"] == "fn":
            return self.cur.ret
        return mode.get("vty") if mode["value"] else None

    # -- blocks
    def block(self, blk, ind, mode):
        self.env.append({})
        saved_consts = dict(self.local_consts)
        dead = False
        for s in blk.stmts:
            if dead:
                raise Unsupported("statement after `return` / `bail!`", s.line)
            dead = self.stmt(s, ind, mode)
        if not dead:
            t = blk.tail
            if t is None:
                self.finish(mode, ind, None)
            elif t.kind in ("if", "iflet", "match"):
                self.emit(ind, "-- L%d: %s" % (t.line, show_expr(t)))
                self.cf(t, ind, mode)
            elif t.kind == "return" or (t.kind == "macro" and t.name in ("bail", "panic")):
                self.stmt(Node("expr", t.line, expr=t), ind, mode)
            elif t.kind == "block":
                self.block(t, ind, mode)
            else:
                self.emit(ind, "-- L%d: %s   (value of the block)" % (t.line, show_expr(t)))
                pre = []
                val = self.ex(t, pre, self.want_of(mode))
                self.emit_pre(ind, pre)
                self.finish(mode, ind, val if (mode["kind"] == "fn" or mode["value"]) else None)
        elif blk.tail is not None:
            raise Unsupported("expression after `return` / `bail!`", blk.tail.line)
        self.local_consts = saved_consts
        self.env.pop()

    def stmt(self, s, ind, mode):
        """emit one statement; True when control does not continue (return / bail!)"""
        if s.kind == "lconst":
            ty = self.resolve_type(s.ty)
            v = self.const_eval(s.expr)
            self.emit(ind, "-- L%d: const %s: %s = %s;" % (s.line, s.name, show_type(s.ty), show_expr(s.expr)))
            self.emit(ind, "let %s : %s := %s" % (s.name, self.lt(ty), self.lit(v, ty, s.line)))
            self.local_consts[s.name] = (ty, s.name, v)
            return False
        if s.kind == "let":
            self.emit(ind, "-- L%d: let %s%s = %s;" % (s.line, show_pat(s.pat), (": " + show_type(s.ty)) if s.ty else "", show_expr(s.expr)))
            want = self.resolve_type(s.ty, self.cur.selfty) if s.ty else None
            e = s.expr
            if e.kind in ("if", "iflet", "match"):
                car = self.carried_of(lambda: self.cf(e, ind + 1, {"kind": "next", "carried": [], "value": True, "vty": want}))
                m = {"kind": "next", "carried": car, "value": True, "vty": want}
                self.emit(ind, "Flow.bind (")
                self.cf(e, ind + 1, m)
                v = self.fresh()
                self.emit(ind, ") fun %s =>" % self.tuple_pat([c.lean for c in car] + [v]))
                for c in car:
                    self.log.add(c)
                term, ty = v, m["vty"]
            else:
                pre = []
                term, ty = self.ex(e, pre, want)
                self.emit_pre(ind, pre)
                if e.kind == "call" and e.segs[-2:] == ["Cursor", "new"]:
                    pass
            if want is not None:
                if not self.same(ty, want):
                    raise Unsupported("`let %s: %s` initialised with %s" % (show_pat(s.pat), type_str(want), type_str(ty)), s.line)
                if is_bytes(want) and want[1] is None:
                    want = ty
                ty = want if not is_bytes(want) or want[1] is not None else ty
            self.bind_let(s.pat, term, ty, ind, s.line)
            return False
        e = s.expr
        k = e.kind
        if k == "macro" and e.name in LOG_MACROS:
            self.require_use(e.name, e.line)
            args = [a for a in e.args if a.kind != "str"]
            if all(self.pure(a) for a in args):
                self.emit(ind, "-- L%d: %s;   (logging: arguments free of effects)" % (e.line, show_expr(e)))
                return False
            before = set(self.log)
            pre = []
            for a in args:
                self.ex(a, pre)
            if self.log != before:
                raise Unsupported("logging macro whose arguments change state", e.line)
            self.emit(ind, "-- L%d: %s;   (logging: the arguments are evaluated only when the level is enabled)" % (e.line, show_expr(e)))
            self.emit(ind, "Flow.bind (")
            self.emit(ind + 1, "if %s then" % self.use_ext("log_enabled"))
            self.emit_pre(ind + 2, pre)
            self.emit(ind + 2, "Flow.next ()")
            self.emit(ind + 1, "else Flow.next ()")
            self.emit(ind, ") fun () =>")
            return False
        if k == "macro" and e.name == "bail":
            self.require_use("bail", e.line)
            if not all(self.pure(a) for a in e.args if a.kind != "str"):
                raise Unsupported("`bail!` whose format arguments are not free of effects", e.line)
            if not (isinstance(self.cur.ret, tuple) and self.cur.ret[0] == "result"):
                raise Unsupported("`bail!` in a function that does not return a Result", e.line)
            self.emit(ind, "-- L%d: %s" % (e.line, show_expr(e)))
            self.emit(ind, "Flow.ret %s" % self.on_err())
            return True
        if k == "macro" and e.name == "panic":
            self.emit(ind, "-- L%d: %s" % (e.line, show_expr(e)))
            self.emit(ind, "Flow.panic")
            return True
        if k == "return":
            self.emit(ind, "-- L%d: %s" % (e.line, show_expr(e)))
            pre = []
            val = self.ex(e.expr, pre, self.cur.ret) if e.expr is not None else ("()", "unit")
            self.emit_pre(ind, pre)
            self.finish({"kind": "fn"}, ind, val)
            return True
        if k == "assign":
            self.emit(ind, "-- L%d: %s;" % (e.line, show_expr(e)))
            if e.op != "=":
                raise Unsupported("compound assignment `%s`" % e.op, e.line)
            p = self.place_of(e.lhs)
            if p is None:
                raise Unsupported("assignment to `%s`" % show_expr(e.lhs), e.line)
            pty = self.place_type(p[0], p[1], e.line)
            pre = []
            t, ty = self.ex(e.rhs, pre, pty)
            if not self.same(ty, pty):
                raise Unsupported("assignment of %s to a place of type %s" % (type_str(ty), type_str(pty)), e.line)
            self.write_place(p[0], p[1], t, pre)
            self.emit_pre(ind, pre)
            return False
        if k in ("if", "iflet", "match"):
            self.emit(ind, "-- L%d: %s" % (e.line, show_expr(e)))
            car = self.carried_of(lambda: self.cf(e, ind + 1, {"kind": "next", "carried": [], "value": False}))
            self.emit(ind, "Flow.bind (")
            self.cf(e, ind + 1, {"kind": "next", "carried": car, "value": False})
            self.emit(ind, ") fun %s =>" % self.tuple_pat([c.lean for c in car]))
            for c in car:
                self.log.add(c)
            return False
        if k == "for":
            return self.stmt_for(e, ind)
        if k == "block":
            raise Unsupported("nested block statement", e.line)
        self.emit(ind, "-- L%d: %s;" % (e.line, show_expr(e)))
        pre = []
        self.ex(e, pre)
        self.emit_pre(ind, pre)
        return False

    def bind_let(self, pat, term, ty, ind, line):
        if pat.kind == "pbind":
            v = self.declare(pat.name, ty)
            self.emit(ind, "let %s : %s := %s" % (v.lean, self.lt(ty), term))
            return
        if pat.kind == "pwild":
            return
        if pat.kind == "ptuple" and isinstance(ty, tuple) and ty[0] == "tuple" and len(ty[1]) == len(pat.subs) \
                and all(p.kind in ("pbind", "pwild") for p in pat.subs):
            names = []
            for p, t in zip(pat.subs, ty[1]):
                names.append(self.declare(p.name if p.kind == "pbind" else "_", t).lean)
            self.emit(ind, "let (%s) := %s" % (", ".join(names), term))
            return
        raise Unsupported("`let` pattern `%s`" % show_pat(pat), line)

    def stmt_for(self, e, ind):
        self.emit(ind, "-- L%d: %s" % (e.line, show_expr(e)))
        pre = []
        it, ity = self.ex(e.iter, pre)
        self.emit_pre(ind, pre)
        if not (isinstance(ity, tuple) and ity[0] == "list") or e.pat.kind != "pbind":
            raise Unsupported("`for` over `%s`" % type_str(ity), e.line)

        def body(car):
            self.env.append({})
            x = self.declare(e.pat.name, ity[1])
            self.emit(ind + 1, "fun %s %s =>" % (x.lean, self.tuple_pat([c.lean for c in car])))
            self.block(e.body, ind + 2, {"kind": "next", "carried": car, "value": False})
            self.env.pop()
        car = self.carried_of(lambda: body([]))
        self.emit(ind, "Flow.bind (Flow.forIn %s (" % it)
        body(car)
        self.emit(ind, ") %s) fun %s =>" % (self.tuple_pat([c.lean for c in car]), self.tuple_pat([c.lean for c in car])))
        for c in car:
            self.log.add(c)
        return False

    # -- control flow
    def cf(self, e, ind, mode):
        if e.kind == "if":
            pre = []
            c, cty = self.ex(e.cond, pre, "bool")
            if cty != "bool":
                raise Unsupported("condition of type %s" % type_str(cty), e.line)
            self.emit_pre(ind, pre)
            self.emit(ind, "if %s then" % c)
            self.block(e.then, ind + 1, mode)
            self.emit(ind, "else")
            if e.els is None:
                self.finish(mode, ind + 1, None)
            elif e.els.kind == "block":
                self.block(e.els, ind + 1, mode)
            else:
                self.cf(e.els, ind + 1, mode)
            return
        if e.kind == "iflet":
            els = e.els if e.els is not None else Node("block", e.line, stmts=[], tail=None)
            if els.kind != "block":
                els = Node("block", e.line, stmts=[], tail=els)
            arms = [Node("arm", e.line, pats=[e.pat], guard=None, body=e.then),
                    Node("arm", e.line, pats=[Node("pwild", e.line)], guard=None, body=els)]
            return self.cf_match(Node("match", e.line, scrut=e.scrut, arms=arms), ind, mode)
        if e.kind == "match":
            return self.cf_match(e, ind, mode)
        raise Unsupported("control flow `%s`" % show_expr(e), e.line)

    def cf_match(self, e, ind, mode):
        pre = []
        place = self.place_of(e.scrut) if e.scrut.kind in ("path", "field") else None
        s, sty = self.ex(e.scrut, pre)
        self.emit_pre(ind, pre)
        for a in e.arms:
            if len(a.pats) != 1 or a.guard is not None:
                raise Unsupported("match arm with `|` or a guard", a.line)
        if sty in INTS:
            # decision chain over literal patterns; a final catch-all is required
            last = e.arms[-1].pats[0]
            if last.kind not in ("pwild", "pbind"):
                raise Unsupported("integer `match` without a final catch-all arm", e.line)
            for a in e.arms[:-1]:
                p = a.pats[0]
                if p.kind != "pint":
                    raise Unsupported("pattern `%s` in an integer match" % show_pat(p), a.line)
                self.emit(ind, "if %s == %s then" % (s, self.lit(p.value, sty, a.line)))
                self.emit(ind + 1, "-- L%d: %s => ..." % (a.line, show_pat(p)))
                self.block(a.body, ind + 1, mode)
                self.emit(ind, "else")
            self.env.append({})
            if last.kind == "pbind":
                v = self.declare(last.name, sty)
                self.emit(ind + 1, "let %s : %s := %s" % (v.lean, self.lt(sty), s))
            self.emit(ind + 1, "-- L%d: %s => ..." % (e.arms[-1].line, show_pat(last)))
            self.block(e.arms[-1].body, ind + 1, mode)
            self.env.pop()
            return
        if not (isinstance(sty, tuple) and sty[0] in ("option", "enum")):
            raise Unsupported("`match` on `%s`" % type_str(sty), e.line)
        hm = ""
        if getattr(self.cur, "rec_group", False):
            self.hm_n += 1
            hm = "hm%d : " % self.hm_n
        self.emit(ind, "(match %s%s with" % (hm, s))
        n = len(e.arms)
        for idx, a in enumerate(e.arms):
            p = a.pats[0]
            self.env.append({})
            lean_pat, binds = self.pattern(p, sty, place, a.line)
            self.emit(ind, "| %s =>" % lean_pat)
            self.emit(ind + 1, "-- L%d: %s => ..." % (a.line, show_pat(p)))
            for b in binds:
                self.emit(ind + 1, b)
            self.block(a.body, ind + 1, mode)
            self.env.pop()
        self.lines[-1] += ")"

    def pattern(self, p, sty, place, line):
        """Lean pattern + extra `let` lines; declares the bound variables (aliases when `ref mut` into a place)"""
        if p.kind == "pwild":
            return "_", []
        if p.kind == "pbind":
            v = self.declare(p.name, sty)
            return v.lean, []
        if p.kind != "pctor":
            raise Unsupported("pattern `%s`" % show_pat(p), line)
        name = p.segs[-1]
        if sty[0] == "option":
            if name == "None" and not p.subs:
                return "none", []
            if name == "Some" and len(p.subs) == 1:
                ctor, ftys, full = "some", [sty[1]], "some"
            else:
                raise Unsupported("pattern `%s` on an Option" % show_pat(p), line)
        else:
            en = self.enums[sty[1]]
            va = [x for x in en.variants if x.name == name]
            if not va or (len(p.segs) >= 2 and p.segs[-2] not in (sty[1], "Self")):
                raise Unsupported("pattern `%s` on `%s`" % (show_pat(p), sty[1]), line)
            ftys = [self.resolve_type(f) for f in va[0].fields]
            full = "%s.%s" % (sty[1], name)
            if len(p.subs) != len(ftys):
                raise Unsupported("pattern `%s`: field count" % show_pat(p), line)
        vars_ = []
        texts = []
        for sp, fty in zip(p.subs, ftys):
            if sp.kind == "pwild":
                vars_.append(self.declare("_", fty))
                texts.append(vars_[-1].lean)
            elif sp.kind == "pbind":
                vars_.append(self.declare(sp.name, fty))
                texts.append(vars_[-1].lean)
            elif sp.kind == "ptuple" and isinstance(fty, tuple) and fty[0] == "tuple" and len(fty[1]) == len(sp.subs) \
                    and all(x.kind in ("pbind", "pwild") and getattr(x, "byref", None) is None for x in sp.subs):
                inner = [self.declare(x.name if x.kind == "pbind" else "_", t).lean for x, t in zip(sp.subs, fty[1])]
                texts.append("(%s)" % ", ".join(inner))
                vars_.append(None)
            else:
                raise Unsupported("nested pattern `%s`" % show_pat(sp), line)
        if any(v is None for v in vars_):
            if any(sp.kind == "pbind" and sp.byref == "mut" for sp in p.subs):
                raise Unsupported("`ref mut` next to a tuple pattern", line)
            return "%s %s" % (full, " ".join(texts)), []
        if any(sp.kind == "pbind" and sp.byref == "mut" for sp in p.subs):
            if place is None:
                raise Unsupported("`ref mut` binding into something that is not a place", line)
            root, fields = place

            def wb(root=root, fields=fields, full=full, vars_=vars_):
                val = "(%s %s)" % (full, " ".join(v.lean for v in vars_))
                return "let %s : %s := %s" % (root.lean, self.lt(root.ty), self.set_path(root.lean, fields, val))
            for sp, v in zip(p.subs, vars_):
                if sp.kind == "pbind" and sp.byref == "mut":
                    v.alias = (root, wb)
        return ("%s %s" % (full, " ".join(v.lean for v in vars_))) if vars_ else full, []

    # -- functions
    def signature(self, f):
        n = f.node
        ps = []
        if n.selfmode is not None:
            ps.append("(self_ : %s)" % self.lt(f.selfty))
        if f.effect:
            ps.append("(w_ : W)")
        for (pn, pty, pm) in f.params:
            ps.append("(%s : %s)" % (self.param_lean[pn], self.lt(pty)))
        outs = []
        if n.selfmode == "mut":
            outs.append(self.la(f.selfty))
        if f.effect:
            outs.append("W")
        for (pn, pty, pm) in f.params:
            if pm == "mut":
                outs.append(self.la(pty))
        outs.append(self.la(f.ret))
        return "def %s {CM XR W GCM : Type} (X : Ext CM XR W GCM) (ov : Bool) %s : Res (%s) :=" % (f.lean, " ".join(ps), " × ".join(outs)), outs

    def gen_fn(self, f, module, uses, globs):
        n = f.node
        self.cur, self.cur_module, self.uses, self.globs = f, module, uses, globs
        self.assoc = n.assoc
        self.env = [{}]
        self.order = 0
        self.all_vars = []
        self.log = set()
        self.local_consts = {}
        self.cursor_origin = None
        self.hm_n = 0
        f.recursive = False
        self.param_vars, self.param_lean = {}, {}
        if n.selfmode is not None:
            self.declare("self", f.selfty, "mut" if n.selfmode == "mut" else "val")
        if f.effect:
            self.w_var = self.declare("w_", "W")
        for (pn, pty, pm) in f.params:
            v = self.declare(pn, pty, pm)
            self.param_vars[pn] = v
            self.param_lean[pn] = v.lean
        start = len(self.lines)
        sig, outs = self.signature(f)
        what = []
        if n.selfmode == "mut":
            what.append("final `*self`")
        if f.effect:
            what.append("the world after the call")
        what += ["final `*%s`" % pn for (pn, _, pm) in f.params if pm == "mut"]
        rust = "%s%s" % ((n.owner + "::") if n.owner else ((n.modname + "::") if n.modname else ""), n.name)
        self.emit(0, "-- %s L%d: %s" % (module, n.line, re.sub(r"\s+", " ", n.sig)))
        doc = "`%s`%s" % (rust, (" (`impl %s`)" % n.trait) if n.trait else "")
        if what:
            doc += "; the result is the tuple (%s, returned value)" % ", ".join(what)
        self.emit(0, "/-- %s -/" % doc)
        self.emit(0, sig)
        self.emit(1, "Flow.run (")
        self.block(n.body, 1, {"kind": "fn"})
        self.emit(1, ")")
        if f.rec_group:
            if not f.recursive:
                raise Unsupported("internal: recursion analysis of `%s`" % rust, n.line)
            self.emit(0, "termination_by %s" % f.measure)
            self.emit(0, "decreasing_by all_goals (simp_wf <;> simp +zetaDelta [*])")
        self.emit(0, "")


# --------------------------------------------------------------------------------------------
# fixed run-time support (Lean text, not derived from the source)
# --------------------------------------------------------------------------------------------

SUPPORT = r'''
/-! ### fixed run-time support (not derived from the source): library semantics

`Res`, `Flow`, `Flow.bind/run/arith/check` are those of `Octo.PWGen`; `RResult`, `Cursor`, the `bytes` operations and the
integer casts are those of `Octo.AddrGen`; `DynSession`, `ServerSession`, `ClientSession`, `AEADBodyCodec` and its methods are
`Octo.VmessBodyGen` (generated from `codec/vmess/aead.rs`, `protocol/vmess/session.rs`); `Address`, `read_address_port`,
`check_header_length` are `Octo.VmessAddrGen` (generated from `protocol/vmess.rs`, `server/vmess.rs`). -/

/-- call of a translated or assumed function: its value, or its panic -/
def Flow.call {α ρ : Type} : Res α → Flow α ρ
  | .ok a => .next a
  | .panic => .panic

/-- `Option::unwrap`: panics on `None` -/
def Flow.unwrap {α ρ : Type} : Option α → Flow α ρ
  | some a => .next a
  | none => .panic

/-- a `Result` of `Octo.VmessAddrGen` as a `Result` here (the same type, declared in two generated modules) -/
def RResult.ofVm {α : Type} : Octo.VmessAddrGen.RResult α → RResult α
  | .ok a => .ok a
  | .err => .err

/-- `<[u8; n]>::try_from(v)` (`v.try_into()`): `Err` unless `v` has exactly `n` elements -/
def RResult.try_into_array (b : List UInt8) (n : Nat) : RResult (List UInt8) := if b.length = n then .ok b else .err

/-- `&b[lo..hi]`: panics unless `lo <= hi <= b.len()` -/
def Flow.slice_range {ρ : Type} (b : List UInt8) (lo hi : Usize) : Flow (List UInt8) ρ :=
  if lo.toNat ≤ hi.toNat ∧ hi.toNat ≤ b.length then .next ((b.take hi.toNat).drop lo.toNat) else .panic
/-- `&b[..n]` -/
def Flow.slice_to {ρ : Type} (b : List UInt8) (n : Usize) : Flow (List UInt8) ρ :=
  if n.toNat ≤ b.length then .next (b.take n.toNat) else .panic
/-- `&b[n..]` -/
def Flow.slice_from {ρ : Type} (b : List UInt8) (n : Usize) : Flow (List UInt8) ρ :=
  if n.toNat ≤ b.length then .next (b.drop n.toNat) else .panic
/-- `b.split_at(n)`: panics when `n > b.len()` -/
def Flow.split_at {ρ : Type} (b : List UInt8) (n : Usize) : Flow (List UInt8 × List UInt8) ρ :=
  if n.toNat ≤ b.length then .next (b.take n.toNat, b.drop n.toNat) else .panic
/-- `dst.copy_from_slice(src)`: panics when the lengths differ; the value is the new content of `dst` -/
def Flow.copy_from_slice {ρ : Type} (dst src : List UInt8) : Flow (List UInt8) ρ :=
  if src.length = dst.length then .next src else .panic
/-- `Buf::copy_to_slice(dst)` on a `Bytes`/`BytesMut`, `n = dst.len()`: panics when fewer than `n` bytes remain; (rest, the
`n` bytes that now fill `dst`) -/
def Flow.copy_to_slice {ρ : Type} (b : Cursor) (n : Usize) : Flow (Cursor × List UInt8) ρ :=
  if n.toNat ≤ b.length then .next (b.drop n.toNat, b.take n.toNat) else .panic

/-- `std::io::Cursor<&mut BytesMut>`: the buffer it borrows (never changed through the cursor) and the read position -/
structure IoCursor where
  inner : List UInt8
  pos : UInt64
deriving DecidableEq, Repr
/-- `Cursor::new` -/
def IoCursor.new (b : List UInt8) : IoCursor := ⟨b, 0⟩
/-- `Buf::remaining` of a cursor: `len.saturating_sub(pos)` -/
def IoCursor.remaining (c : IoCursor) : Usize := UInt64.ofNat (c.inner.length - c.pos.toNat)
/-- `Cursor::position` -/
def IoCursor.position (c : IoCursor) : UInt64 := c.pos
/-- `Buf::copy_to_slice(dst)` on a cursor, `n = dst.len()`: panics when fewer than `n` bytes remain -/
def Flow.io_copy_to_slice {ρ : Type} (c : IoCursor) (n : Usize) : Flow (IoCursor × List UInt8) ρ :=
  if n.toNat ≤ c.inner.length - c.pos.toNat then .next (⟨c.inner, c.pos + n⟩, (c.inner.drop c.pos.toNat).take n.toNat) else .panic
/-- `Buf::copy_to_bytes(n)` on a cursor: panics when `n > remaining` -/
def Flow.io_copy_to_bytes {ρ : Type} (c : IoCursor) (n : Usize) : Flow (IoCursor × Cursor) ρ :=
  if n.toNat ≤ c.inner.length - c.pos.toNat then .next (⟨c.inner, c.pos + n⟩, (c.inner.drop c.pos.toNat).take n.toNat) else .panic

/-- `size_of::<T>()` -/
def Mem.size_of_u8 : Usize := 1
def Mem.size_of_u16 : Usize := 2
def Mem.size_of_u32 : Usize := 4
def Mem.size_of_u64 : Usize := 8
def Mem.size_of_usize : Usize := 8

/-- `u16::from_be_bytes` / `to_be_bytes`, `u32::from_be_bytes` -/
def U16.from_be_bytes (b : List UInt8) : UInt16 := UInt16.ofNat (beNat b)
def U16.to_be_bytes (x : UInt16) : List UInt8 := [(x >>> 8).toUInt8, x.toUInt8]
def U32.from_be_bytes (b : List UInt8) : UInt32 := UInt32.ofNat (beNat b)

/-- `i32`: its 32 bits (only compared for equality here) -/
structure I32 where
  bits : UInt32
deriving DecidableEq, Repr
def I32.from_be_bytes (b : List UInt8) : I32 := ⟨UInt32.ofNat (beNat b)⟩
/-- `x as i32` of a `u32`: the same bits -/
def U32.as_i32 (x : UInt32) : I32 := ⟨x⟩

/-- `i64`: its 64 bits; `toInt` is the two's-complement value -/
structure I64 where
  bits : UInt64
deriving DecidableEq, Repr
def I64.toInt (x : I64) : Int := if x.bits.toNat < 2 ^ 63 then (x.bits.toNat : Int) else (x.bits.toNat : Int) - 2 ^ 64
def I64.ofNat (n : Nat) : I64 := ⟨UInt64.ofNat n⟩
def I64.from_be_bytes (b : List UInt8) : I64 := ⟨UInt64.ofNat (beNat b)⟩
/-- `a - b` does not overflow -/
def I64.subOk (a b : I64) : Bool := decide (-(2 ^ 63 : Int) ≤ a.toInt - b.toInt ∧ a.toInt - b.toInt < 2 ^ 63)
/-- wrapping `a - b` -/
def I64.sub (a b : I64) : I64 := ⟨a.bits - b.bits⟩
/-- `a.abs()` does not overflow (`i64::MIN.abs()` does: panic with overflow checks, `i64::MIN` without) -/
def I64.absOk (a : I64) : Bool := decide (a.toInt ≠ -(2 ^ 63 : Int))
/-- wrapping `a.abs()` -/
def I64.abs (a : I64) : I64 := if a.toInt < 0 then ⟨0 - a.bits⟩ else a
def I64.le (a b : I64) : Bool := decide (a.toInt ≤ b.toInt)
def I64.lt (a b : I64) : Bool := decide (a.toInt < b.toInt)
def I64.ge (a b : I64) : Bool := decide (a.toInt ≥ b.toInt)
def I64.gt (a b : I64) : Bool := decide (a.toInt > b.toInt)

/-- `for x in list { body }`: the body falls through (`next`: next element) with the loop-carried variables, returns or panics -/
def Flow.forIn {α σ ρ : Type} (l : List α) (body : α → σ → Flow σ ρ) (s : σ) : Flow σ ρ :=
  match l with
  | [] => .next s
  | x :: rest =>
    match body x s with
    | .next s' => Flow.forIn rest body s'
    | .ret r => .ret r
    | .panic => .panic

/-- `Iterator::reduce` -/
def Iter.reduce {α : Type} (f : α → α → α) : List α → Option α
  | [] => none
  | a :: l => some (l.foldl f a)

/-- a `&mut dyn Session` that was made from a `&mut ServerSession` is a `ServerSession` again after the call (the callee
cannot change the implementor; the other case is reported as `panic` and proved unreachable, never assumed) -/
def Flow.as_server {ρ : Type} : DynSession → Flow ServerSession ρ
  | .ServerSession s => .next s
  | _ => .panic
def Flow.as_client {ρ : Type} : DynSession → Flow ClientSession ρ
  | .ClientSession s => .next s
  | _ => .panic
'''

ROLES = [
    # role, path below <ws>, flat name, module name used for Lean names
    ("client", "octo-squirrel-client/src/client/vmess.rs", "client_vmess.rs", "client"),
    ("authid", "octo-squirrel/src/protocol/vmess/aead/auth_id.rs", "auth_id.rs", "auth_id"),
    ("encrypt", "octo-squirrel/src/protocol/vmess/aead/encrypt.rs", "encrypt.rs", "encrypt"),
    ("header", "octo-squirrel/src/protocol/vmess/header.rs", "header.rs", "header"),
    ("kdf", "octo-squirrel/src/protocol/vmess/aead/kdf.rs", "kdf.rs", "kdf"),
    ("message", "octo-squirrel-server/src/server/template.rs", "template.rs", "message"),
    ("session", "octo-squirrel/src/protocol/vmess/session.rs", "session.rs", "session"),
    ("body", "octo-squirrel/src/codec/vmess/aead.rs", "codec_vmess_aead.rs", "body"),
    ("vmess", "octo-squirrel/src/protocol/vmess.rs", "protocol_vmess.rs", "vmess"),
    ("util", "octo-squirrel/src/util.rs", "util.rs", "util"),
    ("crypto", "octo-squirrel/src/crypto.rs", "crypto.rs", "crypto"),
]
WANT = {
    "server": {"enum": {"DecodeState", "EncodeState"}, "struct": {"ServerAeadCodec"}, "const": set(),
               "fn": {("ServerAeadCodec", None, "decode_header"), ("ServerAeadCodec", None, "decode_body"), ("ServerAeadCodec", "Decoder", "decode"),
                      ("ServerAeadCodec", None, "encode"), ("ServerAeadCodec", "Encoder_OutboundIn", "encode")}},
    "client": {"enum": set(), "struct": {"ClientAEADCodec"}, "const": set(), "fn": {("ClientAEADCodec", "Decoder", "decode")}},
    "authid": {"enum": set(), "struct": set(), "const": set(), "fn": {(None, None, "matching")}},
    "encrypt": {"enum": set(), "struct": set(), "const": {"NONCE_SIZE", "TAG_SIZE"}, "fn": {(None, None, "open_header")}},
    "header": {"enum": {"RequestCommand", "RequestOption", "SecurityType"}, "struct": {"RequestHeader"}, "const": set(),
               "fn": {("RequestOption", None, "values"), ("RequestOption", None, "from_mask"), ("RequestOption", None, "get_mask"),
                      ("SecurityType", "From_u8", "from"), ("RequestHeader", None, "new")}},
    "kdf": {"enum": set(), "struct": set(), "const": "SALT", "fn": set()},
    "message": {"enum": {"InboundIn", "OutboundIn"}, "struct": set(), "const": set(), "fn": {("BytesMut", "From_OutboundIn", "from")}},
}


def find_file(main_path, rel, flat):
    d = os.path.dirname(os.path.abspath(main_path))
    p = os.path.join(d, flat)
    if os.path.isfile(p):
        return p
    ws = os.path.abspath(os.path.join(d, "..", "..", ".."))
    p = os.path.join(ws, rel)
    if os.path.isfile(p):
        return p
    raise Unsupported("source file `%s` (or a flat copy `%s` next to the argument) not found" % (rel, flat), 0)


def parse_role(path, role):
    with open(path, "rb") as fh:
        raw = fh.read()
    try:
        src = raw.decode("utf-8")
    except UnicodeDecodeError:
        raise Unsupported("%s is not UTF-8" % path, 0)
    w = WANT.get(role, {"enum": set(), "struct": set(), "const": set(), "fn": set()})

    def wanted(kind, owner, name):
        if kind == "const":
            return (w["const"] == "SALT" and name.startswith("SALT_") and owner is None) or (w["const"] != "SALT" and name in w["const"] and owner is None)
        if kind == "fn":
            o, tr, mod = owner
            if mod is not None and role != "server":
                return False
            return (o, tr, name) in w["fn"]
        return name in w[kind]
    p = Parser(tn.tokenize(src), wanted)
    try:
        p.parse_items()
    except Unsupported as u:
        u.what = "%s: %s" % (os.path.basename(path), u.what)
        raise
    return p, hashlib.sha256(raw).hexdigest()


def static_callees(g, f):
    out = []

    def walk(n):
        if isinstance(n, Node):
            if n.kind == "call":
                segs = n.segs
                q = segs[-2] if len(segs) >= 2 else None
                if q == "Self":
                    q = f.node.owner
                key = None
                if q is None:
                    key = (("mod", f.module), segs[-1])
                elif q in ("auth_id", "encrypt"):
                    key = (("mod", q), segs[-1])
                elif q == "SecurityType" and segs[-1] == "from":
                    key = (q, "From_u8_from")
                else:
                    key = (q, segs[-1])
                if key in g.fns:
                    out.append(g.fns[key])
            if n.kind == "mcall" and n.base.kind == "path" and n.base.segs == ["self"] and f.node.owner:
                m = g.method_of(f.node.owner, n.name)
                if m is not None:
                    out.append(m)
            for v in n.__dict__.values():
                walk(v)
        elif isinstance(n, (list, tuple)):
            for x in n:
                walk(x)
    walk(f.node.body)
    return out


def reads_clock(f):
    hit = []

    def walk(n):
        if isinstance(n, Node):
            if n.kind == "call" and n.segs[-2:] == ["vmess", "now"]:
                hit.append(1)
            if n.kind == "mcall" and n.name in ("encode_payload", "encode_packet"):     # random padding of the body encoder
                hit.append(1)
            for v in n.__dict__.values():
                walk(v)
        elif isinstance(n, (list, tuple)):
            for x in n:
                walk(x)
    walk(f.node.body)
    return bool(hit)


def find_option_match(g, f):
    res = []

    def walk(n):
        if isinstance(n, Node):
            if n.kind == "match" and n.scrut.kind == "field" and n.scrut.base.kind == "path" and n.scrut.base.segs == ["self"]:
                res.append(n.scrut.name)
            for v in n.__dict__.values():
                walk(v)
        elif isinstance(n, (list, tuple)):
            for x in n:
                walk(x)
    walk(f.node.body)
    for fld in res:
        try:
            if g.field_type(f.selfty, fld, 0)[0] == "option":
                return fld
        except Unsupported:
            pass
    return None


def mod_prefix(m):
    """Lean namespace of a Rust module (capitalised so that it cannot collide with a local variable: `auth_id`)"""
    return "".join(x.capitalize() for x in m.split("_"))


def norm_sig(s):
    return re.sub(r"\s+", " ", s).strip()


def check_sig(parsers, role, owner, name, expected):
    p = parsers[role][0]
    cands = [(k, v) for k, v in p.sigs.items() if k[2] == name and (owner is None or k[0] == owner)]
    cands = [c for c in cands if c[0][1] is None] or cands
    if not cands:
        if expected in " ".join(t.text for t in p.toks):      # inside a macro body (`aes_ecb_no_padding_impl!`)
            return
        raise Unsupported("external `%s` not found in the %s file (or its signature changed; known: `%s`)" % (name, role, expected), 0)
    got = norm_sig(cands[0][1])
    if got != expected and got != expected.replace("pub ", "", 1):
        raise Unsupported("signature of the external `%s` changed: `%s` (known: `%s`)" % (name, got, expected), 0)


def translate(path, out_path):
    parsers = {}
    with open(path, "rb"):
        pass
    parsers["server"] = parse_role(path, "server") + (path, "server")
    for role, rel, flat, module in ROLES:
        fp = find_file(path, rel, flat)
        parsers[role] = parse_role(fp, role) + (fp, module)

    g = Gen3()
    g.crate_consts_used = set()
    g.checked_uses = set()
    g.imported = set()
    g.local_consts = {}
    g.cur_module = None
    # -- types
    type_origin = {}
    for role in ("header", "message", "server", "client"):
        p = parsers[role][0]
        for it in p.items:
            if it.kind == "enum":
                g.enums[it.name] = it
                type_origin[it.name] = role
            elif it.kind == "struct":
                g.structs[it.name] = it
                type_origin[it.name] = role
    for role, w in WANT.items():
        for kind in ("enum", "struct"):
            for name in w[kind]:
                if name not in (g.enums if kind == "enum" else g.structs):
                    raise Unsupported("%s `%s` not found in the %s file" % (kind, name, role), 0)
    # generic types: mention the body codec (fixed point)
    changed = True
    while changed:
        changed = False
        for name, en in g.enums.items():
            if name not in g.generic_types and any(g.mentions_body(g.resolve_type(f)) for v in en.variants for f in v.fields):
                g.generic_types.add(name)
                changed = True
        for name, st in g.structs.items():
            if name not in g.generic_types and any(g.mentions_body(g.resolve_type(f.ty)) for f in st.fields):
                g.generic_types.add(name)
                changed = True
    # -- consts
    const_lines = []
    for role in ("kdf", "encrypt"):
        p, _, fp, module = parsers[role]
        g.cur_module = module
        for it in p.items:
            if it.kind != "const":
                continue
            lean = "%s.%s" % (mod_prefix(module), it.name)
            if it.expr.kind == "bstr":
                ty = ("bytes", len(it.expr.bytes))
                g.consts[(module, it.name)] = (ty, lean, list(it.expr.bytes))
                const_lines.append("-- %s L%d: const %s: %s = %s;" % (os.path.basename(fp), it.line, it.name, show_type(it.ty), it.expr.text))
                const_lines.append("def %s : List UInt8 := [%s]" % (lean, ", ".join(str(b) for b in it.expr.bytes)))
            else:
                ty = g.resolve_type(it.ty)
                v = g.const_eval(it.expr)
                g.consts[(module, it.name)] = (ty, lean, v)
                const_lines.append("-- %s L%d: const %s: %s = %s;" % (os.path.basename(fp), it.line, it.name, show_type(it.ty), show_expr(it.expr)))
                const_lines.append("def %s : %s := %s" % (lean, g.lt(ty), g.lit(v, ty, it.line)))
    for role, w in WANT.items():
        if isinstance(w["const"], set):
            for name in w["const"]:
                if (parsers[role][3], name) not in g.consts:
                    raise Unsupported("const `%s` not found in the %s file" % (name, role), 0)
    if not any(k[0] == "kdf" for k in g.consts):
        raise Unsupported("no `SALT_*` constant found in kdf.rs", 0)
    # -- functions
    order = []
    for role in ("header", "message", "authid", "encrypt", "server", "client"):
        p, _, fp, module = parsers[role]
        for it in p.items:
            if it.kind != "fn":
                continue
            if it.owner:
                selfty = ("enum", it.owner) if it.owner in g.enums else (("bytes", None) if it.owner in ("BytesMut", "Bytes") else ("struct", it.owner))
                key = (it.owner, (it.trait + "_" + it.name) if it.trait else it.name)
                lean = "%s.%s" % key
            else:
                selfty = None
                key = (("mod", module), it.name)
                lean = "%s.%s" % (mod_prefix(module), it.name)
            g.assoc = it.assoc
            f = FnInfo(it, lean, selfty)
            f.module, f.role, f.path = module, role, fp
            f.rec_group, f.measure, f.recursive = False, None, False
            for pa in it.params:
                mode = "mut" if (pa.ty.kind == "tref" and pa.ty.mut) else ("ref" if pa.ty.kind == "tref" else "val")
                f.params.append((pa.name, g.resolve_type(pa.ty, selfty), mode))
            f.ret = g.resolve_type(it.ret, selfty) if it.ret is not None else "unit"
            g.fns[key] = f
            order.append(f)
    for role, w in WANT.items():
        for (o, tr, name) in w["fn"]:
            key = (o, (tr + "_" + name) if tr else name) if o else (("mod", parsers[role][3]), name)
            if key not in g.fns:
                raise Unsupported("fn `%s%s` not found in the %s file" % ((o + "::") if o else "", name, role), 0)
    callees = {f: static_callees(g, f) for f in order}
    changed = True
    for f in order:
        f.effect = reads_clock(f)
    while changed:
        changed = False
        for f in order:
            if not f.effect and any(c.effect for c in callees[f]):
                f.effect = True
                changed = True
    for f in order:
        if f in callees[f]:
            fld = find_option_match(g, f)
            if fld is None:
                raise Unsupported("recursive fn `%s` without a `match self.<option field>` to measure" % f.lean, f.node.line)
            f.rec_group, f.measure = True, "if self_.%s.isSome then 0 else 1" % fld
        for c in callees[f]:
            if c is not f and f in callees[c]:
                raise Unsupported("mutual recursion between `%s` and `%s`" % (f.lean, c.lean), f.node.line)
    # topological order
    done, topo = set(), []

    def visit(f):
        if f in done:
            return
        done.add(f)
        for c in callees[f]:
            if c is not f:
                visit(c)
        topo.append(f)
    for f in order:
        visit(f)
    # external signatures
    for (field, lty, doc, sig) in EXT:
        if sig is not None:
            check_sig(parsers, sig[0], sig[1], sig[2], sig[3])
    for (role, owner, name, sig) in EXT_SIGS_IMPORTED:
        check_sig(parsers, role, owner, name, sig)
    # -- function bodies
    for f in topo:
        p = parsers[f.role][0]
        try:
            g.gen_fn(f, f.module, p.uses, p.globs)
        except Unsupported as u:
            u.what = "%s: %s" % (os.path.basename(f.path), u.what)
            raise
    fn_lines = g.lines
    # -- type declarations
    ty_lines = []

    def enum_decl(en, role):
        gen = en.name in g.generic_types
        ty_lines.append("/-! ### enum %s (%s) -/" % (en.name, os.path.basename(parsers[role][2])))
        ty_lines.append("inductive %s%s where" % (en.name, " (CM XR : Type)" if gen else ""))
        for v in en.variants:
            ty_lines.append("  -- L%d: %s%s%s" % (v.line, v.name, ("(%s)" % ", ".join(show_type(t) for t in v.fields)) if v.fields else "",
                                                (" = %d" % v.disc) if v.disc is not None else ""))
            ty_lines.append("  | %s%s" % (v.name, "".join(" (a%d : %s)" % (i, g.lt(g.resolve_type(t))) for i, t in enumerate(v.fields))))
        plain = all(not v.fields for v in en.variants)
        if plain:
            ty_lines.append("deriving DecidableEq, Repr")
            ty_lines.append("/-- `x as u8`: the discriminant -/")
            ty_lines.append("def %s.as_u8 : %s → UInt8" % (en.name, en.name))
            nxt = 0
            for v in en.variants:
                d = v.disc if v.disc is not None else nxt
                if d > 255:
                    raise Unsupported("discriminant of `%s::%s` does not fit u8" % (en.name, v.name), v.line)
                ty_lines.append("  | .%s => %d" % (v.name, d))
                nxt = d + 1
        ty_lines.append("")

    def struct_decl(st, role):
        gen = st.name in g.generic_types
        ty_lines.append("/-! ### struct %s (%s) -/" % (st.name, os.path.basename(parsers[role][2])))
        ty_lines.append("structure %s%s where" % (st.name, " (CM XR : Type)" if gen else ""))
        for f in st.fields:
            ty_lines.append("  -- L%d: %s: %s" % (f.line, f.name, show_type(f.ty)))
            ty_lines.append("  %s : %s" % (f.name, g.lt(g.resolve_type(f.ty, ("struct", st.name)))))
        ty_lines.append("")
    # dependency order: header enums, RequestHeader, InboundIn, server enums, structs
    emitted = set()

    def deps_of(name):
        out = []
        nodes = [f for v in g.enums[name].variants for f in v.fields] if name in g.enums else [f.ty for f in g.structs[name].fields]

        def walk(t):
            if isinstance(t, tuple):
                if t[0] in ("enum", "struct"):
                    out.append(t[1])
                elif t[0] == "tuple":
                    for x in t[1]:
                        walk(x)
                elif t[0] in ("list", "option", "result"):
                    walk(t[1])
        for n in nodes:
            walk(g.resolve_type(n, ("struct", name)))
        return out

    def emit_type(name):
        if name in emitted:
            return
        emitted.add(name)
        for d in deps_of(name):
            emit_type(d)
        if name in g.enums:
            enum_decl(g.enums[name], type_origin[name])
        else:
            struct_decl(g.structs[name], type_origin[name])
    pre_ext = ["RequestCommand", "RequestOption", "SecurityType", "RequestHeader"]
    for n in pre_ext:
        emit_type(n)
    ext_at = len(ty_lines)
    for n in list(g.enums) + list(g.structs):
        emit_type(n)
    # -- Ext
    ext_lines = ["/-- **assumed externals** (not translated; every generated function takes them as its first parameter `X`): `CM`, `XR` = the",
                 "cipher / XOF-reader types of the body codec (`Octo.VmessBodyGen.Ext`), `W` = the world the clock is read from (and the random",
                 "source of the body codec's encoder), `GCM` = an `Aes128Gcm` cipher value -/",
                 "structure Ext (CM XR W GCM : Type) where"]
    used_fields = []
    for (field, lty, doc, sig) in EXT:
        ext_lines.append("  /-- %s -/" % doc)
        ext_lines.append("  %s : %s" % (field, lty))
        used_fields.append(field)
    if "log_enabled" in g.ext_used:
        ext_lines.append("  /-- whether `info!` / `debug!`.. evaluate their arguments (the level is enabled) -/")
        ext_lines.append("  log_enabled : Bool")
    ext_lines.append("")
    for f in g.ext_used:
        if f not in used_fields and f != "log_enabled":
            raise Unsupported("internal: external `%s` not declared" % f, 0)
    # -- header
    digest = parsers["server"][1]
    hdr = ["/- GENERATED by translate_vmesshdr.py — do not edit.",
           "   source: %s" % path.replace(os.path.abspath(os.path.join(os.path.dirname(os.path.abspath(path)), "..", "..", "..")), "/repo"),
           "   sha256: %s" % digest,
           "   further sources (found relative to the first, or as flat copies next to it):"]
    for role, rel, flat, module in ROLES:
        p, dg, fp, _ = parsers[role]
        what = []
        w = WANT.get(role)
        if w:
            what += ["`enum %s`" % n for n in sorted(w["enum"])] + ["`struct %s`" % n for n in sorted(w["struct"])]
            if w["const"] == "SALT":
                what.append("the `SALT_*` constants")
            else:
                what += ["`const %s`" % n for n in sorted(w["const"])]
            what += ["`%s%s`" % ((o + "::") if o else "", n) for (o, t, n) in sorted(w["fn"], key=lambda x: (x[0] or "", x[2]))]
        sigs = [s[2] for (_, _, _, s) in EXT if s is not None and s[0] == role] + [n for (r, _, n, _) in EXT_SIGS_IMPORTED if r == role]
        if sigs:
            what.append("signature(s) of " + ", ".join("`%s`" % s for s in sigs))
        hdr.append("     - %s: %s (sha256 %s): %s" % (role, rel, dg, ", ".join(what)))
    hdr += [
        "",
        "   Statement-by-statement translation of " + ", ".join("`%s`" % f.lean for f in topo) + ".",
        "   Conventions of translate_addr.py / translate_trojan.py / translate_vmessbody.py (see Octo/Gen/AddrGen.lean, VmessBodyGen.lean):",
        "   u8/u16/u32/u64/usize = UIntN (usize = 64 bit), i32/i64 = their bits (`I32`, `I64`; `I64.toInt` = the two's-complement value), `as` =",
        "   zero-extension / truncation / the same bits, `+ - *` wrap and are preceded by `Flow.arith ov (..)` (panic when overflow-checks",
        "   are on; also `i64 - i64` and `i64::abs`), `BytesMut`/`Bytes`/`Vec<u8>`/`&[u8]`/`[u8; N]` = List UInt8 (a read cursor = the bytes that",
        "   remain), `get_*`/`split_to`/`advance`/`copy_to_*`/`x[a..b]`/`split_at`/`copy_from_slice`/`try_into().unwrap()` panic as in Rust,",
        "   `Result<T, _>` = RResult T (error values are not modelled), `e?` = Flow.question, `match` = a case tree, a method with `&mut self` /",
        "   `&mut` arguments returns their final values next to the returned value (also on `Err`).  In addition here:",
        "   * `std::io::Cursor::new(buf)` over a `&mut BytesMut` = (the buffer, read position); `into_inner()` names the buffer again;",
        "   * `ref mut` bindings into an enum variant of a place (`DecodeState::Ready(ref mut header, ..)`, `Some(ref mut decoder)`) are copies",
        "     written back into the place after every change;",
        "   * `&mut ServerSession` / `&mut ClientSession` passed as `&mut dyn Session`: wrapped into `DynSession` for the call and unwrapped after",
        "     it (`Flow.as_server` / `Flow.as_client`; the wrong implementor would be `panic`: proved unreachable);",
        "   * a function that (transitively) reads the clock takes the world `w_ : W` and returns it;",
        "   * `a && b` where `b` can panic / return / read the clock is evaluated lazily (`if a then b else false`);",
        "   * `map_err(|e| anyhow!(e))` = identity (error values are not modelled); `.into()` / `Bytes::from` / `Box::new` / `.clone()` / `.to_vec()`",
        "     / `.freeze()` on byte strings = identity; iterator chains `into_iter().filter(|x| e).collect()` = List.filter and",
        "     `iter().map(|x| e).reduce(|a, b| e).unwrap_or(v)` = Iter.reduce (closure bodies checked to be free of panics / effects);",
        "   * format arguments of `bail!` must be free of effects (checked; dropped); logging macros: skipped when their arguments are free",
        "     of effects, otherwise the arguments are evaluated under `X.log_enabled` (as the `log` macros do);",
        "   * recursion (`self.decode(src)` once the body decoder exists) is well-founded recursion on the measure the translator proposes",
        "     (`termination_by`; Lean checks it);",
        "   * constants of the cipher crates the translator knows (assumed): " + ", ".join(
            "`<%s as %s>::%s` = %d" % (k[0], k[1], "::".join(k[2]), CRATE_CONSTS[k]) for k in sorted(g.crate_consts_used)) + ".",
        "   CALLED, not re-translated: " + ", ".join("`%s`" % n for n in sorted(g.imported)) +
        " (Octo.VmessAddrGen / Octo.VmessBodyGen; their Rust signatures are compared with the ones known here).",
        "   ASSUMED EXTERNALS (fields of `Ext`; the Rust signature of each is compared token for token with the one known here):",
    ]
    for (field, lty, doc, sig) in EXT:
        hdr.append("     - %s%s: %s" % (field, "" if field in g.ext_used else " (not reached by the translated functions)", doc))
    if "log_enabled" in g.ext_used:
        hdr.append("     - log_enabled: whether the `log` macros evaluate their arguments")
    hdr.append("   names are bound through the `use` items of each file (checked for: %s)." % ", ".join(sorted(g.checked_uses)))
    hdr.append("   skipped (not parsed, bracket matching only):")
    for role in ["server"] + [r[0] for r in ROLES]:
        p, _, fp, _ = parsers[role]
        if role in ("session", "body", "vmess", "util", "crypto"):
            hdr.append("     - %s: everything (signatures only)" % os.path.basename(fp))
            continue
        hdr.append("     - %s: %d `use` items (name binding only)%s" % (os.path.basename(fp), len(p.uses) + len(p.globs),
                   "".join("; %s, lines %d-%d" % s for s in p.skipped)))
    hdr.append("-/")
    out = hdr + ["import Octo.Gen.VmessBodyGen", "import Octo.Gen.VmessAddrGen", "set_option linter.unusedVariables false",
                 "namespace Octo.VmessHdrGen", "open Octo.PWGen Octo.AddrGen",
                 "open Octo.VmessBodyGen (DynSession ServerSession ClientSession AEADBodyCodec)"]
    out += SUPPORT.split("\n")
    out += ty_lines[:ext_at] + ext_lines + ty_lines[ext_at:]
    out += ["/-! ### constants -/"] + const_lines + [""]
    out += ["/-! ### functions (callees first) -/"] + fn_lines
    out += ["end Octo.VmessHdrGen", ""]
    text = "\n".join(out)
    with open(out_path, "w", encoding="utf-8") as fh:
        fh.write(text)


def main(argv):
    if len(argv) != 3:
        sys.stderr.write("usage: translate_vmesshdr.py <octo-squirrel-server/src/server/vmess.rs> <out.lean>\n")
        return 2
    try:
        translate(argv[1], argv[2])
    except Unsupported as u:
        sys.stderr.write("translate_vmesshdr: unsupported: %s (line %s)\n" % (u.what, u.line))
        return 3
    except (IOError, OSError) as ex:
        sys.stderr.write("translate_vmesshdr: %s\n" % ex)
        return 2
    return 0


if __name__ == "__main__":
    sys.exit(main(sys.argv))
