#!/usr/bin/env python3
"""Rust-subset -> Lean 4 translator for the Shadowsocks datagram codec `octo-squirrel/src/codec/shadowsocks/udp.rs`.

usage:  translate_ssudp.py <path/to/octo-squirrel/src/codec/shadowsocks/udp.rs> <out.lean>

Translated from the argument (located by name): the structs `AEADCipherCodec`, `Context`, `Session`, `SessionCodec`,
`CipherKey`, the type alias `SessionPacket`, and the functions listed in `MAIN_TARGETS` below (the datagram decoders of both
directions, the dispatch `AEADCipherCodec::decode`, `SessionCodec::decode`, `Session::new`, `impl Ord for CipherKey`).
Everything else is skipped by balanced-bracket matching and listed in the generated header.

Further source files are read; they are found relative to the argument (`<src>` = two directories above the argument's
directory) or - for copies kept in one directory - under the flat name given second:

  mode     <src>/protocol/shadowsocks.rs            | protocol_shadowsocks.rs  `enum Mode`, `impl Mode` (translated)
  kind     <src>/codec/aead.rs                      | codec_aead.rs            `enum CipherKind`, `is_aead_2022`, `support_eih` (translated);
                                                                               signatures of `CipherKind::tag_size`, `CipherMethod::*`
  ts       <src>/codec/shadowsocks/aead_2022.rs     | aead_2022.rs             `const SERVER_STREAM_TIMESTAMP_MAX_DIFF`, `fn validate_timestamp`
                                                                               (translated); signature of `now`
  udp2022  <src>/codec/shadowsocks/aead_2022/udp.rs | aead_2022_udp.rs         signatures of `nonce_length`, `aes_decrypt_in_place`, ..
  legacy   <src>/codec/shadowsocks/aead.rs          | ss_aead.rs               signature of `new_decoder`
  chunk    <src>/codec/shadowsocks.rs               | codec_shadowsocks.rs     signature of `ChunkDecoder::decode_packet`
  user     <src>/manager/shadowsocks.rs             | manager_shadowsocks.rs   `struct ServerUser`; signatures of `user_count`, `clone_user_by_hash`
  address  <src>/protocol/address.rs                | address_type.rs          `enum Address` (declared in Octo.AddrGen)
  codec    <src>/protocol/socks5/address.rs         | socks5_address.rs        signatures of `encode`, `decode` (bodies: Octo/Gen/AddrGen.lean)

Functions that are not translated (AEAD open, the AES block, key derivation, the clock, the cipher cache behind
`get_cipher`, the user table, the legacy chunk layer) are fields of the record `Ext` that every generated function takes
(`X`); the types behind them are fields of `ExtTypes` (`T`).  Their Rust signatures are compared token for token with the
ones the translator knows; a change is exit 3.

Reuses translate_sstcp.py (and through it translate_trojan / translate_addr / translate_nonce / translate_pw); extended here
by: lifetimes (erased), or-patterns in `match`, `mut` in tuple patterns, range indexing `&x[a..b]`, fixed arrays `[0; 12]`,
`copy_from_slice`, `u64::from_be_bytes`, `split_at_mut` (two views of a buffer, written back after every change),
`split_off`, `std::io::Cursor` over an owned buffer / a slice with `get_u64`, the idiom
`a.iter_mut().zip(b).for_each(|(l, r)| *l ^= r)`, `let mut x = None` (type from the first assignment), a nested `fn`,
struct literals `Self { a, b }`, `#[derive(Default)]` values, `Ordering` (`cmp`, `then`), shadowing `let`s (alpha-renamed).

Exit status: 0 a Lean module was written | 2 usage / IO error | 3 a construct outside the supported subset inside a
target item (or a target item / source file / external signature is missing or changed); one line on stderr; nothing is
written (never a guess).
"""
import hashlib
import os
import re
import sys

sys.path.insert(0, os.path.dirname(os.path.abspath(__file__)))
import translate_pw as pw  # noqa: E402
import translate_nonce as tn  # noqa: E402
import translate_addr as ta  # noqa: E402
import translate_trojan as tt  # noqa: E402
import translate_sstcp as st  # noqa: E402
from translate_pw import Unsupported, Node  # noqa: E402
from translate_addr import INTS, ARITH_INTS, BITS, LEAN_INT, PREFIX, ARITH_PREFIX, is_bytes, Var  # noqa: E402
from translate_sstcp import ExtFn, AVar, FnSig, lean_type, lean_atom, type_str, show_type, show_pat, show_expr, lean_name  # noqa: E402

MAIN_TARGETS = {
    "Session": ("new", "increase_packet_id"),
    "AEADCipherCodec": ("new_decoder", "decode_client_packet_aead_2022", "decode_server_packet_aead_2022", "decode",
                        "new_encoder", "encode_client_packet_aead_2022", "encode_server_packet_aead_2022", "encode"),
    "SessionCodec": ("decode", "encode"),
}
ORD_TARGET = ("CipherKey", "cmp")
MAIN_STRUCTS = ("AEADCipherCodec", "Context", "Session", "SessionCodec", "CipherKey")
OPAQUE = ("ServerUserManager", "CipherMethod", "ChunkDecoder", "ChunkEncoder")
st.OPAQUE = OPAQUE

USE_SUFFIX = dict(st.USE_SUFFIX)
USE_SUFFIX.update({
    "udp": ["codec", "shadowsocks", "aead_2022", "udp"],
    "CipherMethod": ["codec", "aead", "CipherMethod"],
    "Ordering": ["cmp", "Ordering"],
})
st.USE_SUFFIX = USE_SUFFIX

EXT_FNS = {
    ("udp", "nonce_length"): ExtFn(
        "udp_nonce_length", None, [("CipherKind", False)], "usize", "udp2022", None,
        "fn nonce_length ( kind : CipherKind ) -> usize",
        "`aead_2022::udp::nonce_length(kind)` (the XChaCha nonce size, 0 for the AES kinds; `unreachable!` for the others)", "udp"),
    ("udp", "aes_decrypt_in_place"): ExtFn(
        "udp_aes_decrypt_in_place", None, [("CipherKind", False), ("bytes", False), ("SliceU8", True)], ("result", "unit"), "udp2022", None,
        "fn aes_decrypt_in_place ( kind : CipherKind , key : & [ u8 ] , buf : & mut [ u8 ] ) -> anyhow :: Result < ( ) >",
        "`aead_2022::udp::aes_decrypt_in_place(kind, key, buf)`: one AES block, in place", "udp"),
    ("", "get_cipher"): ExtFn(
        "get_cipher", None, [("CipherKind", False), ("bytes", False), ("u64", False)], "CipherMethod", "main", None,
        "fn get_cipher ( kind : CipherKind , key : & [ u8 ] , session_id : u64 ) -> Arc < CipherMethod >",
        "`get_cipher(kind, key, session_id)` of this file: the cipher of `udp::new_cipher(kind, key, session_id)`, through the "
        "process-wide LRU cache behind a `Mutex` (a `static`; keyed by `CipherKey`, whose `Ord` is translated below)"),
    ("CipherMethod", "decrypt_in_place"): ExtFn(
        "CipherMethod_decrypt_in_place", ("CipherMethod", "ref"), [("bytes", False), ("bytes", False), ("BytesMut", True)], ("result", "unit"),
        "kind", "CipherMethod",
        "fn decrypt_in_place ( & self , nonce : & [ u8 ] , associated_data : & [ u8 ] , ciphertext : & mut dyn Buffer ) -> Result < ( ) , aead :: Error >",
        "`CipherMethod::decrypt_in_place(&self, nonce, aad, buf)`: AEAD open; on success `buf` is the plaintext (tag removed)"),
    ("CipherMethod", "decrypt_in_place_detached"): ExtFn(
        "CipherMethod_decrypt_in_place_detached", ("CipherMethod", "ref"), [("bytes", False), ("bytes", False), ("SliceU8", True)],
        ("result", "unit"), "kind", "CipherMethod",
        "fn decrypt_in_place_detached ( & self , nonce : & [ u8 ] , associated_data : & [ u8 ] , ciphertext : & mut [ u8 ] ) -> Result < ( ) , aead :: Error >",
        "`CipherMethod::decrypt_in_place_detached(&self, nonce, aad, buf)`: AEAD open of `buf` = ciphertext ‖ tag, in place (same "
        "length; panics when `buf` is shorter than the tag)"),
    ("CipherKind", "tag_size"): st.EXT_FNS[("CipherKind", "tag_size")],
    ("ServerUserManager", "user_count"): st.EXT_FNS[("ServerUserManager", "user_count")],
    ("ServerUserManager", "clone_user_by_hash"): ExtFn(
        "ServerUserManager_clone_user_by_hash", ("ServerUserManager", "ref"), [("bytes", False)], ("option", "ServerUser"), "user",
        "ServerUserManager",
        "fn clone_user_by_hash ( & self , user_hash : & [ u8 ] ) -> Option < Arc < ServerUser < N >> >",
        "`ServerUserManager::clone_user_by_hash(&self, hash)`: the registered user with this identity hash"),
    ("aead", "new_decoder"): st.EXT_FNS[("aead", "new_decoder")],
    ("ChunkDecoder", "decode_packet"): ExtFn(
        "ChunkDecoder_decode_packet", ("ChunkDecoder", "mut"), [("BytesMut", True)], ("result", "BytesMut"), "chunk", "ChunkDecoder",
        "fn decode_packet ( & mut self , src : & mut BytesMut ) -> Result < BytesMut , aes_gcm :: aead :: Error >",
        "`ChunkDecoder::decode_packet(&mut self, src)`: takes all of `src`, AEAD open under the first nonce"),
    ("aead_2022", "now"): st.EXT_FNS[("aead_2022", "now")],
    ("aead_2022", "next_padding_length"): st.EXT_FNS[("aead_2022", "next_padding_length")],
    ("dice", "roll_bytes"): st.EXT_FNS[("dice", "roll_bytes")],
    ("dice", "fill_bytes"): ExtFn(
        "dice_fill_bytes", None, [("SliceU8", True)], "unit", "util", ("mod", "dice"),
        "fn fill_bytes ( bytes : & mut [ u8 ] )",
        "`dice::fill_bytes(bytes)`: overwrites `bytes` with random bytes (same length)", "dice"),
    ("udp", "with_eih"): ExtFn(
        "udp_with_eih", None, [("CipherKind", False), ("bytes", False), ("ListArr", False), ("bytes", False), ("BytesMut", True)],
        ("result", "unit"), "udp2022", None,
        "fn with_eih < const N : usize > ( kind : CipherKind , key : & [ u8 ] , identity_keys : & [ [ u8 ; N ] ] , "
        "session_id_packet_id : & [ u8 ] , dst : & mut BytesMut , ) -> anyhow :: Result < ( ) >",
        "`aead_2022::udp::with_eih(kind, key, identity_keys, session_id_packet_id, dst)`: appends one identity header per identity key", "udp"),
    ("udp", "aes_encrypt_in_place"): ExtFn(
        "udp_aes_encrypt_in_place", None, [("CipherKind", False), ("bytes", False), ("SliceU8", True)], ("result", "unit"), "udp2022", None,
        "fn aes_encrypt_in_place ( kind : CipherKind , key : & [ u8 ] , header : & mut [ u8 ] ) -> anyhow :: Result < ( ) >",
        "`aead_2022::udp::aes_encrypt_in_place(kind, key, header)`: one AES block, in place", "udp"),
    ("CipherMethod", "encrypt_in_place_detached"): ExtFn(
        "CipherMethod_encrypt_in_place_detached", ("CipherMethod", "ref"), [("bytes", False), ("bytes", False), ("SliceU8", True)],
        ("result", "unit"), "kind", "CipherMethod",
        "fn encrypt_in_place_detached ( & self , nonce : & [ u8 ] , associated_data : & [ u8 ] , plaintext : & mut [ u8 ] ) -> Result < ( ) , aead :: Error >",
        "`CipherMethod::encrypt_in_place_detached(&self, nonce, aad, buf)`: AEAD seal of all but the last `tag_size` bytes of `buf`, in "
        "place, the tag written into the last `tag_size` bytes (same length; panics when `buf` is shorter than the tag)"),
    ("aead", "new_encoder"): st.EXT_FNS[("aead", "new_encoder")],
    ("ChunkEncoder", "encode_packet"): ExtFn(
        "ChunkEncoder_encode_packet", ("ChunkEncoder", "mut"), [("BytesMut", False), ("BytesMut", True)], ("result", "unit"), "chunk",
        "ChunkEncoder",
        "fn encode_packet ( & mut self , mut src : BytesMut , dst : & mut BytesMut ) -> Result < ( ) , aes_gcm :: aead :: Error >",
        "`ChunkEncoder::encode_packet(&mut self, src, dst)`: AEAD seal of `src` under the first nonce, appended to `dst`"),
}
EXT_ORDER = [k for k in EXT_FNS]
st.EXT_FNS = EXT_FNS
CALL_PATHS = {
    "udp_nonce_length": [["udp", "nonce_length"]],
    "udp_aes_decrypt_in_place": [["udp", "aes_decrypt_in_place"]],
    "get_cipher": [["get_cipher"]],
    "aead_new_decoder": [["super", "aead", "new_decoder"]],
    "aead_new_encoder": [["super", "aead", "new_encoder"]],
    "aead_2022_now": [["aead_2022", "now"]],
    "aead_2022_next_padding_length": [["aead_2022", "next_padding_length"]],
    "dice_roll_bytes": [["dice", "roll_bytes"]],
    "dice_fill_bytes": [["dice", "fill_bytes"]],
    "udp_with_eih": [["udp", "with_eih"]],
    "udp_aes_encrypt_in_place": [["udp", "aes_encrypt_in_place"]],
}

_st_method_sig = st.method_sig


def method_sig(rty, name):
    if rty == "BytesMut" and name == "split_off":
        return (["usize"], "BytesMut", "read", "Flow.split_off")
    if rty == "ListArr" and name == "is_empty":
        return ([], "bool", "pure", "List.isEmpty")
    if rty == "ListArr" and name == "len":
        return ([], "usize", "pure", "ListArr.len")
    if rty in OPAQUE:
        return None
    return _st_method_sig(rty, name)


for _m in (ta, tt, st):
    _m.method_sig = method_sig

_st_show_expr = st.show_expr


def show_expr2(e):
    k = e.kind
    if k == "index_range":
        return "%s[%s..%s]" % (show_expr2(e.base), show_expr2(e.lo) if e.lo is not None else "", show_expr2(e.hi) if e.hi is not None else "")
    if k == "xorassign":
        return "%s ^= %s" % (show_expr2(e.target), show_expr2(e.expr))
    if k == "structlit":
        return "%s { %s }" % (e.name, ", ".join(n for n, _ in e.fields))
    if k == "advmut":
        return "unsafe { %s.advance_mut(%s) }" % (show_expr2(e.base), show_expr2(e.arg))
    return _st_show_expr(e)


for _m in (ta, tt, st):
    _m.show_expr = show_expr2
show_expr = show_expr2
_st_show_pat = st.show_pat


def show_pat2(p):
    if p.kind == "pbind" and getattr(p, "mut", False):
        return "mut " + p.name
    if p.kind == "ptuple":
        return "(%s)" % ", ".join(show_pat2(x) for x in p.subs)
    return _st_show_pat(p)


for _m in (ta, tt, st):
    _m.show_pat = show_pat2
tt.show_pat_t = show_pat2
show_pat = show_pat2
ta.MUTATING = re.compile(ta.MUTATING.pattern + r"|split_off|copy_from_slice|reserve")

# lean_type is called through the module globals of ta / tt / st
_orig_lt = st.lean_type
for _m in (ta, tt, st):
    _m.lean_type = lambda t, _f=None: _lt(t)


def _lt(t):
    if t == "Ordering":
        return "Ordering"
    if isinstance(t, tuple) and t[0] == "option" and t[1] is None:
        return "Option _"
    if isinstance(t, tuple) and t[0] == "option":
        return "Option %s" % _la(t[1])
    if isinstance(t, tuple) and t[0] == "tuple":
        return " × ".join(_la(x) for x in t[1])
    if isinstance(t, tuple) and t[0] == "result":
        return "RResult %s" % _la(t[1])
    return _orig_lt(t)


def _la(t):
    s = _lt(t)
    return "(%s)" % s if " " in s else s


for _m in (ta, tt, st):
    _m.lean_atom = _la
lean_type = _lt
lean_atom = _la


# --------------------------------------------------------------------------------------------
# parser
# --------------------------------------------------------------------------------------------

def erase_lifetimes(toks):
    """lifetimes play no role in the translation: `'a` (and the `,` after it inside `<..>`) is dropped"""
    out = []
    i = 0
    while i < len(toks):
        t = toks[i]
        if t.kind == "lifetime":
            if i + 1 < len(toks) and toks[i + 1].text == "," and out and out[-1].text == "<":
                i += 2
            else:
                i += 1
            continue
        out.append(t)
        i += 1
    return out


class Parser(st.Parser):
    """`role`: main | mode | kind | ts | udp2022 | legacy | chunk | user | address"""

    def __init__(self, toks, role):
        st.Parser.__init__(self, erase_lifetimes(toks), role)
        self.last_attrs = []
        self.aliases = {}        # type alias name -> (generic, type node)
        self.local_fns = []      # nested fns: (outer fn name, fn node)
        if role == "main":
            self.scan_aliases()

    def scan_aliases(self):
        toks = self.toks
        depth = 0
        for i, t in enumerate(toks):
            if t.kind == "punct" and t.text == "{":
                depth += 1
            elif t.kind == "punct" and t.text == "}":
                depth -= 1
            elif depth == 0 and t.kind == "ident" and t.text == "type" and toks[i + 1].kind == "ident":
                save = self.pos
                self.pos = i + 1
                name = self.ident().text
                gen = self.parse_generics()
                self.expect("=")
                self.generic = gen
                ty = self.parse_type()
                self.generic = None
                self.expect(";")
                self.aliases[name] = (gen, ty)
                self.pos = save

    def check_attrs(self, attrs):
        self.last_attrs = attrs
        st.Parser.check_attrs(self, attrs)

    def derives(self):
        out = []
        for text, _ in self.last_attrs:
            m = re.match(r"\s*derive\s*\((.*)\)\s*$", text, re.S)
            if m:
                out += [x.strip() for x in m.group(1).split(",") if x.strip()]
        return out

    def wanted_enum(self, name, depth):
        return {"mode": name == "Mode" and depth == 0, "kind": name == "CipherKind" and depth == 0,
                "address": name == "Address"}.get(self.role, False)

    def wanted_struct(self, name):
        return {"main": name in MAIN_STRUCTS, "user": name == "ServerUser"}.get(self.role, False)

    def wanted_impl(self, trait, targs, ty):
        if trait is not None:
            return self.role == "main" and (ty, trait) == (ORD_TARGET[0], "Ord")
        return {"main": ty in MAIN_TARGETS, "mode": ty == "Mode", "kind": ty == "CipherKind"}.get(self.role, False)

    def wanted_fn(self, ty, name):
        if self.role == "main":
            return name in MAIN_TARGETS.get(ty, ()) or (ty, name) == ORD_TARGET
        if self.role == "kind":
            return name in ("is_aead_2022", "support_eih")
        return True

    def parse_struct(self):
        d = self.derives()
        s = st.Parser.parse_struct(self)
        s.derives = d
        return s

    def parse_enum(self):
        d = self.derives()
        e = st.Parser.parse_enum(self)
        e.derives = d
        return e

    def parse_fn(self):
        # a generic header `<const N: usize>` (nested fn); nested fns at the start of the body are lifted out
        k = self.pos
        assert self.toks[k].text == "fn"
        name = self.toks[k + 1].text
        gen = None
        if self.toks[k + 2].text == "<":
            if [x.text for x in self.toks[k + 2:k + 8]] != ["<", "const", self.toks[k + 4].text, ":", "usize", ">"]:
                raise Unsupported("generic fn `%s` (only `<const N: usize>`)" % name, self.toks[k].line)
            gen = self.toks[k + 4].text
            del self.toks[k + 2:k + 8]
        # find the body's `{`
        j = k
        depth = 0
        while True:
            t = self.toks[j]
            if t.kind == "eof":
                raise Unsupported("fn without a body", self.toks[k].line)
            if t.kind == "punct" and t.text in ("(", "[", "<") and not (t.text == "<" and depth == 0 and j > k + 2 and False):
                pass
            if t.kind == "punct" and t.text == "(":
                depth += 1
            elif t.kind == "punct" and t.text == ")":
                depth -= 1
            elif t.kind == "punct" and t.text == "{" and depth == 0:
                break
            j += 1
        # a parameter written as a tuple pattern `(a, b, c): T` becomes `arg__k: T` + `let (a, b, c) = arg__k;`
        tuple_params = []
        i = k
        while self.toks[i].text != "(":
            i += 1
        depth = 0
        while i < j:
            tx = self.toks[i].text
            if tx == "(":
                depth += 1
                if depth == 2 and self.toks[i - 1].text in ("(", ","):
                    e = i
                    names = []
                    while self.toks[e].text != ")":
                        e += 1
                        if self.toks[e].kind == "ident":
                            names.append(self.toks[e].text)
                        elif self.toks[e].text not in (",", ")"):
                            raise Unsupported("parameter pattern", self.toks[i].line)
                    if self.toks[e + 1].text != ":":
                        raise Unsupported("parameter pattern", self.toks[i].line)
                    nm = "arg__%d" % len(tuple_params)
                    tuple_params.append((nm, names, self.toks[i].line))
                    self.toks[i:e + 1] = [pw.Tok("ident", nm, self.toks[i].line)]
                    j -= (e - i)
                    depth -= 1
            elif tx == ")":
                depth -= 1
            i += 1
        nested = []
        while self.toks[j + 1].kind == "ident" and self.toks[j + 1].text == "fn":
            save = self.pos
            self.pos = j + 1
            saved_generic = self.generic
            inner = self.parse_fn()
            self.generic = saved_generic
            end = self.pos
            del self.toks[j + 1:end]
            self.pos = save
            nested.append(inner)
        saved_generic = self.generic
        if gen is not None:
            self.generic = gen
        fn = st.Parser.parse_fn(self)
        self.generic = saved_generic
        fn.own_generic = gen
        for nm, names, ln in reversed(tuple_params):
            pat = Node("ptuple", ln, subs=[Node("pbind", ln, name=n) for n in names])
            fn.body.stmts.insert(0, Node("lettuple", ln, pat=pat, expr=Node("var", ln, name=nm)))
        for inner in nested:
            inner.outer = fn.name
            self.local_fns.append(inner)
        fn.nested = [n.name for n in nested]
        return fn

    def parse_match(self):
        line = self.expect("match").line
        scrut = self.parse_expr(no_struct=True)
        self.expect("{")
        arms = []
        while not self.at("}"):
            if self.at("#"):
                raise Unsupported("attribute on a match arm", self.tok.line)
            al = self.tok.line
            self.accept("|")
            pats = [self.parse_pattern()]
            while self.accept("|"):
                pats.append(self.parse_pattern())
            if len(pats) > 1 and any(self.binds(p) for p in pats):
                raise Unsupported("or-pattern with bindings", al)
            if self.at("if"):
                raise Unsupported("match guard", al)
            self.expect("=>")
            if self.at("{"):
                body = self.parse_block()
                self.accept(",")
            else:
                body = self.parse_expr()
                if not self.at("}"):
                    self.expect(",")
            for p in pats:
                arms.append(Node("arm", al, pat=p, guard=None, body=body))
        self.expect("}")
        return Node("match", line, scrut=scrut, arms=arms)

    def binds(self, p):
        if p.kind == "pbind":
            return True
        return any(self.binds(x) for x in getattr(p, "subs", []))

    def parse_pattern(self):
        t = self.tok
        if t.kind == "ident" and t.text == "mut":
            self.advance()
            n = self.ident().text
            return Node("pbind", t.line, name=n, mut=True)
        return st.Parser.parse_pattern(self)

    def parse_postfix(self, ns):
        e = self.parse_primary(ns)
        while True:
            if self.at("."):
                line = self.advance().line
                if self.tok.kind in ("int", "float"):
                    raise Unsupported("tuple field access", line)
                if self.at("await"):
                    raise Unsupported("`.await`", line)
                f = self.ident().text
                if self.at("::"):
                    raise Unsupported("method call with explicit type arguments `.%s::<...>`" % f, line)
                if not self.at("("):
                    e = Node("field", line, base=e, name=f)
                else:
                    e = Node("mcall", line, base=e, name=f, args=self.parse_args())
            elif self.at("["):
                line = self.advance().line
                lo = hi = None
                if self.at("..="):
                    raise Unsupported("inclusive range index", line)
                if self.at(".."):
                    self.advance()
                    if self.at("]"):
                        self.advance()
                        e = Node("index_full", line, base=e)
                        continue
                    hi = self.parse_expr()
                    self.expect("]")
                    e = Node("index_range", line, base=e, lo=None, hi=hi)
                    continue
                idx = self.parse_expr()
                if self.at("..="):
                    raise Unsupported("inclusive range index", line)
                if self.at(".."):
                    self.advance()
                    lo = idx
                    if not self.at("]"):
                        hi = self.parse_expr()
                    self.expect("]")
                    e = Node("index_range", line, base=e, lo=lo, hi=hi)
                    continue
                self.expect("]")
                e = Node("index", line, base=e, idx=idx)
            elif self.at("("):
                raise Unsupported("call of a computed function value", self.tok.line)
            elif self.at("?"):
                line = self.advance().line
                e = Node("try", line, expr=e)
            else:
                return e

    def parse_primary(self, ns):
        t = self.tok
        if self.at("unsafe"):
            # the one trusted `unsafe` idiom, token by token:  unsafe { D . advance_mut ( E ) [;] }
            k = self.pos
            pat = [x.text for x in self.toks[k:k + 6]]
            if not (pat[1] == "{" and self.toks[k + 2].kind == "ident" and pat[3] == "." and pat[4] == "advance_mut" and pat[5] == "("):
                raise Unsupported("`unsafe` block outside the trusted idiom `unsafe { D.advance_mut(E) }`", t.line)
            self.pos = k + 2
            d = self.ident()
            self.expect(".")
            self.expect("advance_mut")
            args = self.parse_args()
            self.accept(";")
            if not self.at("}") or len(args) != 1:
                raise Unsupported("`unsafe` block outside the trusted idiom `unsafe { D.advance_mut(E) }`", t.line)
            self.advance()
            return Node("advmut", t.line, base=Node("var", d.line, name=d.text), arg=args[0])
        if self.at("|") and self.peek().text == "(":
            # `|(l, r)| *l ^= r`
            self.advance()
            self.expect("(")
            names = []
            while not self.at(")"):
                names.append(self.ident().text)
                if not self.accept(","):
                    break
            self.expect(")")
            self.expect("|")
            if self.at("{"):
                raise Unsupported("closure with a block body", t.line)
            lhs = self.parse_expr()
            if not self.at("^="):
                raise Unsupported("closure over a tuple pattern (only `|(l, r)| *l ^= r`)", t.line)
            self.advance()
            rhs = self.parse_expr()
            return Node("closure", t.line, params=["(%s)" % ", ".join(names)], tparams=names,
                        body=Node("xorassign", t.line, target=lhs, expr=rhs))
        if self.at("Self") and self.peek().text == "{" and not ns:
            self.advance()
            self.expect("{")
            fields = []
            while not self.at("}"):
                fl = self.tok.line
                n = self.ident().text
                if self.accept(":"):
                    v = self.parse_expr()
                else:
                    v = Node("var", fl, name=n)
                fields.append((n, v))
                if self.at(".."):
                    raise Unsupported("struct update syntax", fl)
                if not self.accept(","):
                    break
            self.expect("}")
            return Node("structlit", t.line, name="Self", fields=fields)
        return st.Parser.parse_primary(self, ns)


# --------------------------------------------------------------------------------------------
# alpha-renaming of `let`s / pattern bindings that shadow a mutable binding
# --------------------------------------------------------------------------------------------

def alpha_rename(fn, mut_names):
    counter = {}

    def fresh(n, muts):
        while True:
            counter[n] = counter.get(n, 1) + 1
            c = "%s__%d" % (n, counter[n])
            if c not in muts:
                return c

    def bind(name, m, muts, is_mut):
        emitted = name
        if emitted in muts:
            emitted = fresh(name, muts)
        if emitted != name:
            m[name] = emitted
        else:
            m.pop(name, None)
        if is_mut:
            muts.add(emitted)
        return emitted

    def pat_bind(p, m, muts):
        if p.kind == "pbind":
            p.name = bind(p.name, m, muts, bool(getattr(p, "mut", False)) or getattr(p, "byref", None) == "mut")
        for x in getattr(p, "subs", []):
            pat_bind(x, m, muts)

    def walk(n, m, muts):
        if isinstance(n, list):
            for x in n:
                walk(x, m, muts)
            return
        if isinstance(n, tuple):
            for x in n:
                walk(x, m, muts)
            return
        if not isinstance(n, Node):
            return
        k = n.kind
        if k == "var":
            if n.name in m:
                n.name = m[n.name]
            return
        if k == "block":
            m2, muts2 = dict(m), set(muts)
            for s in n.stmts:
                if s.kind == "let":
                    walk(s.expr, m2, muts2)
                    s.name = bind(s.name, m2, muts2, s.mut)
                elif s.kind == "lettuple":
                    walk(s.expr, m2, muts2)
                    view = s.expr.kind == "mcall" and s.expr.name == "split_at_mut"
                    for sp in s.pat.subs:
                        if sp.kind == "pbind":
                            sp.name = bind(sp.name, m2, muts2, view or bool(getattr(sp, "mut", False)))
                else:
                    walk(s, m2, muts2)
            if n.tail is not None:
                walk(n.tail, m2, muts2)
            return
        if k == "match":
            walk(n.scrut, m, muts)
            seen = set()
            for a in n.arms:
                m2, muts2 = dict(m), set(muts)
                if id(a.pat) not in seen:
                    seen.add(id(a.pat))
                pat_bind(a.pat, m2, muts2)
                if id(a.body) in seen:
                    continue
                seen.add(id(a.body))
                walk(a.body, m2, muts2)
            return
        if k == "closure":
            m2 = dict(m)
            for p in getattr(n, "tparams", n.params):
                m2.pop(p, None)
            walk(n.body, m2, muts)
            return
        for key, val in n.__dict__.items():
            if key in ("kind", "line", "ty"):
                continue
            if isinstance(val, (Node, list, tuple)):
                walk(val, m, muts)
    walk(fn.body, {}, set(mut_names))


# --------------------------------------------------------------------------------------------
# type checker + emitter
# --------------------------------------------------------------------------------------------

class View:
    """alias marker of a variable made by `split_at_mut`: `root` = the parts, in order"""
    def __init__(self, root, parts):
        self.root, self.parts = root, parts

    def __getitem__(self, i):
        if i == 0:
            return self.root
        raise IndexError(i)


class Gen(st.Gen):
    def __init__(self, all_idents, uses):
        st.Gen.__init__(self, all_idents, uses)
        self.local = {}          # nested fn name -> FnSig
        self.defaults = set()    # structs with #[derive(Default)]
        self.ord_enums = set()   # enums with #[derive(PartialOrd, Ord)]
        self.aliases = {}
        self.reserved = set()    # buffers on which `reserve(..)` was called earlier in the function
        self.uses_spare = False

    # ------------------------------------------------------------------ types
    def resolve_type(self, t):
        if t.kind == "tname" and t.name in self.aliases and len(t.segs) == 1:
            gen, ty = self.aliases[t.name]
            if gen is not None:
                if len(t.args) != 1 or t.args[0].kind != "tname" or t.args[0].segs != [self.generic]:
                    raise Unsupported("`%s` (only with the const generic in scope)" % show_type(t), t.line)
                if gen != self.generic:
                    raise Unsupported("alias `%s` over another generic name" % t.name, t.line)
            return self.resolve_type(ty)
        if t.kind == "tname" and t.name == "Ordering" and len(t.segs) == 1 and not t.args:
            if self.in_main:
                self.require_use("Ordering", t.line)
            return "Ordering", False
        if t.kind == "tname" and t.name in ("CipherMethod", "ChunkDecoder") and len(t.segs) == 1 and not t.args:
            return t.name, False
        return st.Gen.resolve_type(self, t)

    # ------------------------------------------------------------------ aliases
    def after_rebind(self, v, pre):
        a = getattr(v, "alias", None)
        if isinstance(a, View):
            root = self.lookup(a.root, 0)
            val = " ++ ".join(lean_name(p) for p in a.parts)
            pre.append("let %s : %s := %s" % (self.vname(root), lean_type(root.ty), val))
            self.after_rebind(root, pre)
            return
        st.Gen.after_rebind(self, v, pre)

    # ------------------------------------------------------------------ externals
    def ext_of_call(self, segs):
        segs = list(segs)
        for key, x in EXT_FNS.items():
            if x.recv is None and segs in CALL_PATHS.get(x.field, []):
                return x
        if segs == ["now"] and self.allow_now:
            return EXT_FNS[("aead_2022", "now")]
        return None

    # ------------------------------------------------------------------ types of expressions
    def try_type(self, e):
        k = e.kind
        if k == "index_range":
            return "SliceU8" if is_bytes(self.try_type(e.base)) else None
        if k == "advmut":
            return "unit"
        if k == "index" and self.try_type(e.base) == "ListArr":
            return ("array", self.generic)
        if k == "repeat":
            n = e.len
            if n.kind == "lit" and n.suffix in (None, "usize"):
                return ("array", n.value)
            return st.Gen.try_type(self, e)
        if k == "structlit":
            return self.self_type
        if k == "var" and e.name != "None":
            try:
                v = self.lookup(e.name, e.line)
            except Unsupported:
                return st.Gen.try_type(self, e)
            if v.ty == ("option", None):
                return None
            return v.ty
        if k == "call":
            segs = e.segs
            if len(segs) == 1 and segs[0] in self.local:
                return self.local[segs[0]].ret
            if segs == ["u64", "from_be_bytes"]:
                return "u64"
            if segs == ["BytesMut", "with_capacity"]:
                return "BytesMut"
            if len(segs) == 2 and segs[1] == "default" and segs[0] in self.defaults:
                return segs[0]
        if k == "mcall":
            n = e.name
            if n in ("cmp", "then"):
                return "Ordering"
            if n == "wrapping_add":
                return self.try_type(e.base)
            bt = self.try_type(e.base)
            if bt == "IoCursor" and n == "get_u64":
                return "u64"
            if is_bytes(bt) and n == "copy_from_slice":
                return "unit"
            if bt == "BytesMut" and n == "reserve":
                return "unit"
            if n == "for_each":
                return "unit"
        return st.Gen.try_type(self, e)

    # ------------------------------------------------------------------ expressions
    def usize_term(self, e, pre):
        ty, t = self.ex(e, "usize", pre)
        if ty != "usize":
            raise Unsupported("index of type `%s` (rustc would reject)" % type_str(ty), e.line)
        return t

    def ex(self, e, expected, pre):
        k = e.kind
        if k == "advmut":
            v, fields, ty = self.place_of(e.base, "`advance_mut`")
            if fields or ty != "BytesMut":
                raise Unsupported("`advance_mut` on `%s`" % show_expr(e.base), e.line)
            if v.name not in self.reserved:
                raise Unsupported("`unsafe { %s.advance_mut(..) }` without an earlier `%s.reserve(..)` in the function (the trusted idiom "
                                  "needs the spare capacity)" % (v.name, v.name), e.line)
            n = self.usize_term(e.arg, pre)
            self.uses_spare = True
            self.write_place(v, [], "(Cursor.advance_mut %s %s (%s.spare_bytes %s))" % (self.vname(v), n, self.X, n), pre)
            return "unit", "()"
        if k == "index" and self.try_type(e.base) == "ListArr":
            _, b = self.ex(e.base, None, pre)
            i = self.usize_term(e.idx, pre)
            x = self.fresh()
            pre.append("Flow.bind (Flow.listAt %s %s) fun %s =>" % (b, i, x))
            return ("array", self.generic), x
        if k == "index_range":
            bty, b = self.ex(e.base, None, pre)
            if not is_bytes(bty):
                raise Unsupported("range index into a `%s`" % type_str(bty), e.line)
            v = self.fresh()
            if e.lo is None:
                hi = self.usize_term(e.hi, pre)
                pre.append("Flow.bind (Flow.slice %s (0 : Usize) %s) fun %s =>" % (b, hi, v))
            elif e.hi is None:
                lo = self.usize_term(e.lo, pre)
                pre.append("Flow.bind (Flow.slice %s %s (Cursor.len %s)) fun %s =>" % (b, lo, b, v))
            else:
                lo = self.usize_term(e.lo, pre)
                hi = self.usize_term(e.hi, pre)
                pre.append("Flow.bind (Flow.slice %s %s %s) fun %s =>" % (b, lo, hi, v))
            return "SliceU8", v
        if k == "repeat" and e.len.kind == "lit":
            if e.len.suffix not in (None, "usize"):
                raise Unsupported("array length `%s`" % show_expr(e.len), e.line)
            want = "u8"
            if isinstance(expected, tuple) and expected[0] == "array" and expected[1] != e.len.value:
                raise Unsupported("array of length %d where `%s` is expected (rustc would reject)" % (e.len.value, type_str(expected)), e.line)
            ty, t = self.ex(e.elem, want, pre)
            if ty != "u8":
                raise Unsupported("array repeat of a `%s`" % type_str(ty), e.line)
            return ("array", e.len.value), "(List.replicate %d %s)" % (e.len.value, t)
        if k == "structlit":
            sname = self.self_type
            if sname not in self.structs:
                raise Unsupported("struct literal of `%s`" % sname, e.line)
            want = self.structs[sname]
            if sorted(n for n, _ in e.fields) != sorted(n for n, _ in want):
                raise Unsupported("struct literal: fields differ from `struct %s` (rustc would reject)" % sname, e.line)
            parts = []
            for n, v in e.fields:
                fty = dict(want)[n]
                ty, t = self.ex(v, fty, pre)
                if ty != fty:
                    raise Unsupported("field `%s` of type `%s`, expected `%s` (rustc would reject)" % (n, type_str(ty), type_str(fty)), e.line)
                parts.append("%s := %s" % (lean_name(n), t))
            return sname, "({ %s } : %s)" % (", ".join(parts), lean_type(sname))
        if k == "var" and e.name != "None":
            try:
                v = self.lookup(e.name, e.line)
            except Unsupported:
                v = None
            if v is not None and v.ty == ("option", None):
                if isinstance(expected, tuple) and expected[0] == "option" and expected[1] is not None:
                    v.ty = expected
                else:
                    raise Unsupported("use of `%s` before its type is determined" % e.name, e.line)
        return st.Gen.ex(self, e, expected, pre)

    def ex_call(self, e, expected, pre):
        segs = e.segs
        if len(segs) == 1 and segs[0] in self.local:
            return self.call_fn(self.local[segs[0]], None, e.args, pre, e.line)
        if segs == ["u64", "from_be_bytes"]:
            (t,) = self.args(e, [("array", 8)], pre, "`u64::from_be_bytes`")
            return "u64", "(U64.from_be_bytes %s)" % t
        if segs == ["BytesMut", "from"]:
            if self.in_main:
                self.require_use("BytesMut", e.line)
            (t,) = self.args(e, ["bytes"], pre, "`BytesMut::from`")
            return "BytesMut", t
        if segs == ["BytesMut", "with_capacity"]:
            if self.in_main:
                self.require_use("BytesMut", e.line)
            self.args(e, ["usize"], pre, "`BytesMut::with_capacity`")
            return "BytesMut", "([] : List UInt8)"
        if len(segs) == 2 and segs[1] == "default" and segs[0] in self.defaults and not e.args:
            parts = []
            for n, ty in self.structs[segs[0]]:
                if ty in ARITH_INTS:
                    parts.append("%s := 0" % lean_name(n))
                elif isinstance(ty, tuple) and ty[0] == "option":
                    parts.append("%s := none" % lean_name(n))
                else:
                    raise Unsupported("`%s::default()`: field `%s: %s`" % (segs[0], n, type_str(ty)), e.line)
            return segs[0], "({ %s } : %s)" % (", ".join(parts), lean_type(segs[0]))
        return st.Gen.ex_call(self, e, expected, pre)

    def is_xor_zip(self, e):
        """`A.iter_mut().zip(B).for_each(|(l, r)| *l ^= r)` -> (A, B)"""
        if e.kind != "mcall" or e.name != "for_each" or len(e.args) != 1:
            return None
        c = e.args[0]
        z = e.base
        if c.kind != "closure" or len(getattr(c, "tparams", [])) != 2 or c.body.kind != "xorassign":
            return None
        l, r = c.tparams
        tg, ex = c.body.target, c.body.expr
        if not (tg.kind == "deref" and tg.expr.kind == "var" and tg.expr.name == l and ex.kind == "var" and ex.name == r and l != r):
            return None
        if not (z.kind == "mcall" and z.name == "zip" and len(z.args) == 1 and z.base.kind == "mcall" and z.base.name == "iter_mut"
                and not z.base.args):
            return None
        return z.base.base, z.args[0]

    def ex_mcall(self, e, expected, pre):
        n = e.name
        xz = self.is_xor_zip(e)
        if n == "for_each":
            if xz is None:
                raise Unsupported("`.for_each(..)` (only `a.iter_mut().zip(b).for_each(|(l, r)| *l ^= r)`)", e.line)
            a, b = xz
            v, fields, ty = self.place_of(a, "`.iter_mut()`")
            if not is_bytes(ty):
                raise Unsupported("`.iter_mut()` on a `%s`" % type_str(ty), e.line)
            bty, bt = self.ex(b, None, pre)
            if not is_bytes(bty):
                raise Unsupported("`.zip(..)` with a `%s`" % type_str(bty), e.line)
            self.write_place(v, fields, "(Bytes.xor_zip %s %s)" % (self.place_term(v, fields), bt), pre)
            return "unit", "()"
        if n == "reserve" and len(e.args) == 1 and self.try_type(e.base) == "BytesMut":
            v, fields, ty = self.place_of(e.base, "`.reserve(..)`")
            if fields:
                raise Unsupported("`.reserve(..)` on a field", e.line)
            self.usize_term(e.args[0], pre)      # evaluated: its `+` can overflow
            self.reserved.add(v.name)
            return "unit", "()"
        if n == "copy_from_slice" and len(e.args) == 1:
            v, fields, ty = self.place_of(e.base, "`.copy_from_slice(..)`")
            if not is_bytes(ty):
                raise Unsupported("`.copy_from_slice(..)` on a `%s`" % type_str(ty), e.line)
            sty, s = self.ex(e.args[0], None, pre)
            if not is_bytes(sty):
                raise Unsupported("`.copy_from_slice(..)` from a `%s`" % type_str(sty), e.line)
            x = self.fresh()
            pre.append("Flow.bind (Flow.copy_from_slice %s %s) fun %s =>" % (self.place_term(v, fields), s, x))
            self.write_place(v, fields, x, pre)
            return "unit", "()"
        if n == "cmp" and len(e.args) == 1:
            lt, l = self.ex(e.base, None, pre)
            rt, r = self.ex(e.args[0], lt, pre)
            if lt != rt:
                raise Unsupported("`.cmp(..)` of a `%s` with a `%s` (rustc would reject)" % (type_str(lt), type_str(rt)), e.line)
            if lt in ARITH_INTS:
                return "Ordering", "(compare %s %s)" % (l, r)
            if lt in self.ord_enums:
                return "Ordering", "(compare (%s.as_u8 %s) (%s.as_u8 %s))" % (lt, l, lt, r)
            raise Unsupported("`.cmp(..)` on a `%s` (no derived `Ord` known)" % type_str(lt), e.line)
        if n == "wrapping_add" and len(e.args) == 1:
            lt, l = self.ex(e.base, None, pre)
            if lt not in ARITH_INTS:
                raise Unsupported("`.wrapping_add(..)` on a `%s`" % type_str(lt), e.line)
            rt, r = self.ex(e.args[0], lt, pre)
            if rt != lt:
                raise Unsupported("`.wrapping_add(..)` of a `%s` and a `%s` (rustc would reject)" % (type_str(lt), type_str(rt)), e.line)
            return lt, "(%s + %s)" % (l, r)
        if n == "then" and len(e.args) == 1:
            lt, l = self.ex(e.base, None, pre)
            rt, r = self.ex(e.args[0], None, pre)
            if lt != "Ordering" or rt != "Ordering":
                raise Unsupported("`.then(..)` on a `%s`" % type_str(lt), e.line)
            return "Ordering", "(Ordering.then %s %s)" % (l, r)
        return st.Gen.ex_mcall(self, e, expected, pre)

    def ex_iocursor(self, e, pre):
        if e.name == "get_u64" and not e.args:
            b = self.strip(e.base)
            if b.kind != "var":
                raise Unsupported("`.get_u64()` on `%s` (only on a variable)" % show_expr(e.base), e.line)
            v = self.lookup(b.name, b.line)
            if not v.mut:
                raise Unsupported("`.get_u64()` on immutable `%s` (rustc would reject)" % b.name, e.line)
            x = self.fresh()
            name = self.vname(v)
            pre.append("Flow.bind (Flow.io_get_u64 %s) fun (%s, %s) =>" % (name, name, x))
            return "u64", x
        return st.Gen.ex_iocursor(self, e, pre)

    def leaf(self, e, ind, mode):
        if mode[0] == "value" and is_bytes(mode[2]) and not (e.kind == "macro" and e.name == "bail") and e.kind != "return":
            pre = []
            self.emit(ind, "-- L%d: %s   (value)" % (e.line, show_expr(e)))
            ty, t = self.ex(e, None, pre)
            if not is_bytes(ty):
                raise Unsupported("value of type `%s` where `%s` is expected (rustc would reject)" % (type_str(ty), type_str(mode[2])), e.line)
            self.emit_pre(ind, pre)
            self.emit(ind, "Flow.next %s" % self.tuple_term(mode[1], t))
            return
        st.Gen.leaf(self, e, ind, mode)

    # ------------------------------------------------------------------ statements
    def outer_mutated(self, nodes):
        names = st.Gen.outer_mutated(self, nodes)
        extra = []

        def walk(n):
            if isinstance(n, list):
                for x in n:
                    walk(x)
                return
            if not isinstance(n, Node):
                return
            xz = self.is_xor_zip(n) if n.kind == "mcall" else None
            if xz is not None:
                b = self.strip(xz[0])
                if b.kind == "var":
                    extra.append(b.name)
            if n.kind == "advmut":
                extra.append(n.base.name)
            if n.kind == "assign":
                rs = self.is_reslice(n)
                if rs is not None:
                    extra.append(rs[0].skip)
            for key, val in n.__dict__.items():
                if key not in ("kind", "line", "ty") and isinstance(val, (Node, list)):
                    walk(val)
        walk(nodes)
        out = list(names)
        for n in extra:
            try:
                v = self.lookup(n, 0)
            except Unsupported:
                continue
            if v.order > 0 and v.name not in out:
                out.append(v.name)
        # a change of a view is a change of the buffer it is a part of
        more = True
        while more:
            more = False
            for n in list(out):
                a = getattr(self.lookup(n, 0), "alias", None)
                if isinstance(a, View) and a.root not in out:
                    out.append(a.root)
                    more = True
        out.sort(key=lambda n: self.lookup(n, 0).order)
        return out

    def stmts(self, stmts, ind):
        done = False
        for i, s in enumerate(stmts):
            if done:
                raise Unsupported("statement after `return`/`bail!`", s.line)
            k = s.kind
            if k == "exprstmt" and s.expr.kind == "advmut":
                self.emit(ind, "-- L%d: %s;   (TRUSTED IDIOM: the length grows by that many bytes of the reserved spare capacity, content unspecified)"
                          % (s.line, show_expr(s.expr)))
                pre = []
                self.ex(s.expr, "unit", pre)
                self.emit_pre(ind, pre)
                continue
            if k == "let" and s.ty is None and s.expr.kind == "ref" and s.expr.mut and self.strip(s.expr).kind == "index_range" \
                    and self.strip(s.expr).lo is None and self.strip(s.expr).hi is not None and self.strip(self.strip(s.expr).base).kind == "var":
                r = self.strip(s.expr)
                self.emit(ind, "-- L%d: let %s = %s;   (a view of the first bytes of the buffer: it is rebuilt after every change)" % (
                    s.line, s.name, show_expr(s.expr)))
                v, fields, ty = self.place_of(r.base, "`&mut ..[..n]`")
                if fields or not is_bytes(ty):
                    raise Unsupported("`&mut %s`" % show_expr(r), s.line)
                pre = []
                n = self.usize_term(r.hi, pre)
                self.emit_pre(ind, pre)
                rest = s.name + "__rest"
                self.emit(ind, "Flow.bind (Flow.split_at %s %s) fun (%s, %s) =>" % (self.vname(v), n, lean_name(s.name), lean_name(rest)))
                for nm in (s.name, rest):
                    self.declare(nm, "SliceU8", True, s.line, alias=View(v.name, [s.name, rest]))
                continue
            if k == "let" and s.ty is None and s.expr.kind == "ref" and s.expr.mut:
                s.mut = True
            if k == "let" and s.expr.kind == "var" and s.expr.name == "None" and s.ty is None:
                self.emit(ind, "-- L%d: let %s%s = None;   (the type is that of the first assignment)" % (s.line, "mut " if s.mut else "", s.name))
                self.declare(s.name, ("option", None), s.mut, s.line)
                self.emit(ind, "let %s : Option _ := none" % lean_name(s.name))
                continue
            if k == "let" and s.expr.kind == "call" and s.expr.segs == ["Cursor", "new"]:
                e = s.expr
                self.emit(ind, "-- L%d: let %s%s = %s;" % (s.line, "mut " if s.mut else "", s.name, show_expr(e)))
                if self.in_main:
                    self.require_use("Cursor", s.line)
                if len(e.args) != 1 or self.strip(e.args[0]).kind != "var":
                    raise Unsupported("`Cursor::new` of something that is not a variable", s.line)
                src = self.lookup(self.strip(e.args[0]).name, s.line)
                if not is_bytes(src.ty):
                    raise Unsupported("`Cursor::new` of a `%s`" % type_str(src.ty), s.line)
                self.declare(s.name, "IoCursor", s.mut, s.line, origin=src.name)
                self.emit(ind, "let %s : IoCursor := IoCursor.new %s" % (lean_name(s.name), self.vname(src)))
                continue
            if k == "let" and s.expr.kind == "mcall" and s.expr.name == "into_inner" and not s.expr.args \
                    and self.try_type(s.expr.base) == "IoCursor":
                c = self.lookup(self.strip(s.expr.base).name, s.line)
                o = self.lookup(c.origin, s.line)
                self.emit(ind, "-- L%d: let %s = %s;   (the buffer the cursor was made from: `%s`)" % (s.line, s.name, show_expr(s.expr), c.origin))
                if s.name != o.name:
                    self.scopes[-1][s.name] = AVar(s.name, o.ty, o.mut, 0, same=o.name)
                continue
            if k == "lettuple" and s.expr.kind == "mcall" and s.expr.name == "split_at_mut" and len(s.expr.args) == 1:
                self.emit(ind, "-- L%d: let %s = %s;   (two views of the buffer: it is rebuilt from them after every change)" % (
                    s.line, show_pat(s.pat), show_expr(s.expr)))
                v, fields, ty = self.place_of(s.expr.base, "`.split_at_mut(..)`")
                if fields or not is_bytes(ty):
                    raise Unsupported("`.split_at_mut(..)` on `%s`" % show_expr(s.expr.base), s.line)
                if len(s.pat.subs) != 2 or any(sp.kind != "pbind" for sp in s.pat.subs):
                    raise Unsupported("pattern `%s` for `split_at_mut`" % show_pat(s.pat), s.line)
                pre = []
                n = self.usize_term(s.expr.args[0], pre)
                self.emit_pre(ind, pre)
                a, b = s.pat.subs[0].name, s.pat.subs[1].name
                self.emit(ind, "Flow.bind (Flow.split_at %s %s) fun (%s, %s) =>" % (self.vname(v), n, lean_name(a), lean_name(b)))
                parts = []
                for sp in s.pat.subs:
                    if getattr(sp, "mut", False):
                        # `mut`: the reference can be re-sliced (`x = &mut x[n..]`); what it leaves behind stays part of the buffer
                        parts.append(sp.name + "__skip")
                    parts.append(sp.name)
                for nm in parts:
                    self.declare(nm, "SliceU8", True, s.line, alias=View(v.name, parts))
                    if nm.endswith("__skip"):
                        self.emit(ind, "let %s : List UInt8 := []" % lean_name(nm))
                for sp in s.pat.subs:
                    if getattr(sp, "mut", False):
                        self.lookup(sp.name, s.line).skip = sp.name + "__skip"
                continue
            if k == "lettuple":
                self.emit(ind, "-- L%d: let %s = %s;" % (s.line, show_pat(s.pat), show_expr(s.expr)))
                pre = []
                ty, t = self.ex(s.expr, self.try_type(s.expr), pre)
                if not (isinstance(ty, tuple) and ty[0] == "tuple" and len(ty[1]) == len(s.pat.subs)):
                    raise Unsupported("tuple pattern for a `%s`" % type_str(ty), s.line)
                self.emit_pre(ind, pre)
                n = len(s.pat.subs)
                for j, sp in enumerate(s.pat.subs):
                    if sp.kind == "pbind":
                        proj = "".join(".2" for _ in range(j)) + (".1" if j < n - 1 else "")
                        self.declare(sp.name, ty[1][j], bool(getattr(sp, "mut", False)), sp.line)
                        self.emit(ind, "let %s : %s := %s%s" % (lean_name(sp.name), lean_type(ty[1][j]), t, proj))
                continue
            self.following = stmts[i + 1:]
            done = st.Gen.stmts(self, [s], ind)
        return done

    following = []

    def infer_from_use(self, name, following):
        return st.Gen.infer_from_use(self, name, following or self.following)

    def gen_body(self, fn, qualifier, self_type, sig, in_main, origin, generic):
        self.reserved = set()
        return st.Gen.gen_body(self, fn, qualifier, self_type, sig, in_main, origin, generic)

    def is_reslice(self, s):
        """`x = &mut x[n..];` on a `mut` view -> (variable, n)"""
        tgt = self.strip(s.target) if s.target.kind == "paren" else s.target
        if s.kind != "assign" or tgt.kind != "var" or s.op is not None or s.expr.kind != "ref" or not s.expr.mut:
            return None
        r = self.strip(s.expr)
        if r.kind != "index_range" or r.hi is not None or r.lo is None:
            return None
        b = self.strip(r.base)
        if b.kind != "var" or b.name != tgt.name:
            return None
        try:
            v = self.lookup(tgt.name, s.line)
        except Unsupported:
            return None
        if not getattr(v, "skip", None):
            return None
        return v, r.lo

    def stmt_assign(self, s, ind):
        rs = self.is_reslice(s)
        if rs is not None:
            v, lo = rs
            self.emit(ind, "-- L%d: %s = %s;   (re-slicing: the bytes in front stay part of the buffer)" % (s.line, v.name, show_expr(s.expr)))
            pre = []
            n = self.usize_term(lo, pre)
            a, b = self.fresh(), self.fresh()
            pre.append("Flow.bind (Flow.split_at %s %s) fun (%s, %s) =>" % (self.vname(v), n, a, b))
            pre.append("let %s : List UInt8 := %s ++ %s" % (lean_name(v.skip), lean_name(v.skip), a))
            pre.append("let %s : List UInt8 := %s" % (self.vname(v), b))
            self.emit_pre(ind, pre)
            return
        tgt = self.strip(s.target) if s.target.kind == "paren" else s.target
        if tgt.kind == "var" and s.op is None:
            v = self.lookup(tgt.name, tgt.line)
            if v.ty == ("option", None):
                ty = self.try_type(s.expr)
                if not (isinstance(ty, tuple) and ty[0] == "option" and ty[1] is not None):
                    raise Unsupported("cannot determine the type of `%s` from `%s`" % (tgt.name, show_expr(s.expr)), s.line)
                v.ty = ty
        return st.Gen.stmt_assign(self, s, ind)


# --------------------------------------------------------------------------------------------
# fixed run-time support written into the generated file
# --------------------------------------------------------------------------------------------

PRELUDE = st.PRELUDE[:st.PRELUDE.index("/-- the types behind the assumed externals -/")] + r'''/-- `Buf::get_u64` on a cursor: panics when fewer than 8 bytes remain -/
def Flow.io_get_u64 {ρ : Type} (c : IoCursor) : Flow (IoCursor × UInt64) ρ :=
  if 8 ≤ c.inner.length - c.pos.toNat then .next (⟨c.inner, c.pos + 8⟩, UInt64.ofNat (beNat ((c.inner.drop c.pos.toNat).take 8))) else .panic
/-- `split_at_mut(n)`: panics when `n > len` -/
def Flow.split_at {ρ : Type} (b : List UInt8) (n : Usize) : Flow (List UInt8 × List UInt8) ρ :=
  if n.toNat ≤ b.length then .next (b.take n.toNat, b.drop n.toNat) else .panic
/-- `BytesMut::split_off(at)`: (what stays in the buffer, the returned tail); panics when `at > len` -/
def Flow.split_off {ρ : Type} (b : Cursor) (n : Usize) : Flow (Cursor × Cursor) ρ :=
  if n.toNat ≤ b.length then .next (b.take n.toNat, b.drop n.toNat) else .panic
/-- `&b[lo..hi]`: panics when `lo > hi` or `hi > len` -/
def Flow.slice {ρ : Type} (b : List UInt8) (lo hi : Usize) : Flow (List UInt8) ρ :=
  if lo.toNat ≤ hi.toNat ∧ hi.toNat ≤ b.length then .next ((b.take hi.toNat).drop lo.toNat) else .panic
/-- `dst.copy_from_slice(src)`: panics when the lengths differ; the new content of `dst` -/
def Flow.copy_from_slice {ρ : Type} (dst src : List UInt8) : Flow (List UInt8) ρ :=
  if dst.length = src.length then .next src else .panic
/-- `a.iter_mut().zip(b).for_each(|(l, r)| *l ^= r)`: the new content of `a` -/
def Bytes.xor_zip : List UInt8 → List UInt8 → List UInt8
  | [], _ => []
  | a, [] => a
  | x :: a, y :: b => (x ^^^ y) :: Bytes.xor_zip a b
/-- `u64::from_be_bytes` -/
def U64.from_be_bytes (b : List UInt8) : UInt64 := UInt64.ofNat (beNat b)
/-- TRUSTED IDIOM `unsafe { b.advance_mut(n) }` after `b.reserve(..)`: the length grows by `n`; the new bytes are whatever the
spare capacity holds (`junk`, an assumed external; cut / zero-filled to exactly `n` bytes) -/
def Cursor.advance_mut (b : List UInt8) (n : Usize) (junk : List UInt8) : List UInt8 :=
  b ++ (junk ++ List.replicate n.toNat 0).take n.toNat
/-- `&keys[i]` on a slice of byte arrays: panics when out of range -/
def Flow.listAt {ρ : Type} (l : List (List UInt8)) (i : Usize) : Flow (List UInt8) ρ :=
  match l[i.toNat]? with
  | some x => .next x
  | none => .panic
/-- `keys.len()` -/
def ListArr.len (l : List (List UInt8)) : Usize := UInt64.ofNat l.length

/-- the types behind the assumed externals -/
structure ExtTypes : Type 1 where
  /-- `manager::shadowsocks::ServerUserManager<N>` -/
  ServerUserManager : Type
  /-- `codec::aead::CipherMethod` (a keyed AEAD cipher) -/
  CipherMethod : Type
  /-- `codec::shadowsocks::ChunkDecoder` (the legacy packet opener: cipher + nonce generator) -/
  ChunkDecoder : Type
  /-- `codec::shadowsocks::ChunkEncoder` (the legacy packet sealer) -/
  ChunkEncoder : Type
'''


# --------------------------------------------------------------------------------------------
# driver
# --------------------------------------------------------------------------------------------

SIDES = [
    ("mode", ("protocol", "shadowsocks.rs"), "protocol_shadowsocks.rs"),
    ("kind", ("codec", "aead.rs"), "codec_aead.rs"),
    ("chunk", ("codec", "shadowsocks.rs"), "codec_shadowsocks.rs"),
    ("user", ("manager", "shadowsocks.rs"), "manager_shadowsocks.rs"),
    ("ts", ("codec", "shadowsocks", "aead_2022.rs"), "aead_2022.rs"),
    ("udp2022", ("codec", "shadowsocks", "aead_2022", "udp.rs"), "aead_2022_udp.rs"),
    ("legacy", ("codec", "shadowsocks", "aead.rs"), "ss_aead.rs"),
    ("address", ("protocol", "address.rs"), "address_type.rs"),
    ("codec", ("protocol", "socks5", "address.rs"), "socks5_address.rs"),
    ("util", ("util.rs",), "util.rs"),
]
st.SIDES = SIDES


def parse_source(path, role):
    data = open(path, "rb").read()
    try:
        src = data.decode("utf-8")
    except UnicodeDecodeError:
        raise Unsupported("non-UTF-8 source %s" % path, 1)
    toks = tn.tokenize(src)
    if role == "codec":
        p = ta.Parser(toks, True)
        p.uses = {}
    else:
        p = Parser(toks, role)
    try:
        p.parse_file()
    except Unsupported as u:
        if role != "main":
            raise Unsupported("%s (in %s)" % (u.what, os.path.basename(path)), u.line)
        raise
    return data, toks, p


def mut_param_names(fn, g):
    out = []
    for prm in fn.params:
        if prm.ty.kind == "tref" and prm.ty.mut or getattr(prm, "bymut", False):
            out.append(prm.name)
    return out


def translate(path, out_path):
    data, toks, p = parse_source(path, "main")
    digest = hashlib.sha256(data).hexdigest()
    idents = [t.text for t in toks if t.kind == "ident"]
    loaded = {}
    for role, _, _ in SIDES:
        spath = st.find_side(path, role)
        sdata, stoks, sp = parse_source(spath, role)
        loaded[role] = (spath, hashlib.sha256(sdata).hexdigest(), sp)
        idents += [t.text for t in stoks if t.kind == "ident"]
    loaded["main"] = (path, digest, p)

    addr_gen = os.path.join(os.path.dirname(os.path.abspath(out_path)), "AddrGen.lean")
    if os.path.exists(addr_gen):
        m = re.search(r"sha256: (\w+)", open(addr_gen, encoding="utf-8").read())
        if m and m.group(1) != loaded["codec"][1]:
            raise OSError("%s was generated from another socks5/address.rs (sha256 %s, this one is %s): run translate_addr.py first"
                          % (addr_gen, m.group(1)[:16], loaded["codec"][1][:16]))

    # -- the externals: their Rust signatures must be the ones the translator knows
    sides = {}
    checked = {}
    for key, x in EXT_FNS.items():
        if x.role is None:
            continue
        spath, sdig, sp = loaded[x.role]
        got = sp.sigs.get((x.owner, key[1]))
        if got is None:
            raise Unsupported("assumed external %s: no `fn %s` found in %s" % (x.doc.split("`")[1], key[1], os.path.basename(spath)), 1)
        got_n = re.sub(r"^pub (\( [a-z]+ \) )?", "", got)
        if got_n != x.sig:
            raise Unsupported("assumed external %s has another signature in %s: `%s`" % (x.doc.split("`")[1], os.path.basename(spath), got), 1)
        checked.setdefault(x.role, []).append(key[1])

    g = Gen(idents, p.uses)
    g.aliases = p.aliases
    g.in_main = False
    pre_out = []
    g.out = pre_out
    pre_out.append(PRELUDE)

    spath, sdig, sp = loaded["address"]
    if len(sp.enums) != 1:
        raise Unsupported("`enum Address` not found exactly once in %s" % os.path.basename(spath), 1)
    g.register_enum(sp.enums[0], False, "address.rs")
    sides["address"] = (spath, sdig, "`enum Address` (declared in Octo.AddrGen)")

    spath, sdig, sp = loaded["codec"]
    if re.search(r"\bfrom_utf8\b", open(spath, encoding="utf-8").read()):
        raise Unsupported("socks5/address.rs uses `String::from_utf8`: the generated functions take a further parameter", 1)
    got = []
    for fn in sp.fns:
        if fn.name in ("encode", "decode", "length"):
            fn.recv = None
            g.fns[("address", fn.name)] = g.fn_sig(fn, "address", "Octo.AddrGen.%s" % lean_name(fn.name))
            got.append(fn.name)
    if sorted(got) != ["decode", "encode", "length"]:
        raise Unsupported("`encode` / `decode` / `length` not found in socks5/address.rs", 1)
    sides["codec"] = (spath, sdig, "signatures of %s (bodies: Octo.AddrGen)" % ", ".join("`%s`" % n for n in got))

    def side_enum(role, name, origin, methods):
        spath, sdig, sp = loaded[role]
        ens = [e for e in sp.enums if e.name == name]
        if len(ens) != 1:
            raise Unsupported("`enum %s` not found exactly once in %s" % (name, os.path.basename(spath)), 1)
        pre_out.append("")
        g.register_enum(ens[0], True, origin)
        d = getattr(ens[0], "derives", [])
        if "Ord" in d and "PartialOrd" in d and "PartialEq" in d and "Eq" in d:
            g.ord_enums.add(name)
        n = 0
        for im in sp.impls:
            if im.ty != name:
                continue
            for fn in im.fns:
                sig = g.fn_sig(fn, name, "%s.%s" % (name, lean_name(fn.name)))
                g.fns[(name, fn.name)] = sig
                pre_out.extend(g.gen_body(fn, name, name, sig, False, origin, None))
                pre_out.append("")
                n += 1
        for mname in methods:
            if (name, mname) not in g.fns:
                raise Unsupported("`%s::%s` not found in %s" % (name, mname, os.path.basename(spath)), 1)
        return spath, sdig, n

    spath, sdig, n = side_enum("mode", "Mode", "protocol/shadowsocks.rs", ("expect_u8", "to_u8"))
    sides["mode"] = (spath, sdig, "`enum Mode`, %d fn(s) of `impl Mode`" % n)
    spath, sdig, n = side_enum("kind", "CipherKind", "codec/aead.rs", ("is_aead_2022", "support_eih"))
    sides["kind"] = (spath, sdig, "`enum CipherKind`%s, `is_aead_2022`, `support_eih`; signatures of %s" % (
        " (derives `Ord`: declaration order)" if "CipherKind" in g.ord_enums else "", ", ".join("`%s`" % c for c in checked.get("kind", []))))

    spath, sdig, sp = loaded["user"]
    sts = [s for s in sp.structs if s.name == "ServerUser"]
    if len(sts) != 1:
        raise Unsupported("`struct ServerUser` not found exactly once in %s" % os.path.basename(spath), 1)
    pre_out.append("/-! (parsed from manager/shadowsocks.rs) -/")
    g.register_struct(sts[0])
    sides["user"] = (spath, sdig, "`struct ServerUser`; signatures of %s" % ", ".join("`%s`" % c for c in checked.get("user", [])))
    for role in ("udp2022", "legacy", "chunk", "util"):
        spath, sdig, sp = loaded[role]
        sides[role] = (spath, sdig, "signatures of %s" % ", ".join("`%s`" % c for c in checked.get(role, [])))

    # -- the structs of the source (dependencies first)
    structs = {s.name: s for s in p.structs}
    for name in MAIN_STRUCTS:
        if name not in structs:
            raise Unsupported("`struct %s` not found" % name, 1)
    main_structs = []
    g.out = main_structs
    g.in_main = True
    done = set()

    def emit_struct(name, trail):
        if name in done:
            return
        if name in trail:
            raise Unsupported("recursive struct `%s`" % name, structs[name].line)
        for d in sorted(g.struct_deps(structs[name])):
            if d in structs and d != name:
                emit_struct(d, trail + [name])
        g.register_struct(structs[name])
        if "Default" in getattr(structs[name], "derives", []):
            g.defaults.add(name)
        done.add(name)
    for name in [s.name for s in p.structs]:
        emit_struct(name, [])
    g.in_main = False

    # -- aead_2022.rs: the timestamp window
    ts_out = []
    g.out = ts_out
    spath, sdig, sp = loaded["ts"]
    if len(sp.iconsts) != 1 or len(sp.fns) != 1:
        raise Unsupported("`const SERVER_STREAM_TIMESTAMP_MAX_DIFF` / `fn validate_timestamp` not found exactly once in %s" % os.path.basename(spath), 1)
    c = sp.iconsts[0]
    cty, _ = g.resolve_type(c.ty)
    ce = c.expr
    while ce.kind == "paren":
        ce = ce.expr
    if cty not in ARITH_INTS or ce.kind != "lit" or ce.suffix not in (None, cty) or ce.value >= 1 << BITS[cty]:
        raise Unsupported("`const %s` is not an integer literal" % c.name, c.line)
    ts_out.append("/-! ### `aead_2022.rs`: the timestamp window -/")
    ts_out.append("-- L%d: const %s: %s = %d;" % (c.line, c.name, show_type(c.ty), ce.value))
    ts_out.append("def %s : %s := %d" % (lean_name(c.name), LEAN_INT[cty], ce.value))
    ts_out.append("")
    g.consts[c.name] = (None, cty, lean_name(c.name))
    fn = sp.fns[0]
    fn.recv = None
    g.uses = sp.uses
    g.allow_now = True
    sig = g.fn_sig(fn, "aead_2022", "validate_timestamp", [g.X])
    g.fns[("aead_2022", "validate_timestamp")] = sig
    ts_out.extend(g.gen_body(fn, "aead_2022", None, sig, False, "aead_2022.rs", None))
    ts_out.append("")
    g.allow_now = False
    del g.consts[c.name]
    g.uses = p.uses
    sides["ts"] = (spath, sdig, "`const %s`, `fn validate_timestamp` (translated); signature of %s" % (c.name, ", ".join(
        "`%s`" % c for c in checked.get("ts", []))))

    # -- the methods
    methods = {}
    for im in p.impls:
        for fn in im.fns:
            if (im.ty, fn.name) in methods:
                raise Unsupported("two methods named `%s::%s`" % (im.ty, fn.name), fn.line)
            methods[(im.ty, fn.name)] = (fn, im)
    targets = dict(MAIN_TARGETS)
    targets[ORD_TARGET[0]] = (ORD_TARGET[1],)
    for ty, names in targets.items():
        for n in names:
            if (ty, n) not in methods:
                raise Unsupported("target `%s::%s` not found" % (ty, n), 1)
    main_out = []
    g.out = main_out
    g.in_main = True
    for (ty, n), (fn, im) in methods.items():
        g.generic = im.generic
        g.self_type = ty
        prefix = [g.X] + ([im.generic] if im.generic else [])
        alpha_rename(fn, mut_param_names(fn, g))
        g.fns[(ty, n)] = g.fn_sig(fn, ty, "%s.%s" % (ty, lean_name(n)), prefix)
    g.self_type = None
    g.generic = None
    nested = {}
    for inner in p.local_fns:
        nested.setdefault(inner.outer, []).append(inner)
    for ty in targets:
        fns = {n: methods[(ty, n)][0] for n in targets[ty]}
        edges = {}
        for n, fn in fns.items():
            c = set()
            st.calls_in(fn.body, set(fns), c)
            edges[n] = c
        main_out.append("/-! ### methods of `%s` -/" % ty)
        for comp in st.sccs(list(fns), edges):
            if len(comp) > 1 or comp[0] in edges[comp[0]]:
                raise Unsupported("recursion through %s" % ", ".join("`%s`" % c for c in comp), fns[comp[0]].line)
            n = comp[0]
            fn, im = methods[(ty, n)]
            g.local = {}
            for inner in nested.get(n, []):
                gen = inner.own_generic
                if gen is not None and gen != im.generic:
                    raise Unsupported("nested fn `%s` over another generic name" % inner.name, inner.line)
                g.generic = gen
                alpha_rename(inner, mut_param_names(inner, g))
                prefix = [g.X] + ([gen] if gen else [])
                isig = g.fn_sig(inner, "%s::%s" % (ty, n), "%s.%s.%s" % (ty, lean_name(n), lean_name(inner.name)), prefix)
                g.generic = None
                main_out.extend(g.gen_body(inner, "%s::%s" % (ty, n), None, isig, True, "fn %s::%s" % (ty, n), gen))
                main_out.append("")
                g.local[inner.name] = isig
            main_out.extend(g.gen_body(fn, ty, ty, g.fns[(ty, n)], True, "impl %s" % ty, im.generic))
            main_out.append("")
            g.local = {}
    g.in_main = False

    # -- the record of assumed externals
    ext_out = ["/-! ### the assumed externals (not translated): one field per function, with the signature read from the source -/",
               "structure Ext (T : ExtTypes) where"]
    for key in EXT_ORDER:
        if key not in g.ext_used:
            continue
        x = EXT_FNS[key]
        tys = []
        outs = []
        if x.recv is not None:
            tys.append(lean_atom(x.recv[0]))
            if x.recv[1] == "mut":
                outs.append(lean_type(x.recv[0]))
        for ty, mut in x.params:
            tys.append(lean_atom("SliceU8" if ty == "bytes" else ty))
            if mut:
                outs.append(lean_type(ty))
        ret = lean_type(x.ret)
        res = " × ".join([("(%s)" % o if "×" in o else o) for o in outs] + [("(%s)" % ret if "×" in ret else ret)]) if outs else ret
        ext_out.append("  /-- %s%s -/" % (x.doc, ("; the result is (%s, returned value)" % ", ".join(
            (["final `*self`"] if x.recv and x.recv[1] == "mut" else []) + ["final `*arg%d`" % (i + 1) for i, (_, m) in enumerate(x.params) if m])) if outs else ""))
        ext_out.append("  %s : %sRes (%s)" % (x.field, "".join(t + " → " for t in tys), res))
    if g.uses_spare:
        ext_out.append("  /-- what the reserved spare capacity holds when `advance_mut(n)` makes `n` bytes of it part of the buffer (unspecified) -/")
        ext_out.append("  spare_bytes : Usize → List UInt8")
    if g.uses_trace:
        ext_out.append("  /-- whether the `log` level of `trace!` is enabled: its arguments are evaluated (and can panic) only then -/")
        ext_out.append("  trace_enabled : Bool")
    ext_out.append("")

    out = []
    out.extend(header(path, digest, p, sides, g))
    out.append("import Octo.Gen.AddrGen")
    out.append("set_option linter.unusedVariables false")
    out.append("namespace Octo.SsUdpGen")
    out.append("open Octo.PWGen Octo.AddrGen")
    out.extend(pre_out)
    out.extend(main_structs)
    out.extend(ext_out)
    out.extend(ts_out)
    out.extend(main_out)
    out.append("end Octo.SsUdpGen")
    return "\n".join(out) + "\n"


def header(path, digest, p, sides, g):
    lines = []
    lines.append("/- GENERATED by translate_ssudp.py — do not edit.")
    lines.append("   source: %s" % path)
    lines.append("   sha256: %s" % digest)
    lines.append("   further sources (found relative to the first):")
    for role, (spath, sdigest, what) in sides.items():
        rel = next("/".join(r[1]) for r in SIDES if r[0] == role)
        lines.append("     - %s: %s (sha256 %s): %s" % (role, rel if spath.replace(os.sep, "/").endswith(rel) else os.path.basename(spath), sdigest, what))
    lines.append("")
    lines.append("   Statement-by-statement translation of `struct %s`, `type SessionPacket` and of the functions" % " / ".join(MAIN_STRUCTS))
    lines.append("   %s, `impl Ord for CipherKey` (located by name)." % ", ".join("`%s::%s`" % (t, n) for t in MAIN_TARGETS for n in MAIN_TARGETS[t]))
    lines.append("   Conventions of translate_addr.py / translate_trojan.py / translate_sstcp.py (see Octo/Gen/SsTcpGen.lean): integers = UIntN")
    lines.append("   (usize = 64 bit), `+ - *` wrap and are preceded by `Flow.arith ov (..)` (panic when overflow-checks are on),")
    lines.append("   `BytesMut`/`&[u8]`/`[u8; n]` = List UInt8 (a read cursor = the bytes that remain), `get_*`/`split_to`/`advance` panic")
    lines.append("   when fewer bytes remain, `Result<T, _>` = RResult T (error values are not modelled), `e?` = Flow.question, `match` = a")
    lines.append("   case tree, a function with `&mut` arguments returns their final values next to the returned value (also on `Err`),")
    lines.append("   `[u8; N]` for the const generic `N` = List UInt8, `Arc<T>` = T.  In addition here:")
    lines.append("   * lifetimes are erased; a `let` / pattern binding that shadows a mutable binding is alpha-renamed (`x__2`);")
    lines.append("   * `&b[lo..hi]` = `Flow.slice` (panics when out of range), `[0; 12]` = `List.replicate 12 0`, `a.copy_from_slice(s)`")
    lines.append("     panics when the lengths differ, `u64::from_be_bytes`, `split_off(at)`;")
    lines.append("   * `let (a, b) = buf.split_at_mut(n)`: `a`, `b` are copies of the two parts; after every change of one of them (an")
    lines.append("     external that takes `&mut [u8]`) the buffer is rebuilt as `a ++ b`;")
    lines.append("   * `std::io::Cursor::new(x)` over an owned buffer / a slice = (the bytes, read position); `into_inner()` names `x` again;")
    lines.append("   * `a.iter_mut().zip(b).for_each(|(l, r)| *l ^= r)` = `Bytes.xor_zip a b` (the shorter length is xored);")
    lines.append("   * `let mut x = None;` takes its type from the first assignment; `Self { a, b }` = a structure value;")
    lines.append("     `T::default()` for `#[derive(Default)]` = zeros / `None`; a nested `fn` is a definition of its own;")
    lines.append("   * `a.cmp(&b)` = `compare` (integers; an enum with derived `Ord`: its declaration order), `o.then(p)` = `Ordering.then`;")
    lines.append("   * TRUSTED IDIOM (`unsafe`, recognised token by token): `unsafe { D.advance_mut(E) }` after a `D.reserve(..)` earlier in the")
    lines.append("     function = `D` grows by `E` bytes of unspecified content (`X.spare_bytes`).  Trusted: the reserved capacity suffices")
    lines.append("     (`BytesMut::advance_mut` panics otherwise).  Any other `unsafe` block is refused.  `D.reserve(E)` = `E` is evaluated;")
    lines.append("   * `let v = &mut D[..n]` = a view of the first `n` bytes (`D` = `v ++ rest`, rebuilt after every change of `v`);")
    lines.append("     `let (a, mut b) = D.split_at_mut(n)` + `b = &mut b[m..]` (re-slicing): the `m` bytes stay part of `D` (`b__skip`);")
    lines.append("   * a parameter written as a tuple pattern is bound by a `let`; `&keys[i]` on `&[[u8; N]]` panics out of range;")
    lines.append("   * format arguments of `bail!` are evaluated (overflow checks) and dropped; arguments of `trace!`.. are evaluated only")
    lines.append("     under `X.trace_enabled` and must not change anything.")
    lines.append("   ASSUMED EXTERNALS (fields of `Ext`, parameter `X` of every generated function; `ExtTypes`: %s):" % ", ".join(OPAQUE))
    for key in EXT_ORDER:
        if key in g.ext_used:
            x = EXT_FNS[key]
            lines.append("     - %s: %s" % (x.field, x.doc))
    if g.uses_trace:
        lines.append("     - trace_enabled: whether `trace!` evaluates its arguments")
    lines.append("   names are bound through the `use` items of the source (checked for: %s)." % ", ".join(sorted(g.used_names)))
    lines.append("   skipped (not parsed, bracket matching only):")
    if p.nuse:
        lines.append("     - %d `use` items (read for name binding only)" % p.nuse)
    for s in p.skipped:
        lines.append("     - %s" % s)
    lines.append("-/")
    return lines


def main(argv):
    if len(argv) != 3:
        sys.stderr.write("usage: translate_ssudp.py <path/to/octo-squirrel/src/codec/shadowsocks/udp.rs> <out.lean>\n")
        return 2
    try:
        text = translate(argv[1], argv[2])
    except Unsupported as u:
        sys.stderr.write("translate_ssudp: unsupported: %s at line %d\n" % (u.what, u.line))
        return 3
    except OSError as e:
        sys.stderr.write("translate_ssudp: %s\n" % e)
        return 2
    try:
        with open(argv[2], "w", encoding="utf-8") as f:
            f.write(text)
    except OSError as e:
        sys.stderr.write("translate_ssudp: %s\n" % e)
        return 2
    return 0


if __name__ == "__main__":
    sys.exit(main(sys.argv))
