#!/usr/bin/env python3
"""Rust-subset -> Lean 4 translator for the VMess AEAD body codec `octo-squirrel/src/codec/vmess/aead.rs`.

usage:  translate_vmessbody.py <path/to/octo-squirrel/src/codec/vmess/aead.rs> <out.lean>

Translated from the argument (located by name): every top-level `enum` / `struct` (`AEADBodyCodec`, `DecodeState`,
`ChunkSizeParser`, `PaddingLengthGenerator`, `Authenticator`, `ShakeSizeParser`) and every method of their inherent `impl`
blocks except the constructors named in SKIP_FNS (`AEADBodyCodec::new/new_encoder/new_decoder`, `ShakeSizeParser::new`:
key derivation, closures, hashing).  Free functions, cfg-gated items and `use` items are skipped by balanced-bracket
matching and listed in the generated header.

Three more source files are read; they are found relative to the argument (`<src>` = two directories above the argument's
directory, i.e. `octo-squirrel/src`), or - for copies kept in one directory - under the flat name:

  chunk     <src>/codec/chunk.rs           | <dir>/chunk.rs       `struct PlainSizeParser;` and its `impl`
  session   <src>/protocol/vmess/session.rs | <dir>/session.rs    `trait Session`, `macro_rules! session_impl` (the struct it
                                                                   declares, expanded for every invocation), every
                                                                   `impl Session for X` (each method must be `&self.f` /
                                                                   `&mut self.f`); `&mut dyn Session` = the sum of the implementors
  nonce     <src>/codec/aead.rs            | <dir>/codec_aead.rs  signatures of `CountingNonceGenerator::{new, generate}` (their
                                                                   bodies are `Octo/Gen/NonceGen.lean`, written by translate_nonce.py)

Assumed externals (never defaulted: a record `Ext` of functions over three abstract types, first parameter of every
generated function): `CipherMethod` (`tag_size`, `nonce_size`, `encrypt_in_place`, `decrypt_in_place`), the SHAKE128 XOF
reader (`read`), the random source behind `dice::fill_bytes` (a state threaded through every function that reaches it).

Tokenizer of translate_nonce.py, parser / type checker / emitter of translate_addr.py and translate_trojan.py, extended
here: `loop` / `while` / `break` (a loop runs on explicit fuel computed from the buffers in scope; running out of fuel is a
`panic`, so the no-panic theorems prove that the fuel suffices), nested field places (`self.shake.next()`), `ref mut`
bindings into an enum payload (written back), methods of a trait object returning `&mut [u8]` (a lens: read, call, write
back), `&mut` of a temporary, `mut` by-value parameters, `%` `^`, `.min`, `[v; n]`, `vec![v; n]`, `x[..n]`,
`copy_from_slice`, `size_of::<T>()`, `to_be_bytes`, `==` on enums that derive `PartialEq`, `Result<T, aead::Error>`,
logging macros (skipped when their arguments are free of effects), assignment as the last expression of a block.

Exit status:
  0  a Lean module was written
  2  usage / IO error (also: a `NonceGen.lean` next to the output that was generated from another `codec/aead.rs`)
  3  a construct outside the supported subset inside a target item (or a target item / source file is missing);
     one line on stderr; nothing is written (never a guess).
"""
import hashlib
import os
import re
import sys

sys.path.insert(0, os.path.dirname(os.path.abspath(__file__)))
import translate_pw as pw  # noqa: E402
import translate_nonce as tn  # noqa: E402
import translate_addr as ta  # noqa: E402
import translate_trojan as tj  # noqa: E402
from translate_pw import Unsupported, Node, LEAN_KEYWORDS  # noqa: E402
from translate_addr import INTS, ARITH_INTS, BITS, LEAN_INT, PREFIX, ARITH_PREFIX, is_bytes, Var  # noqa: E402
from translate_trojan import FnSig  # noqa: E402

MAIN_TYPES = ("AEADBodyCodec", "DecodeState", "ChunkSizeParser", "PaddingLengthGenerator", "Authenticator", "ShakeSizeParser")
SKIP_FNS = {("AEADBodyCodec", "new"), ("AEADBodyCodec", "new_encoder"), ("AEADBodyCodec", "new_decoder"), ("ShakeSizeParser", "new")}
LOG_MACROS = ("trace", "debug", "info", "warn", "error")
EXT_TYPES = {"CipherMethod": "CM", "XofReader": "XR", "Rng": "RNG"}
TYPARAMS = ["CM", "XR", "RNG"]

USE_SUFFIX = {
    "CipherMethod": ["codec", "aead", "CipherMethod"],
    "CountingNonceGenerator": ["codec", "aead", "CountingNonceGenerator"],
    "PlainSizeParser": ["codec", "chunk", "PlainSizeParser"],
    "Session": ["protocol", "vmess", "session", "Session"],
    "dice": ["util", "dice"],
    "BytesMut": ["bytes", "BytesMut"],
    "Buf": ["bytes", "Buf"],
    "Buffer": ["aead", "Buffer"],
    "XofReaderCoreWrapper": ["digest", "core_api", "XofReaderCoreWrapper"],
    "Shake128ReaderCore": ["sha3", "Shake128ReaderCore"],
    "XofReader": ["digest", "XofReader"],
    "size_of": ["mem", "size_of"],
    "trace": ["log", "trace"], "debug": ["log", "debug"], "info": ["log", "info"], "warn": ["log", "warn"], "error": ["log", "error"],
}
tj.USE_SUFFIX.update(USE_SUFFIX)

SELF_NAME = tj.SELF_NAME
TAINT = {}            # type name -> list of type parameters it carries
KNOWN = set()         # named types declared in the generated file


# --------------------------------------------------------------------------------------------
# types -> Lean
# --------------------------------------------------------------------------------------------

_tj_lean_type = tj.lean_type
_tj_type_str = tj.type_str


def lean_type(t):
    if isinstance(t, tuple) and t[0] == "option":
        return "Option %s" % lean_atom(t[1])
    if isinstance(t, tuple) and t[0] == "tuple":
        return " × ".join(lean_atom(x) for x in t[1])
    if isinstance(t, tuple) and t[0] == "result":
        return "RResult %s" % lean_atom(t[1])
    if isinstance(t, tuple) and t[0] == "array":
        return "List UInt8"
    if t in EXT_TYPES:
        return EXT_TYPES[t]
    if t == "CountingNonceGenerator":
        return "Octo.NonceGen.CountingNonceGenerator"
    if t in ("DynBuffer",):
        return "List UInt8"
    if isinstance(t, str) and t in KNOWN:
        ps = TAINT.get(t, [])
        return " ".join([t] + ps)
    return _tj_lean_type(t)


def lean_atom(t):
    s = lean_type(t)
    return "(%s)" % s if " " in s else s


def type_str(t):
    if isinstance(t, tuple) and t[0] == "array" and t[1] is None:
        return "[u8; _]"
    return _tj_type_str(t)


def fn_lean_name(n):
    return n + "_" if n in LEAN_KEYWORDS else n


for _m in (ta, tj):
    _m.lean_type = lean_type
    _m.lean_atom = lean_atom
    _m.type_str = type_str

show_expr_tj = tj.show_expr


def show_expr(e):
    k = e.kind
    if k == "structlit":
        return "%s { %s }" % (e.name, ", ".join(f if (fe.kind == "var" and fe.name == f) else "%s: %s" % (f, show_expr(fe)) for f, fe in e.fields))
    if k == "repeat":
        return "%s[%s; %s]" % ("vec!" if e.vec else "", show_expr(e.elem), show_expr(e.len))
    if k == "index_to":
        return "%s[..%s]" % (show_expr(e.base), show_expr(e.hi))
    if k == "sizeof":
        return "size_of::<%s>()" % tj._show_type(e.targ)
    if k == "loop":
        return "loop { ... }"
    if k == "while":
        return "while %s { ... }" % show_expr(e.cond)
    if k == "break":
        return "break"
    if k == "assign":
        return "%s = %s" % (show_expr(e.target), show_expr(e.expr))
    if k == "field":
        return "%s.%s" % (show_expr(e.base), e.name)
    if k == "mcall":
        return "%s.%s(%s)" % (show_expr(e.base), e.name, ", ".join(show_expr(a) for a in e.args))
    if k == "call":
        return "%s(%s)" % ("::".join(e.segs), ", ".join(show_expr(a) for a in e.args))
    if k == "bin":
        return "%s %s %s" % (show_expr(e.l), e.op, show_expr(e.r))
    if k == "paren":
        return "(%s)" % show_expr(e.expr)
    if k == "cast":
        return "%s as %s" % (show_expr(e.expr), tj._show_type(e.ty))
    if k == "ref":
        return "&%s%s" % ("mut " if e.mut else "", show_expr(e.expr))
    if k == "try":
        return "%s?" % show_expr(e.expr)
    if k == "not":
        return "!%s" % show_expr(e.expr)
    if k == "macro":
        return "%s!(%s)" % (e.name, ", ".join(show_expr(a) for a in e.args))
    if k == "return":
        return "return%s" % ((" " + show_expr(e.expr)) if e.expr else "")
    return show_expr_tj(e)


for _m in (ta, tj):
    _m.show_expr = show_expr

_tj_show_type = tj._show_type


def _show_type(t):
    if t.kind == "tdyn":
        return "dyn %s" % t.name
    if t.kind == "tref":
        return "&%s%s" % ("mut " if t.mut else "", _show_type(t.inner))
    if t.kind == "tname":
        s = "::".join(t.segs)
        if t.args:
            s += "<%s>" % ", ".join(_show_type(a) for a in t.args)
        return s
    if t.kind == "tslice":
        return "[%s]" % _show_type(t.elem)
    if t.kind == "tarray":
        return "[%s; %s]" % (_show_type(t.elem), show_expr(t.len))
    return _tj_show_type(t)


tj._show_type = _show_type
ta.show_type = _show_type
tj.show_type = _show_type

_tj_show_pat = tj.show_pat_t


def show_pat(p):
    if p.kind == "pbind" and getattr(p, "byref", None):
        return "ref %s%s" % ("mut " if p.byref == "mut" else "", p.name)
    if p.kind == "pctor":
        s = "::".join(p.segs)
        if p.subs:
            s += "(%s)" % ", ".join(show_pat(x) for x in p.subs)
        return s
    return _tj_show_pat(p)


ta.show_pat = show_pat
tj.show_pat = show_pat
tj.show_pat_t = show_pat


# --------------------------------------------------------------------------------------------
# parser
# --------------------------------------------------------------------------------------------

class Parser(tj.Parser):
    """`role`: main | chunk | session | expanded (a `session_impl!` expansion) | nonce"""

    def __init__(self, toks, role):
        tj.Parser.__init__(self, toks, role)
        self.traits = []
        self.unit_structs = []
        self.enum_attrs = {}
        self.macro = None        # (line, body tokens) of `macro_rules! session_impl`
        self.invocations = []    # (line, name)

    def wanted_enum(self, name, depth):
        return self.role == "main" and depth == 0

    def wanted_impl(self, trait, targs, ty):
        if self.role == "main":
            return trait is None and ty in self.main_types
        if self.role == "chunk":
            return trait is None and ty == "PlainSizeParser"
        if self.role == "session":
            return trait == "Session"
        if self.role == "nonce":
            return False
        return False

    def parse_file(self):
        if self.role == "main":
            # names of the file's own types first (an `impl` may precede its type)
            self.main_types = set()
            for i, t in enumerate(self.toks):
                if t.kind == "ident" and t.text in ("struct", "enum") and self.toks[i + 1].kind == "ident":
                    self.main_types.add(self.toks[i + 1].text)
        self.parse_items(0, "eof")

    def parse_items(self, depth, stop):
        while not (self.tok.kind == "eof" or (stop == "}" and self.at("}"))):
            if self.at(";"):
                self.advance()
                continue
            save = self.pos
            first = self.tok
            attrs = self.parse_attrs()
            self.parse_vis()
            t = self.tok
            nxt = self.peek()
            gated = any(re.sub(r"\s+", "", text).startswith(("cfg(", "test")) for text, _ in attrs)
            kw = t.text
            name = nxt.text if nxt.kind == "ident" else ""
            if gated:
                end = self.skip_item()
                if self.role == "main":
                    self.note_skip("cfg/test-gated %s %s" % (kw, name), first.line, end)
                continue
            if self.at("use"):
                self.parse_use()
                continue
            if self.at("struct") and self.peek(2).text == ";" and self.role in ("chunk",):
                self.check_attrs(attrs)
                self.advance()
                self.unit_structs.append(self.ident().text)
                self.expect(";")
                continue
            if self.at("struct") and self.role in ("main", "expanded") and depth == 0:
                self.check_attrs(attrs)
                st = self.parse_struct()
                st.attrs = attrs
                self.structs.append(st)
                continue
            if self.at("enum") and self.wanted_enum(name, depth):
                self.check_attrs(attrs)
                en = self.parse_enum()
                self.enum_attrs[en.name] = attrs
                self.enums.append(en)
                continue
            if self.at("trait") and self.role == "session" and name == "Session":
                self.traits.append(self.parse_trait())
                continue
            if self.at("macro_rules") and nxt.text == "!" and self.role == "session" and self.peek(2).text == "session_impl":
                self.parse_macro_rules()
                continue
            if t.kind == "ident" and nxt.text == "!" and self.role == "session" and t.text == "session_impl":
                line = t.line
                self.advance()
                self.advance()
                self.expect("(")
                self.invocations.append((line, self.ident().text))
                self.expect(")")
                self.expect(";")
                continue
            if self.at("impl"):
                hdr = self.impl_header()
                if hdr is not None and self.wanted_impl(*hdr[:3]):
                    self.check_attrs(attrs)
                    self.impls.append(self.parse_impl(hdr))
                    continue
                end = self.skip_item()
                if self.role == "main":
                    self.note_skip("impl block `%s`" % self.header_text(first), first.line, end)
                continue
            if self.at("macro_rules") and nxt.text == "!":
                name = self.peek(2).text
            end = self.skip_item()
            if self.role == "main":
                what = "%s %s" % (kw, name) if name else "item starting with `%s`" % kw
                self.note_skip(what, first.line, end)

    def parse_macro_rules(self):
        line = self.tok.line
        self.advance()
        self.advance()
        self.advance()
        self.expect("{")
        got = [self.advance().text for _ in range(7)]
        if got != ["(", "$", "name", ":", "ident", ")", "=>"]:
            raise Unsupported("`macro_rules! session_impl` is not the single rule `($name:ident) => { .. }`", line)
        self.expect("{")
        depth, body = 1, []
        while True:
            t = self.advance()
            if t.kind == "eof":
                raise Unsupported("unterminated macro", line)
            if t.kind == "punct" and t.text in ("{", "(", "["):
                depth += 1
            elif t.kind == "punct" and t.text in ("}", ")", "]"):
                depth -= 1
                if depth == 0:
                    break
            body.append(t)
        self.accept(";")
        self.expect("}")
        if self.macro is not None:
            raise Unsupported("two `macro_rules! session_impl`", line)
        self.macro = (line, body)

    def parse_trait(self):
        line = self.expect("trait").line
        name = self.ident().text
        if self.at("<"):
            raise Unsupported("generic trait", line)
        if self.accept(":"):
            while not self.at("{"):
                self.advance()
        self.expect("{")
        sigs = []
        while not self.at("}"):
            self.check_attrs(self.parse_attrs())
            fl = self.expect("fn").line
            fname = self.ident().text
            self.expect("(")
            self.expect("&")
            mut = bool(self.accept("mut"))
            self.expect("self")
            self.expect(")")
            self.expect("->")
            ret = self.parse_type()
            if not self.at(";"):
                raise Unsupported("trait method `%s` with a default body" % fname, fl)
            self.expect(";")
            sigs.append(Node("sig", fl, name=fname, mut=mut, ret=ret))
        self.expect("}")
        return Node("trait", line, name=name, sigs=sigs)

    def parse_impl(self, hdr):
        trait, targs, ty, brace = hdr
        line = self.tok.line
        self.pos = brace
        self.expect("{")
        types, fns = {}, []
        while not self.at("}"):
            first = self.tok
            attrs = self.parse_attrs()
            self.check_attrs(attrs)
            self.parse_vis()
            if self.at("const") and self.peek().text == "fn":
                self.advance()
            if self.at("fn"):
                fname = self.peek().text
                if (ty, fname) in SKIP_FNS and self.role == "main":
                    end = self.skip_item()
                    self.note_skip("fn %s::%s (constructor: key derivation / hashing / closures)" % (ty, fname), first.line, end)
                    continue
                fns.append(self.parse_fn())
            else:
                raise Unsupported("`%s` item in `impl %s`" % (self.tok.text, ty), self.tok.line)
        self.expect("}")
        return Node("impl", line, trait=trait, targs=targs, ty=ty, types=types, fns=fns)

    # -- types
    def parse_type(self):
        t = self.tok
        if self.at("dyn"):
            self.advance()
            name = self.ident().text
            while self.accept("::"):
                name = self.ident().text
            if self.at("<") or self.at("+"):
                raise Unsupported("trait object type with arguments / bounds", t.line)
            return Node("tdyn", t.line, name=name)
        if self.at("&") or self.at("&&"):
            n = 2 if self.at("&&") else 1
            self.advance()
            if self.tok.kind == "lifetime":
                self.advance()
            mut = bool(self.accept("mut"))
            inner = self.parse_type()
            node = Node("tref", t.line, mut=mut, inner=inner)
            if n == 2:
                node = Node("tref", t.line, mut=False, inner=node)
            return node
        return tj.Parser.parse_type(self)

    def parse_fn(self):
        line = self.expect("fn").line
        name = self.ident().text
        if self.at("<"):
            raise Unsupported("generic fn", line)
        self.expect("(")
        params = []
        recv = None
        first = True
        while not self.at(")"):
            if first and (self.at("&") or self.at("self")):
                if self.accept("&"):
                    if self.tok.kind == "lifetime":
                        self.advance()
                    recv = "mut" if self.accept("mut") else "ref"
                    self.expect("self")
                else:
                    raise Unsupported("receiver `self` by value", self.tok.line)
                first = False
                if not self.accept(","):
                    break
                continue
            first = False
            bymut = bool(self.accept("mut"))
            pl = self.tok.line
            pname = self.ident().text
            self.expect(":")
            pty = self.parse_type()
            if bymut and pty.kind == "tref":
                raise Unsupported("`mut` binding of a reference parameter", pl)
            params.append(Node("param", pl, name=pname, ty=pty, bymut=bymut))
            if not self.accept(","):
                break
        self.expect(")")
        ret = Node("tunit", line)
        if self.accept("->"):
            ret = self.parse_type()
        if self.at("where"):
            raise Unsupported("where clause", self.tok.line)
        body = self.parse_block()
        return Node("fn", line, name=name, params=params, ret=ret, body=body, recv=recv)

    # -- statements
    def parse_block(self):
        line = self.expect("{").line
        stmts = []
        tail = None
        while not self.at("}"):
            if self.tok.kind == "eof":
                raise Unsupported("unterminated block", line)
            if tail is not None:
                raise Unsupported("expression statement without `;`", tail.line)
            if self.at("#"):
                raise Unsupported("attribute on a statement", self.tok.line)
            t = self.tok
            if self.at(";"):
                self.advance()
                continue
            if self.at("let"):
                stmts.append(self.parse_let())
                continue
            if self.at("return"):
                self.advance()
                e = None
                if not self.at(";") and not self.at("}"):
                    e = self.parse_expr()
                node = Node("return", t.line, expr=e)
                if self.at("}"):
                    tail = node
                else:
                    self.expect(";")
                    stmts.append(node)
                continue
            if self.at("break"):
                self.advance()
                if self.tok.kind == "lifetime" or not (self.at(";") or self.at("}")):
                    raise Unsupported("`break` with a label / value", t.line)
                self.accept(";")
                stmts.append(Node("exprstmt", t.line, expr=Node("break", t.line)))
                continue
            if self.at("loop") or self.at("while"):
                kw = self.advance().text
                cond = None
                if kw == "while":
                    if self.at("let"):
                        raise Unsupported("while-let", t.line)
                    cond = self.parse_expr(no_struct=True)
                body = self.parse_block()
                node = Node("loop" if kw == "loop" else "while", t.line, cond=cond, body=body)
                if self.at("}"):
                    tail = node
                else:
                    self.accept(";")
                    stmts.append(Node("exprstmt", t.line, expr=node))
                continue
            if t.kind == "ident" and t.text in ("for", "continue", "fn", "struct", "const", "use", "static", "impl", "mod", "enum",
                                                 "trait", "type", "async", "move"):
                raise Unsupported("`%s`" % t.text, t.line)
            if self.at("if") or self.at("match") or self.at("unsafe") or self.at("{"):
                e = self.parse_primary(False)
                if self.at("}"):
                    tail = e
                else:
                    self.accept(";")
                    stmts.append(Node("exprstmt", t.line, expr=e))
                continue
            e = self.parse_expr()
            if self.at("="):
                self.advance()
                rhs = self.parse_expr()
                if not self.at("}"):
                    self.expect(";")
                stmts.append(Node("assign", t.line, target=e, op=None, expr=rhs))
            elif self.tok.kind == "punct" and self.tok.text in ("+=", "-=", "*=", "&=", "|=", "<<=", ">>=", "/=", "%=", "^="):
                op = self.advance().text[:-1]
                rhs = self.parse_expr()
                self.expect(";")
                stmts.append(Node("assign", t.line, target=e, op=op, expr=rhs))
            elif self.at(";"):
                self.advance()
                stmts.append(Node("exprstmt", t.line, expr=e))
            elif self.at("}"):
                tail = e
            else:
                raise Unsupported("token `%s` after expression" % self.tok.text, self.tok.line)
        self.expect("}")
        return Node("block", line, stmts=stmts, tail=tail, unsafe=False)

    # -- patterns
    def parse_pattern(self):
        t = self.tok
        if self.at("ref"):
            self.advance()
            mut = bool(self.accept("mut"))
            name = self.ident().text
            if self.at("@"):
                raise Unsupported("`@` pattern", t.line)
            return Node("pbind", t.line, name=name, byref="mut" if mut else "ref")
        return tj.Parser.parse_pattern(self)

    # -- expressions
    def parse_postfix(self, ns):
        e = self.parse_primary(ns)
        while True:
            if self.at("."):
                line = self.advance().line
                if self.tok.kind in ("int", "float"):
                    raise Unsupported("tuple field access", line)
                if self.at("await"):
                    raise Unsupported("`.await`", line)
                f = self.ident().text
                if self.at("::"):
                    raise Unsupported("method call with explicit type arguments `.%s::<...>`" % f, line)
                if not self.at("("):
                    e = Node("field", line, base=e, name=f)
                else:
                    e = Node("mcall", line, base=e, name=f, args=self.parse_args())
            elif self.at("["):
                line = self.advance().line
                if self.at(".."):
                    self.advance()
                    if self.at("]"):
                        self.advance()
                        e = Node("index_full", line, base=e)
                        continue
                    hi = self.parse_expr()
                    self.expect("]")
                    e = Node("index_to", line, base=e, hi=hi)
                    continue
                if self.at("..="):
                    raise Unsupported("range index", line)
                idx = self.parse_expr()
                if self.at("..") or self.at("..="):
                    raise Unsupported("range index other than `[..]` / `[..n]`", line)
                self.expect("]")
                e = Node("index", line, base=e, idx=idx)
            elif self.at("("):
                raise Unsupported("call of a computed function value", self.tok.line)
            elif self.at("?"):
                line = self.advance().line
                e = Node("try", line, expr=e)
            else:
                return e

    def parse_primary(self, ns):
        t = self.tok
        if self.at("["):
            self.advance()
            elems = []
            while not self.at("]"):
                elems.append(self.parse_expr())
                if self.at(";"):
                    if len(elems) != 1:
                        raise Unsupported("array expression", t.line)
                    self.advance()
                    n = self.parse_expr()
                    self.expect("]")
                    return Node("repeat", t.line, elem=elems[0], len=n, vec=False)
                if not self.accept(","):
                    break
            self.expect("]")
            return Node("array", t.line, elems=elems)
        if t.kind == "ident" and t.text == "vec" and self.peek().text == "!":
            self.advance()
            self.advance()
            self.expect("[")
            elem = self.parse_expr()
            if not self.accept(";"):
                raise Unsupported("`vec![..]` other than `vec![v; n]`", t.line)
            n = self.parse_expr()
            self.expect("]")
            return Node("repeat", t.line, elem=elem, len=n, vec=True)
        if t.kind == "ident" and t.text == "size_of" and self.peek().text == "::" and self.peek(2).text == "<":
            self.advance()
            self.advance()
            self.advance()
            targ = self.parse_type()
            self.expect(">")
            self.expect("(")
            self.expect(")")
            return Node("sizeof", t.line, targ=targ)
        if t.kind == "ident" and (t.text == "Self" or t.text[0].isupper()) and self.peek().text == "{" and not ns:
            self.advance()
            self.expect("{")
            fields = []
            while not self.at("}"):
                if self.at(".."):
                    raise Unsupported("struct update syntax `..`", self.tok.line)
                fl = self.tok.line
                fname = self.ident().text
                if self.accept(":"):
                    fe = self.parse_expr()
                else:
                    fe = Node("var", fl, name=fname)
                fields.append((fname, fe))
                if not self.accept(","):
                    break
            self.expect("}")
            return Node("structlit", t.line, name=t.text, fields=fields)
        return tj.Parser.parse_primary(self, ns)


# --------------------------------------------------------------------------------------------
# type checker + emitter
# --------------------------------------------------------------------------------------------

BYTE_TYPES = ("BytesMut", "Bytes", "VecU8", "SliceU8", "DynBuffer")


def bytes_like(t):
    return t in BYTE_TYPES or (isinstance(t, tuple) and t[0] == "array")


class Gen(tj.Gen):
    def __init__(self, all_idents, uses):
        tj.Gen.__init__(self, all_idents, uses)
        self.xname = self.fresh_fixed("X")
        self.rng = self.fresh_fixed("rng")
        self.loop_stack = []
        self.byref_binds = {}
        self.lenses = {}          # DynSession method -> is `&mut`
        self.derives_eq = set()
        self.rng_fns = set()      # names of fns that reach `dice::fill_bytes`
        self.uses_rng = False
        self.byval_mut = []

    # -- types
    def resolve_type(self, t):
        k = t.kind
        if k == "tdyn":
            if t.name == "Session":
                self.require_use("Session", t.line)
                return "DynSession", False
            if t.name == "Buffer":
                self.require_use("Buffer", t.line)
                return "DynBuffer", False
            raise Unsupported("trait object `dyn %s`" % t.name, t.line)
        if k == "tref":
            inner, _ = self.resolve_type(t.inner)
            return inner, t.mut
        if k == "tarray":
            e, _ = self.resolve_type(t.elem)
            n = t.len
            while n.kind == "paren":
                n = n.expr
            if e != "u8":
                raise Unsupported("array type `%s`" % _show_type(t), t.line)
            return ("array", n.value if n.kind == "lit" else None), False
        if k == "tname":
            name, segs = t.name, t.segs
            if name == "Result" and len(t.args) == 2 and segs == ["Result"]:
                inner, _ = self.resolve_type(t.args[0])
                er = t.args[1]
                if not (er.kind == "tname" and er.segs == ["aead", "Error"]):
                    raise Unsupported("error type `%s` (only `aead::Error`)" % _show_type(er), t.line)
                return ("result", inner), False
            if name == "XofReaderCoreWrapper" and len(t.args) == 1 and t.args[0].kind == "tname" and t.args[0].name == "Shake128ReaderCore":
                self.require_use("XofReaderCoreWrapper", t.line)
                self.require_use("Shake128ReaderCore", t.line)
                return "XofReader", False
            if not t.args and len(segs) == 1:
                if name == "CipherMethod":
                    self.require_use("CipherMethod", t.line)
                    return "CipherMethod", False
                if name == "CountingNonceGenerator":
                    self.require_use("CountingNonceGenerator", t.line)
                    return "CountingNonceGenerator", False
                if name in self.structs or name in self.enums or name == "PlainSizeParser":
                    return name, False
                if name == "BytesMut" and self.in_main:
                    self.require_use("BytesMut", t.line)
        return tj.Gen.resolve_type(self, t)

    def declare(self, name, ty, mut, line):
        br = self.byref_binds.get((name, line))
        tj.Gen.declare(self, name, ty, mut or (br is not None and br[0] == "mut"), line)
        if br is not None and br[0] == "mut":
            self.scopes[-1][name].alias = br[1:]

    # -- places
    def place_of(self, e):
        b = self.strip(e)
        if b.kind == "var":
            v = self.lookup(b.name, b.line)
            return {"kind": "var", "var": v, "ty": v.ty}
        if b.kind == "field":
            path = []
            x = b
            while x.kind == "field":
                path.insert(0, x.name)
                x = self.strip(x.base)
            if x.kind != "var":
                return None
            v = self.lookup(x.name, x.line)
            ty = v.ty
            tys = []
            for f in path:
                fty = None
                for g, t in self.structs.get(ty, []) if isinstance(ty, str) else []:
                    if g == f:
                        fty = t
                if fty is None:
                    raise Unsupported("field `.%s` of a `%s`" % (f, type_str(ty)), b.line)
                tys.append(ty)
                ty = fty
            return {"kind": "field", "var": v, "path": path, "tys": tys, "ty": ty}
        if b.kind == "mcall" and not b.args and b.name in self.lenses:
            x = self.strip(b.base)
            if x.kind == "var" and self.lookup(x.name, x.line).ty == "DynSession":
                return {"kind": "lens", "var": self.lookup(x.name, x.line), "method": b.name, "ty": "SliceU8"}
        return None

    def place_term(self, pl):
        n = tj.lean_name(pl["var"].name)
        if pl["kind"] == "var":
            return n
        if pl["kind"] == "field":
            return ".".join([n] + [tj.lean_name(f) for f in pl["path"]])
        return "(DynSession.%s %s)" % (pl["method"], n)

    def alias_wb(self, v):
        al = getattr(v, "alias", None)
        if not al:
            return []
        scrut_place, enum, ctor = al
        return self.writeback(scrut_place, "(%s.%s %s)" % (enum, ctor, tj.lean_name(v.name)))

    def writeback(self, pl, term):
        """lines that store `term` into the place"""
        v = pl["var"]
        n = tj.lean_name(v.name)
        if pl["kind"] == "var":
            return ["let %s : %s := %s" % (n, lean_type(v.ty), term)] + self.alias_wb(v)
        if pl["kind"] == "lens":
            return ["let %s : %s := DynSession.%s_put %s %s" % (n, lean_type(v.ty), pl["method"], n, term)] + self.alias_wb(v)
        path = pl["path"]
        inner = term
        for i in range(len(path) - 1, -1, -1):
            base = ".".join([n] + [tj.lean_name(f) for f in path[:i]])
            inner = "{ %s with %s := %s }" % (base, tj.lean_name(path[i]), inner)
        return ["let %s : %s := %s" % (n, lean_type(v.ty), inner)] + self.alias_wb(v)

    def mut_place(self, e, what):
        """(current value term, name to bind the final value to, lines after the call)"""
        pl = self.place_of(e)
        if pl is None:
            return None
        if not pl["var"].mut:
            raise Unsupported("%s on immutable `%s` (rustc would reject)" % (what, pl["var"].name), e.line)
        if pl["kind"] == "lens" and not self.lenses[pl["method"]]:
            raise Unsupported("%s through `&self` method `%s` (rustc would reject)" % (what, pl["method"]), e.line)
        if pl["kind"] == "var":
            n = tj.lean_name(pl["var"].name)
            return pl, n, n, self.alias_wb(pl["var"])
        x = self.fresh()
        return pl, self.place_term(pl), x, self.writeback(pl, x)

    def arg_compatible(self, got, want):
        if want in ("SliceU8", "DynBuffer", "bytes"):
            return bytes_like(got)
        if isinstance(want, tuple) and want[0] == "array":
            return isinstance(got, tuple) and got[0] == "array" and (got[1] == want[1] or got[1] is None or want[1] is None)
        return got == want

    # -- calls of translated functions
    def call_fn(self, f, recv, arg_nodes, pre, line):
        if len(arg_nodes) != len(f.params):
            raise Unsupported("%s takes %d argument(s), %d given (rustc would reject)" % (f.what, len(f.params), len(arg_nodes)), line)
        terms, pat, post = [], [], []
        if f.recv is not None:
            if f.recv == "mut":
                if isinstance(recv, Var):
                    recv = Node("var", line, name=recv.name)
                mp = self.mut_place(recv, "call of %s (`&mut self`)" % f.what)
                if mp is None:
                    raise Unsupported("receiver `%s` of %s is not a place" % (show_expr(recv), f.what), line)
                terms.append(mp[1])
                pat.append(mp[2])
                post.extend(mp[3])
            else:
                if isinstance(recv, Var):
                    recv = Node("var", line, name=recv.name)
                _, t = self.ex(recv, None, pre)
                terms.append(t)
        if getattr(f, "uses_rng", False):
            if not self.uses_rng:
                raise Unsupported("internal: caller of %s not marked as using the random source" % f.what, line)
            terms.append(self.rng)
            pat.append(self.rng)
        for a, (want, mut) in zip(arg_nodes, f.params):
            if mut:
                mp = self.mut_place(a, "passing `&mut` to %s" % f.what)
                if mp is None:
                    ty, t = self.ex(a, None, pre)       # a temporary: its final value is dropped
                    x = self.fresh()
                    mp = ({"ty": ty}, t, "_" + x, [])
                if not self.arg_compatible(mp[0]["ty"], want):
                    raise Unsupported("argument of %s has type `%s`, expected `%s` (rustc would reject)" % (f.what, type_str(mp[0]["ty"]), type_str(want)), a.line)
                terms.append(mp[1])
                pat.append(mp[2])
                post.extend(mp[3])
            else:
                ty, t = self.ex(a, None if bytes_like(want) else want, pre)
                if not self.arg_compatible(ty, want):
                    raise Unsupported("argument of %s has type `%s`, expected `%s` (rustc would reject)" % (f.what, type_str(ty), type_str(want)), a.line)
                terms.append(t)
        x = self.fresh()
        pat.append(x)
        head = [f.lean] + ([self.xname] if getattr(f, "takes_x", True) else []) + [self.ov]
        pre.append("Flow.bind (Flow.call (%s)) fun %s =>" % (" ".join(head + terms), "(%s)" % ", ".join(pat) if len(pat) > 1 else pat[0]))
        pre.extend(post)
        return f.ret, x

    def ext_call(self, fn, terms, places, pre, ret_ty):
        """`X.fn terms.. (current values of places)` -> (final values of places.., value)"""
        pat, post = [], []
        for mp in places:
            terms = terms + [mp[1]]
            pat.append(mp[2])
            post.extend(mp[3])
        x = None
        if ret_ty != "unit":
            x = self.fresh()
            pat.append(x)
        pre.append("Flow.bind (Flow.next (%s.%s %s)) fun %s =>" % (self.xname, fn, " ".join(terms), "(%s)" % ", ".join(pat) if len(pat) > 1 else pat[0]))
        pre.extend(post)
        return ret_ty, (x if x else "()")

    # -- types of expressions
    def try_type(self, e):
        k = e.kind
        if k == "structlit":
            return self.self_type if e.name == "Self" else e.name
        if k == "repeat":
            n = e.len
            return "VecU8" if e.vec else ("array", n.value if n.kind == "lit" else None)
        if k == "index_to":
            return "SliceU8"
        if k == "sizeof":
            return "usize"
        if k == "path" and e.segs == ["aead", "Error"]:
            return "anyerr"
        if k == "call":
            if e.segs == ["BytesMut", "new"]:
                return "BytesMut"
            if e.segs == ["dice", "fill_bytes"]:
                return "unit"
            if e.segs == ["Err"]:
                return None
        if k == "mcall":
            rt = self.try_type(e.base)
            if rt == "CipherMethod":
                return {"tag_size": "usize", "nonce_size": "usize", "encrypt_in_place": ("result", "unit"),
                        "decrypt_in_place": ("result", "unit")}.get(e.name)
            if rt == "XofReader" and e.name == "read":
                return "unit"
            if rt == "DynSession" and e.name in self.lenses:
                return "SliceU8"
            if rt in ARITH_INTS and e.name == "min":
                return rt
            if rt in ("u16",) and e.name in ("to_be_bytes",):
                return ("array", 2)
            if bytes_like(rt) and e.name in ("copy_from_slice", "reserve"):
                return "unit"
            if rt == "DynBuffer":
                return None
        if k in ("loop", "while", "break"):
            return "unit"
        return tj.Gen.try_type(self, e)

    # -- expressions
    def ex(self, e, expected, pre):
        k = e.kind
        if k == "repeat":
            ety, et = self.ex(e.elem, "u8", pre)
            if ety != "u8":
                raise Unsupported("`[v; n]` of `%s` (only bytes)" % type_str(ety), e.line)
            nty, nt = self.ex(e.len, "usize", pre)
            if nty != "usize":
                raise Unsupported("length of `[v; n]` of type `%s`" % type_str(nty), e.line)
            return self.try_type(e), "(List.replicate (%s).toNat %s)" % (nt, et)
        if k == "index_to":
            bty, b = self.ex(e.base, None, pre)
            if not bytes_like(bty):
                raise Unsupported("`[..n]` on a `%s`" % type_str(bty), e.line)
            hty, h = self.ex(e.hi, "usize", pre)
            if hty != "usize":
                raise Unsupported("range bound of type `%s`" % type_str(hty), e.line)
            v = self.fresh()
            pre.append("Flow.bind (Flow.slice_to %s %s) fun %s =>" % (b, h, v))
            return "SliceU8", v
        if k == "sizeof":
            self.require_use("size_of", e.line)
            ty, _ = self.resolve_type(e.targ)
            if ty not in ("u8", "u16", "u32", "u64", "usize"):
                raise Unsupported("`size_of::<%s>()`" % _show_type(e.targ), e.line)
            return "usize", "Mem.size_of_%s" % ty
        if k == "path" and e.segs == ["aead", "Error"]:
            return "anyerr", "()"
        if k == "array" and not e.elems:
            return ("array", 0), "([] : List UInt8)"
        if k == "structlit":
            name = self.self_type if e.name == "Self" else e.name
            if name not in self.structs:
                raise Unsupported("struct literal of `%s`" % e.name, e.line)
            want = self.structs[name]
            if sorted(f for f, _ in e.fields) != sorted(f for f, _ in want):
                raise Unsupported("struct literal of `%s`: fields differ from the declaration (rustc would reject)" % name, e.line)
            parts = []
            for fname, fe in e.fields:       # evaluated in the order written
                fty = dict(want)[fname]
                ty, t = self.ex(fe, fty, pre)
                if not self.arg_compatible(ty, fty):
                    raise Unsupported("field `%s` of the struct literal has type `%s`, expected `%s`" % (fname, type_str(ty), type_str(fty)), e.line)
                parts.append("%s := %s" % (tj.lean_name(fname), t))
            return name, "({ %s } : %s)" % (", ".join(parts), lean_type(name))
        return tj.Gen.ex(self, e, expected, pre)

    def ex_call(self, e, expected, pre):
        if e.segs == ["BytesMut", "new"] and not e.args:
            self.require_use("BytesMut", e.line)
            return "BytesMut", "([] : List UInt8)"
        if e.segs == ["dice", "fill_bytes"]:
            self.require_use("dice", e.line)
            if len(e.args) != 1:
                raise Unsupported("`dice::fill_bytes` with %d arguments" % len(e.args), e.line)
            mp = self.mut_place(e.args[0], "passing `&mut` to `dice::fill_bytes`")
            if mp is None or not bytes_like(mp[0]["ty"]):
                raise Unsupported("argument of `dice::fill_bytes`", e.line)
            if not self.uses_rng:
                raise Unsupported("internal: `dice::fill_bytes` in a function not marked as using the random source", e.line)
            rmp = ({"ty": "Rng"}, self.rng, self.rng, [])
            return self.ext_call("fill_bytes", [], [rmp, mp], pre, "unit")
        if e.segs == ["u16", "from_be_bytes"]:
            if len(e.args) != 1:
                raise Unsupported("`u16::from_be_bytes` with %d arguments" % len(e.args), e.line)
            ty, t = self.ex(e.args[0], None, pre)
            if not (isinstance(ty, tuple) and ty[0] == "array" and ty[1] in (2, None)):
                raise Unsupported("argument of `u16::from_be_bytes` has type `%s` (rustc would reject)" % type_str(ty), e.line)
            if ty[1] is None:
                # the array length is a constant expression the translator does not evaluate: checked at run time
                pre.append("Flow.bind (Flow.check (decide ((%s).length = 2))) fun () =>" % t)
            return "u16", "(U16.from_be_bytes %s)" % t
        if e.segs == ["Err"]:
            if not (isinstance(expected, tuple) and expected[0] == "result"):
                raise Unsupported("cannot determine the type of `Err(..)`", e.line)
            if len(e.args) != 1 or not (e.args[0].kind == "path" and e.args[0].segs == ["aead", "Error"]):
                raise Unsupported("`Err` of something other than `aead::Error`", e.line)
            return expected, "RResult.err"
        f = self.fn_of(e.segs, e.line)
        if f:
            return self.call_fn(f, None, e.args, pre, e.line)
        return tj.Gen.ex_call(self, e, expected, pre)

    def fn_of(self, segs, line, check=True):
        segs = self.norm_segs(segs, line)
        if len(segs) == 2 and (segs[0], segs[1]) in self.fns:
            if check and self.in_main and segs[0] == "PlainSizeParser":
                self.require_use("PlainSizeParser", line)
            return self.fns[(segs[0], segs[1])]
        return None

    def ex_mcall(self, e, expected, pre):
        rty = self.try_type(e.base)
        name = e.name
        if rty == "CipherMethod":
            _, c = self.ex(e.base, None, pre)
            if name in ("tag_size", "nonce_size") and not e.args:
                return "usize", "(%s.%s %s)" % (self.xname, name, c)
            if name in ("encrypt_in_place", "decrypt_in_place") and len(e.args) == 3:
                nty, n = self.ex(e.args[0], None, pre)
                aty, a = self.ex(e.args[1], None, pre)
                if not (bytes_like(nty) and bytes_like(aty)):
                    raise Unsupported("arguments of `.%s(..)`" % name, e.line)
                mp = self.mut_place(e.args[2], "passing `&mut` to `.%s(..)`" % name)
                if mp is None or not bytes_like(mp[0]["ty"]):
                    raise Unsupported("buffer argument of `.%s(..)`" % name, e.line)
                return self.ext_call(name, [c, n, a], [mp], pre, ("result", "unit"))
            raise Unsupported("method `.%s(..)` of `CipherMethod` (not among the assumed externals)" % name, e.line)
        if rty == "XofReader":
            if name == "read" and len(e.args) == 1:
                self.require_use("XofReader", e.line)
                rp = self.mut_place(e.base, "`.read(..)`")
                mp = self.mut_place(e.args[0], "passing `&mut` to `.read(..)`")
                if rp is None or mp is None or not bytes_like(mp[0]["ty"]):
                    raise Unsupported("`.read(..)` on `%s`" % show_expr(e.base), e.line)
                return self.ext_call("xof_read", [], [rp, mp], pre, "unit")
            raise Unsupported("method `.%s(..)` of the XOF reader (not among the assumed externals)" % name, e.line)
        if rty == "DynSession" and name in self.lenses and not e.args:
            pl = self.place_of(e)
            if pl is None:
                raise Unsupported("`.%s()` on `%s`" % (name, show_expr(e.base)), e.line)
            return "SliceU8", self.place_term(pl)
        if rty in ARITH_INTS and name == "min" and len(e.args) == 1:
            _, a = self.ex(e.base, rty, pre)
            bty, b = self.ex(e.args[0], rty, pre)
            if bty != rty:
                raise Unsupported("argument of `.min(..)` has type `%s`" % type_str(bty), e.line)
            return rty, "(%s.min %s %s)" % (PREFIX[rty], a, b)
        if rty == "u16" and name == "to_be_bytes" and not e.args:
            _, a = self.ex(e.base, rty, pre)
            return ("array", 2), "(U16.to_be_bytes %s)" % a
        if bytes_like(rty) and name == "copy_from_slice" and len(e.args) == 1:
            mp = self.mut_place(e.base, "`.copy_from_slice(..)`")
            if mp is None:
                raise Unsupported("`.copy_from_slice(..)` on `%s`" % show_expr(e.base), e.line)
            sty, s = self.ex(e.args[0], None, pre)
            if not bytes_like(sty):
                raise Unsupported("argument of `.copy_from_slice(..)`", e.line)
            pre.append("Flow.bind (Flow.copy_from_slice %s %s) fun %s =>" % (mp[1], s, mp[2]))
            pre.extend(mp[3])
            return "unit", "()"
        if rty in ("BytesMut", "VecU8") and name == "reserve" and len(e.args) == 1:
            # capacity only (allocation failure is not modelled); the argument is still evaluated
            aty, _ = self.ex(e.args[0], "usize", pre)
            if aty != "usize":
                raise Unsupported("argument of `.reserve(..)`", e.line)
            return "unit", "()"
        m = self.method_of(e)
        if m:
            return self.call_fn(m, e.base, e.args, pre, e.line)
        if rty == "DynBuffer":
            raise Unsupported("method `.%s(..)` on a `dyn Buffer`" % name, e.line)
        return ta.Gen.ex_mcall(self, e, expected, pre)

    def ex_bin(self, e, expected, pre):
        op = e.op
        if op in ("%", "^", "&", "|"):
            ty = self.try_type(e.l) or self.try_type(e.r) or expected
            if ty not in ARITH_INTS:
                raise Unsupported("cannot determine the operand type of `%s`" % op, e.line)
            lt, l = self.ex(e.l, ty, pre)
            rt, r = self.ex(e.r, ty, pre)
            if lt != ty or rt != ty:
                raise Unsupported("mismatched operand types for `%s` (rustc would reject)" % op, e.line)
            if op == "%":
                pre.append("Flow.bind (Flow.check (%s != 0)) fun () =>" % r)
                return ty, "(%s %% %s)" % (l, r)
            sym = {"^": "^^^", "&": "&&&", "|": "|||"}[op]
            return ty, "(%s %s %s)" % (l, sym, r)
        if op in ("==", "!="):
            ty = self.try_type(e.l) or self.try_type(e.r)
            if ty in self.enums and ty in self.derives_eq:
                lt, l = self.ex(e.l, ty, pre)
                rt, r = self.ex(e.r, ty, pre)
                if lt != ty or rt != ty:
                    raise Unsupported("mismatched operand types for `%s` (rustc would reject)" % op, e.line)
                return "bool", "(%s %s %s)" % (l, op, r)
        return tj.Gen.ex_bin(self, e, expected, pre)

    def ex_cast(self, e, pre):
        return tj.Gen.ex_cast(self, e, pre)

    # -- control flow
    def ret_term(self, val):
        t = tj.Gen.ret_term(self, val)
        if self.loop_stack:
            return "(LoopExit.ret %s)" % t
        return t

    def outer_mutated(self, nodes):
        found, declared = [], set()

        def add(e):
            b = self.strip(e)
            while b.kind in ("index", "field", "index_full", "index_to") or (b.kind == "mcall" and b.name in self.lenses):
                b = self.strip(b.base)
            if b.kind == "var" and b.name not in found:
                found.append(b.name)

        def walk(n):
            if isinstance(n, list):
                for x in n:
                    walk(x)
                return
            if not isinstance(n, Node):
                return
            if n.kind in ("let", "pbind"):
                declared.add(n.name)
            if n.kind == "assign":
                add(n.target)
            if n.kind == "mcall":
                if ta.MUTATING.fullmatch(n.name) or n.name in ("copy_from_slice", "read", "reserve"):
                    add(n.base)
                if n.name in ("encrypt_in_place", "decrypt_in_place") and len(n.args) == 3:
                    add(n.args[2])
                if n.name == "read":
                    for a in n.args:
                        add(a)
                for key, f in self.fns.items():
                    if key[1] == n.name and f.recv is not None:
                        if f.recv == "mut":
                            add(n.base)
                        for a, (_, mut) in zip(n.args, f.params):
                            if mut:
                                add(a)
                        if getattr(f, "uses_rng", False):
                            found.append(self.rng) if self.rng not in found else None
            if n.kind == "call" and len(n.segs) >= 2:
                if n.segs == ["dice", "fill_bytes"]:
                    for a in n.args:
                        add(a)
                    found.append(self.rng) if self.rng not in found else None
                for key, f in self.fns.items():
                    if key[1] == n.segs[-1] and f.recv is None:
                        for a, (_, mut) in zip(n.args, f.params):
                            if mut:
                                add(a)
            for key, val in n.__dict__.items():
                if key in ("kind", "line", "ty", "targ"):
                    continue
                if isinstance(val, (Node, list)):
                    walk(val)
        walk(nodes)
        names = []
        for n in found:
            if n in declared:
                continue
            for scope in self.scopes:
                if n in scope:
                    names.append(n)
                    break
        names.sort(key=lambda n: self.lookup(n, 0).order)
        # a `ref mut` binding is an alias: what it changes is its root
        out = []
        for n in names:
            out.append(n)
            al = getattr(self.lookup(n, 0), "alias", None)
            if al and al[0]["var"].name not in names and al[0]["var"].name not in out:
                out.append(al[0]["var"].name)
        out.sort(key=lambda n: self.lookup(n, 0).order)
        return out

    def has_break(self, n):
        if isinstance(n, list):
            return any(self.has_break(x) for x in n)
        if not isinstance(n, Node):
            return False
        if n.kind == "break":
            return True
        return any(self.has_break(v) for k, v in n.__dict__.items() if k not in ("kind", "line") and isinstance(v, (Node, list)))

    def has_loop(self, n):
        if isinstance(n, list):
            return any(self.has_loop(x) for x in n)
        if not isinstance(n, Node):
            return False
        if n.kind in ("loop", "while"):
            return True
        return any(self.has_loop(v) for k, v in n.__dict__.items() if k not in ("kind", "line") and isinstance(v, (Node, list)))

    def emit_loop(self, e, ind):
        """the loop as a statement; returns the names it carries"""
        if self.loop_stack or self.has_loop(e.body):
            raise Unsupported("nested loop", e.line)
        nodes = [e.body] + ([e.cond] if e.cond is not None else [])
        names = self.outer_mutated(nodes)
        bufs = [n for n in names if self.lookup(n, e.line).ty in ("BytesMut", "VecU8", "Bytes")]
        arms = 1
        body = e.body
        inner = body.tail if (body.tail is not None and not body.stmts) else \
            (body.stmts[0].expr if (len(body.stmts) == 1 and body.tail is None and body.stmts[0].kind == "exprstmt") else None)
        if inner is not None and inner.kind == "match":
            arms = len(inner.arms)
        fuel = "%d * (%s)" % (arms, " + ".join(["(%s).length" % tj.lean_name(n) for n in bufs] + ["1"]))
        self.emit(ind, "-- L%d: %s   (carries: %s; fuel: %d step(s) per buffered byte of %s, plus %d)"
                  % (e.line, show_expr(e), ", ".join(names) if names else "nothing", arms, ", ".join(bufs) if bufs else "nothing", arms))
        self.emit(ind, "Flow.bind (Flow.loopFuel (fun %s =>" % self.pat(names))
        self.loop_stack.append(names)
        if e.cond is not None:
            if self.outer_mutated([e.cond]):
                raise Unsupported("loop condition with an effect", e.line)
            pre = []
            ty, c = self.ex(e.cond, "bool", pre)
            if ty != "bool":
                raise Unsupported("loop condition of type `%s` (rustc would reject)" % type_str(ty), e.line)
            self.emit_pre(ind + 2, pre)
            self.emit(ind + 2, "if !%s then Flow.ret (LoopExit.brk %s) else" % (c, self.pat(names)))
        self.cf(e.body, ind + 2, ("stmt", names))
        self.loop_stack.pop()
        self.emit(ind + 1, ") (%s) %s" % (fuel, self.pat(names)))
        self.emit(ind, ") fun %s =>" % self.pat(names))

    def cf(self, e, ind, mode):
        if e.kind in ("loop", "while"):
            self.emit_loop(e, ind)
            if e.kind == "loop" and not self.has_break(e.body):
                self.emit(ind, "-- not reached: the loop has no `break`")
                self.emit(ind, "Flow.panic")
            else:
                self.fallthrough(ind, mode, e.line)
            return
        if e.kind == "break":
            if not self.loop_stack:
                raise Unsupported("`break` outside a loop (rustc would reject)", e.line)
            self.emit(ind, "Flow.ret (LoopExit.brk %s)" % self.pat(self.loop_stack[-1]))
            return
        tj.Gen.cf(self, e, ind, mode)

    def cf_match(self, e, ind, mode):
        # `ref mut` bindings: remember where they point
        for a in e.arms:
            p = a.pat
            if p.kind == "pctor":
                for sp in p.subs:
                    if sp.kind == "pbind" and getattr(sp, "byref", None) == "mut":
                        pl = self.place_of(e.scrut)
                        c = self.ctor_of(p.segs, p.line)
                        if pl is None or c is None or len(c[2]) != 1 or not pl["var"].mut:
                            raise Unsupported("`ref mut` binding (only the single field of a variant of a mutable place)", sp.line)
                        self.byref_binds[(sp.name, sp.line)] = ("mut", pl, c[0], c[1])
                    elif sp.kind == "pbind" and getattr(sp, "byref", None) == "ref":
                        self.byref_binds[(sp.name, sp.line)] = ("ref",)
        tj.Gen.cf_match(self, e, ind, mode)

    def infer_from_uses(self, name, rest):
        found = []

        def walk(n):
            if isinstance(n, list):
                for x in n:
                    walk(x)
                return
            if not isinstance(n, Node):
                return
            if n.kind == "bin" and n.op in ("+", "-", "*", "<", ">", "<=", ">=", "==", "!=", "%", "^"):
                for a, b in ((n.l, n.r), (n.r, n.l)):
                    s = a
                    while s.kind == "paren":
                        s = s.expr
                    if s.kind == "var" and s.name == name:
                        try:
                            t = self.try_type(b)
                        except Unsupported:
                            t = None
                        if t:
                            found.append(t)
            for key, val in n.__dict__.items():
                if key not in ("kind", "line") and isinstance(val, (Node, list)):
                    walk(val)
        walk(rest)
        return found[0] if found else None

    def stmts(self, stmts, ind):
        done = False
        for i, s in enumerate(stmts):
            if done:
                raise Unsupported("statement after `return`/`break`", s.line)
            if s.kind == "exprstmt":
                e = s.expr
                if e.kind == "macro" and e.name in LOG_MACROS:
                    self.require_use(e.name, e.line)
                    self.pure_args(e)
                    self.emit(ind, "-- L%d: %s;   (logging: no effect)" % (s.line, show_expr(e)))
                    continue
                if e.kind == "break":
                    self.emit(ind, "-- L%d: break;" % s.line)
                    self.cf(e, ind, None)
                    done = True
                    continue
                if e.kind in ("loop", "while"):
                    self.emit_loop(e, ind)
                    if e.kind == "loop" and not self.has_break(e.body):
                        self.emit(ind, "-- not reached: the loop has no `break`")
                        self.emit(ind, "Flow.panic")
                        done = True
                    continue
                if e.kind in ("call", "mcall", "try"):
                    self.emit(ind, "-- L%d: %s;" % (s.line, show_expr(e)))
                    pre = []
                    self.ex(e, None, pre)
                    self.emit_pre(ind, pre)
                    continue
            if s.kind == "let" and s.ty is None:
                try:
                    t0 = self.try_type(s.expr)
                except Unsupported:
                    t0 = None
                if t0 is None:
                    t1 = self.infer_from_uses(s.name, stmts[i + 1:])
                    if t1 is not None:
                        self.emit(ind, "-- L%d: let %s%s = %s;   (type `%s` from its uses)" % (s.line, "mut " if s.mut else "", s.name, show_expr(s.expr), type_str(t1)))
                        pre = []
                        ty, t = self.ex(s.expr, t1, pre)
                        if ty != t1:
                            raise Unsupported("`let %s`: inferred `%s`, found `%s`" % (s.name, type_str(t1), type_str(ty)), s.line)
                        self.emit_pre(ind, pre)
                        self.declare(s.name, ty, s.mut, s.line)
                        self.emit(ind, "let %s : %s := %s" % (tj.lean_name(s.name), lean_type(ty), t))
                        continue
            if s.kind == "let" and s.ty is not None:
                want = self.resolve_type(s.ty)[0]
                self.emit(ind, "-- L%d: let %s%s: %s = %s;" % (s.line, "mut " if s.mut else "", s.name, _show_type(s.ty), show_expr(s.expr)))
                pre = []
                ty, t = self.ex(s.expr, want, pre)
                if not (ty == want or (bytes_like(ty) and bytes_like(want))):
                    raise Unsupported("`let %s` type annotation mismatch (rustc would reject)" % s.name, s.line)
                self.emit_pre(ind, pre)
                self.declare(s.name, want, s.mut, s.line)
                self.emit(ind, "let %s : %s := %s" % (tj.lean_name(s.name), lean_type(want), t))
                continue
            done = ta.Gen.stmts(self, [s], ind)
        return done

    def emit_return_value(self, ty, t, line, ind):
        if ty != self.ret_ty and not (bytes_like(ty) and bytes_like(self.ret_ty)):
            raise Unsupported("returned value has type `%s`, function returns `%s` (rustc would reject)" % (type_str(ty), type_str(self.ret_ty)), line)
        self.emit(ind, "Flow.ret %s" % self.ret_term(t))

    # ------------------------------------------------------------------------------------
    # items
    # ------------------------------------------------------------------------------------
    def fn_sig(self, fn, qualifier, lean):
        params = []
        for prm in fn.params:
            ty, mut = self.resolve_type(prm.ty)
            if ty in ("unit", "str", "anyerr") or isinstance(ty, tuple) and ty[0] == "result":
                raise Unsupported("parameter of type `%s`" % _show_type(prm.ty), prm.line)
            if mut and not (bytes_like(ty) or ty == "DynSession"):
                raise Unsupported("`&mut %s` parameter" % type_str(ty), prm.line)
            if ty in ("DynSession", "DynBuffer") and not mut and prm.ty.kind != "tref":
                raise Unsupported("trait object by value", prm.line)
            params.append((ty, mut))
        ret, _ = self.resolve_type(fn.ret)
        if ret in ("str", "anyerr"):
            raise Unsupported("return type `%s`" % _show_type(fn.ret), fn.line)
        sig = FnSig(lean, getattr(fn, "recv", None), params, ret, "`%s::%s`" % (qualifier, fn.name))
        sig.takes_x = True
        sig.uses_rng = fn.name in self.rng_fns
        return sig

    def typarams_text(self):
        return "{%s : Type} (%s : Ext %s)" % (" ".join(TYPARAMS), self.xname, " ".join(TYPARAMS))

    def gen_method(self, fn, qualifier, self_type, lean, in_main, origin):
        out = self.out
        self.self_type = self_type
        self.assoc_types = {}
        self.in_main = in_main
        self.scopes = [{}]
        self.order = 0
        self.lines = []
        self.unsafe_depth = 0
        self.uses_utf8 = False
        self.loop_stack = []
        sig = self.fn_sig(fn, qualifier, lean)
        self.ret_ty = sig.ret
        self.recv = sig.recv
        self.uses_rng = sig.uses_rng
        params, sigtxt = [], []
        self.mut_params = []
        if sig.recv is not None:
            if self_type not in self.structs and self_type not in self.enums:
                raise Unsupported("receiver of type `%s`" % self_type, fn.line)
            self.order += 1
            self.scopes[-1]["self"] = Var("self", self_type, sig.recv == "mut", self.order)
            params.append("(%s : %s)" % (SELF_NAME[0], lean_type(self_type)))
            sigtxt.append("&mut self" if sig.recv == "mut" else "&self")
        if self.uses_rng:
            self.order += 1
            self.scopes[-1][self.rng] = Var(self.rng, "Rng", True, self.order)
            self.mut_params.append(self.rng)
            params.append("(%s : RNG)" % self.rng)
        for prm, (ty, mut) in zip(fn.params, sig.params):
            self.declare(prm.name, ty, mut or getattr(prm, "bymut", False), prm.line)
            if mut:
                self.mut_params.append(prm.name)
            params.append("(%s : %s)" % (tj.lean_name(prm.name), lean_type(ty)))
            sigtxt.append("%s%s: %s" % ("mut " if getattr(prm, "bymut", False) else "", prm.name, _show_type(prm.ty)))
        self.cf(fn.body, 1, ("tail",))
        if self.uses_utf8:
            raise Unsupported("`String::from_utf8` in `%s`" % fn.name, fn.line)
        rty = lean_type(self.ret_ty)
        finals = (["final `*self`"] if sig.recv == "mut" else []) + \
            [("the random source after the call" if n == self.rng else "final `*%s`" % n) for n in self.mut_params]
        if finals:
            tys = ([lean_atom(self_type)] if sig.recv == "mut" else []) + [lean_atom(self.lookup(n, fn.line).ty) for n in self.mut_params]
            rty = " × ".join(tys + [lean_atom(self.ret_ty)])
        out.append("-- %s L%d: fn %s(%s) -> %s" % (origin, fn.line, fn.name, ", ".join(sigtxt), _show_type(fn.ret)))
        if finals:
            out.append("/-- `%s::%s`; the result is the tuple (%s, returned value) -/" % (qualifier, fn.name, ", ".join(finals)))
        else:
            out.append("/-- `%s::%s` -/" % (qualifier, fn.name))
        out.append("def %s %s : Res (%s) :=" % (lean, " ".join([self.typarams_text(), "(%s : Bool)" % self.ov] + params), rty))
        out.append("  Flow.run (")
        out.extend(self.lines)
        out.append("  )")
        out.append("")
        self.fns[(qualifier, fn.name)] = sig
        self.self_type = None
        self.recv = None
        return sig

    def register_enum_x(self, en, attrs):
        variants = []
        for v in en.variants:
            ftys = []
            for f in v.fields:
                ty, mut = self.resolve_type(f)
                if ty in ("unit", "str", "anyerr") or mut or (isinstance(ty, tuple) and ty[0] == "result"):
                    raise Unsupported("field of type `%s` in `enum %s`" % (_show_type(f), en.name), f.line)
                ftys.append(ty)
            if any(v.name == w[0] for w in variants):
                raise Unsupported("duplicate variant `%s`" % v.name, v.line)
            if v.disc is not None:
                raise Unsupported("explicit discriminant in `enum %s`" % en.name, v.line)
            variants.append((v.name, ftys))
        if not variants:
            raise Unsupported("`enum %s` without variants" % en.name, en.line)
        self.enums[en.name] = variants
        taint = []
        for _, ftys in variants:
            for t in ftys:
                for p in taint_of(t):
                    if p not in taint:
                        taint.append(p)
        taint.sort(key=TYPARAMS.index)
        if taint:
            TAINT[en.name] = taint
        KNOWN.add(en.name)
        tj.KNOWN_NAMED.add(en.name)
        derives = set()
        for text, _ in attrs:
            m = re.fullmatch(r"derive\((.*)\)", text)
            if m:
                derives |= set(x.strip() for x in m.group(1).split(","))
        if "PartialEq" in derives:
            self.derives_eq.add(en.name)
        out = self.out
        out.append("/-! ### enum %s -/" % en.name)
        out.append("inductive %s%s where" % (en.name, "".join(" (%s : Type)" % p for p in taint)))
        for v, (vname, ftys) in zip(en.variants, variants):
            out.append("  -- L%d: %s%s" % (v.line, vname, ("(%s)" % ", ".join(_show_type(f) for f in v.fields)) if v.fields else ""))
            out.append("  | %s%s" % (tj.lean_name(vname), "".join(" (a%d : %s)" % (i, lean_type(t)) for i, t in enumerate(ftys))))
        if not taint:
            out.append("deriving DecidableEq, Repr")
        out.append("")

    def register_struct_x(self, st, origin=None):
        fields = []
        for f in st.fields:
            ty, mut = self.resolve_type(f.ty)
            if mut or ty in ("unit", "str", "anyerr", "DynSession", "DynBuffer") or (isinstance(ty, tuple) and ty[0] == "result"):
                raise Unsupported("field `%s: %s`" % (f.name, _show_type(f.ty)), f.line)
            if any(f.name == g[0] for g in fields):
                raise Unsupported("duplicate field `%s`" % f.name, f.line)
            fields.append((f.name, ty))
        if not fields:
            raise Unsupported("`struct %s` without fields" % st.name, st.line)
        self.structs[st.name] = fields
        taint = []
        for _, t in fields:
            for p in taint_of(t):
                if p not in taint:
                    taint.append(p)
        taint.sort(key=TYPARAMS.index)
        if taint:
            TAINT[st.name] = taint
        KNOWN.add(st.name)
        tj.KNOWN_NAMED.add(st.name)
        out = self.out
        out.append("/-! ### struct %s%s -/" % (st.name, (" (%s)" % origin) if origin else ""))
        out.append("structure %s%s where" % (st.name, "".join(" (%s : Type)" % p for p in taint)))
        for f, (fname, ty) in zip(st.fields, fields):
            out.append("  -- L%d: %s: %s" % (f.line, fname, _show_type(f.ty)))
            out.append("  %s : %s" % (tj.lean_name(fname), lean_type(ty)))
        if not taint:
            out.append("deriving DecidableEq, Repr")
        lens = [(fname, ty[1]) for fname, ty in fields if isinstance(ty, tuple) and ty[0] == "array" and ty[1] is not None]
        if lens:
            out.append("/-- the part of the Rust type that a list does not carry: fixed array lengths -/")
            out.append("def %s.WF%s (s : %s) : Prop := %s" % (st.name, "".join(" {%s : Type}" % p for p in taint), lean_type(st.name),
                                                             " ∧ ".join("s.%s.length = %d" % (tj.lean_name(n), k) for n, k in lens)))
        out.append("")


def taint_of(t):
    if t in EXT_TYPES:
        return [EXT_TYPES[t]]
    if isinstance(t, str):
        return TAINT.get(t, [])
    if isinstance(t, tuple) and t[0] in ("option", "result"):
        return taint_of(t[1])
    if isinstance(t, tuple) and t[0] == "tuple":
        return [p for x in t[1] for p in taint_of(x)]
    return []


# --------------------------------------------------------------------------------------------
# fixed run-time support written into every generated file
# --------------------------------------------------------------------------------------------

PRELUDE = r'''
/-! ### fixed run-time support (not derived from the source): library semantics

`Res`, `Flow`, `Flow.bind/run/arith/check` are those of `Octo.PWGen`; `RResult`, `Cursor`, the `bytes` operations and the
integer casts are those of `Octo.AddrGen`; `CountingNonceGenerator` and its `generate` are `Octo.NonceGen` (generated from
`codec/aead.rs`; byte strings are arrays there and lists here). -/

/-- call of a translated function: its value, or its panic -/
def Flow.call {α ρ : Type} : Res α → Flow α ρ
  | .ok a => .next a
  | .panic => .panic

/-- `u16::from_be_bytes([a, b])` -/
def U16.from_be_bytes (b : List UInt8) : UInt16 := UInt16.ofNat (beNat b)
/-- `x.to_be_bytes()` -/
def U16.to_be_bytes (x : UInt16) : List UInt8 := [(x >>> 8).toUInt8, x.toUInt8]
/-- `size_of::<T>()` -/
def Mem.size_of_u8 : Usize := 1
def Mem.size_of_u16 : Usize := 2
def Mem.size_of_u32 : Usize := 4
def Mem.size_of_u64 : Usize := 8
def Mem.size_of_usize : Usize := 8
/-- `a.min(b)` -/
def Usize.min (a b : Usize) : Usize := if a ≤ b then a else b
def U16.min (a b : UInt16) : UInt16 := if a ≤ b then a else b

/-- `&b[..n]`: panics when `n > b.len()` -/
def Flow.slice_to {ρ : Type} (b : List UInt8) (n : Usize) : Flow (List UInt8) ρ :=
  if n.toNat ≤ b.length then .next (b.take n.toNat) else .panic

/-- `dst.copy_from_slice(src)`: panics when the lengths differ; the value is the new content of `dst` -/
def Flow.copy_from_slice {ρ : Type} (dst src : List UInt8) : Flow (List UInt8) ρ :=
  if src.length = dst.length then .next src else .panic

/-- how the body of a loop is left early: by `break` (carrying the loop's variables) or by `return` -/
inductive LoopExit (σ ρ : Type) where
  | brk (s : σ)
  | ret (r : ρ)

/-- `loop { body }` on explicit fuel (the number of iterations the translator allows: a fixed multiple of the bytes
buffered at loop entry, see the comment at each loop).  The body falls through (`next`: next iteration), breaks, returns
or panics.  Running out of fuel is reported as `panic` - it is not a Rust outcome; the no-panic theorems of
`Octo/Proofs/VmessBodyGen.lean` show that it never happens, i.e. that the Rust loop ends by itself within the fuel. -/
def Flow.loopFuel {σ ρ : Type} (body : σ → Flow σ (LoopExit σ ρ)) : Nat → σ → Flow σ ρ
  | 0, _ => .panic
  | n + 1, s =>
    match body s with
    | .next s' => Flow.loopFuel body n s'
    | .ret (.brk s') => .next s'
    | .ret (.ret r) => .ret r
    | .panic => .panic

/-- **assumed externals** (not translated; every generated function takes them as its first parameter):
`CM` = `codec::aead::CipherMethod` (an AEAD cipher with its key), `XR` = the SHAKE128 XOF reader
(`XofReaderCoreWrapper<Shake128ReaderCore>`), `RNG` = the state of the random source behind `util::dice::fill_bytes`. -/
structure Ext (CM XR RNG : Type) where
  /-- `CipherMethod::tag_size(&self)` -/
  tag_size : CM → Usize
  /-- `CipherMethod::nonce_size(&self)` -/
  nonce_size : CM → Usize
  /-- `CipherMethod::encrypt_in_place(&self, nonce, associated_data, buffer)`: (final buffer, result) -/
  encrypt_in_place : CM → List UInt8 → List UInt8 → List UInt8 → List UInt8 × RResult Unit
  /-- `CipherMethod::decrypt_in_place(&self, nonce, associated_data, buffer)`: (final buffer, result) -/
  decrypt_in_place : CM → List UInt8 → List UInt8 → List UInt8 → List UInt8 × RResult Unit
  /-- `XofReader::read(&mut self, buffer)`: (reader after the call, final buffer) -/
  xof_read : XR → List UInt8 → XR × List UInt8
  /-- `dice::fill_bytes(bytes)`: (random source after the call, final bytes) -/
  fill_bytes : RNG → List UInt8 → RNG × List UInt8

/-- `CountingNonceGenerator::generate(&mut self, nonce)` of `Octo.NonceGen` on a list:
(final `*self`, final `*nonce`, returned slice) -/
def CountingNonceGenerator.generate (ov : Bool) (g : Octo.NonceGen.CountingNonceGenerator) (nonce : List UInt8) :
    Res (Octo.NonceGen.CountingNonceGenerator × List UInt8 × List UInt8) :=
  match Octo.NonceGen.CountingNonceGenerator.generate ov g nonce.toArray with
  | .ok (g', n', r) => .ok (g', n'.toList, r.toList)
  | .panic => .panic

/-- `CountingNonceGenerator::new(nonce_size)` of `Octo.NonceGen` -/
def CountingNonceGenerator.new (ov : Bool) (nonce_size : Usize) : Res Octo.NonceGen.CountingNonceGenerator :=
  Octo.NonceGen.CountingNonceGenerator.new ov nonce_size
'''


# --------------------------------------------------------------------------------------------
# driver
# --------------------------------------------------------------------------------------------

def find_side(main_path, role):
    here = os.path.dirname(os.path.abspath(main_path))
    src = os.path.normpath(os.path.join(here, "..", ".."))
    cands = {
        "chunk": [os.path.join(src, "codec", "chunk.rs"), os.path.join(here, "chunk.rs")],
        "session": [os.path.join(src, "protocol", "vmess", "session.rs"), os.path.join(here, "session.rs")],
        "nonce": [os.path.join(src, "codec", "aead.rs"), os.path.join(here, "codec_aead.rs")],
    }[role]
    if os.path.basename(os.path.dirname(here)) != "codec" or os.path.basename(here) != "vmess":
        cands = cands[1:] + cands[:1]
    for c in cands:
        if os.path.exists(c) and os.path.abspath(c) != os.path.abspath(main_path):
            return c
    raise Unsupported("source file for `%s` not found (looked for %s)" % (role, ", ".join(cands)), 1)


def parse_source(path, role):
    data = open(path, "rb").read()
    try:
        src = data.decode("utf-8")
    except UnicodeDecodeError:
        raise Unsupported("non-UTF-8 source %s" % path, 1)
    toks = tn.tokenize(src)
    p = Parser(toks, role)
    try:
        p.parse_file()
    except Unsupported as u:
        if role != "main":
            raise Unsupported("%s (in %s)" % (u.what, os.path.basename(path)), u.line)
        raise
    return data, toks, p


def other_session_impls(main_path, session_path):
    """`impl Session for X` anywhere else in the repository (every .rs below the workspace root, or next to the argument)"""
    here = os.path.dirname(os.path.abspath(main_path))
    root = os.path.normpath(os.path.join(here, "..", "..", "..", ".."))
    roots = [root] if os.path.isdir(os.path.join(root, "octo-squirrel")) else [here]
    found = []
    for r in roots:
        for d, dirs, files in os.walk(r):
            dirs[:] = [x for x in dirs if x not in ("target", ".git")]
            for f in files:
                if not f.endswith(".rs"):
                    continue
                p = os.path.join(d, f)
                if os.path.abspath(p) == os.path.abspath(session_path):
                    continue
                try:
                    text = open(p, encoding="utf-8").read()
                except (OSError, UnicodeDecodeError):
                    continue
                for m in re.finditer(r"\bimpl\b[^{;]*\bSession\s+for\s+(\w+)", text):
                    if re.search(r"\b(vmess::)?session::\{?[^;]*\bSession\b|use\s+super::Session", text):
                        found.append("%s in %s" % (m.group(1), p))
    return found


def topo(items, deps):
    order, state = [], {}

    def visit(n):
        if state.get(n) == 2:
            return
        if state.get(n) == 1:
            raise Unsupported("recursive definition involving `%s`" % str(n), 1)
        state[n] = 1
        for c in deps(n):
            if c in items and c != n:
                visit(c)
        state[n] = 2
        order.append(n)
    for n in items:
        visit(n)
    return order


def type_names_in(t):
    out = []

    def walk(x):
        if isinstance(x, Node):
            if x.kind == "tname":
                out.append(x.name)
            for key, val in x.__dict__.items():
                if key not in ("kind", "line") and isinstance(val, (Node, list)):
                    walk(val)
        elif isinstance(x, list):
            for y in x:
                walk(y)
    walk(t)
    return out


def called_names(fn):
    """(names called as methods, [type, name] path calls)"""
    ms, ps = set(), set()

    def walk(n):
        if isinstance(n, list):
            for x in n:
                walk(x)
        elif isinstance(n, Node):
            if n.kind == "mcall":
                ms.add(n.name)
            if n.kind == "call" and len(n.segs) >= 2:
                ps.add((n.segs[-2], n.segs[-1]))
            for key, val in n.__dict__.items():
                if key not in ("kind", "line") and isinstance(val, (Node, list)):
                    walk(val)
    walk(fn.body)
    return ms, ps


def header(path, digest, p, sides, g, skipped_extra):
    L = []
    L.append("/- GENERATED by translate_vmessbody.py — do not edit.")
    L.append("   source: %s" % path)
    L.append("   sha256: %s" % digest)
    L.append("   further sources (found relative to the first):")
    for role, (spath, sdigest, what) in sides.items():
        L.append("     - %s: %s (sha256 %s): %s" % (role, os.path.basename(spath), sdigest, what))
    L.append("")
    L.append("   Statement-by-statement translation of the top-level enums / structs of the source and of the methods of their")
    L.append("   inherent `impl` blocks (located by name), of `PlainSizeParser` (codec/chunk.rs) and of the `Session` trait object.")
    L.append("   Conventions of translate_addr.py / translate_trojan.py (see Octo/Gen/AddrGen.lean, Octo/Gen/TrojanGen.lean):")
    L.append("   u8/u16/usize = UIntN (usize = 64 bit), `as` = zero-extension / truncation, `+ - *` wrap and are preceded by")
    L.append("   `Flow.arith ov (..)` (panic when overflow-checks are on), `%` panics on a zero divisor, `BytesMut`/`Vec<u8>`/`&[u8]`/")
    L.append("   `[u8; N]`/`&mut dyn Buffer` = List UInt8 (a read cursor = the bytes that remain; fixed lengths are kept in `<Struct>.WF`),")
    L.append("   `get_*`/`split_to`/`advance`/`x[..n]`/`copy_from_slice` panic as in Rust, `Result<T, aead::Error>` = RResult T, `e?` =")
    L.append("   Flow.question, `match` = a case tree in declaration order, a method with `&mut self` takes the struct value first and")
    L.append("   returns (final `*self`, final `&mut` arguments.., returned value) - also on `Err`.  In addition here:")
    L.append("   * ASSUMED EXTERNALS: the record `Ext CM XR RNG` (first parameter `X` of every function): `CipherMethod::{tag_size,")
    L.append("     nonce_size, encrypt_in_place, decrypt_in_place}`, `XofReader::read` of the SHAKE128 reader, `dice::fill_bytes` (the")
    L.append("     random source `rng` is passed to and returned by every function that reaches it); `CountingNonceGenerator::generate`")
    L.append("     is the generated function of Octo/Gen/NonceGen.lean; `BytesMut::reserve` only changes the capacity (allocation")
    L.append("     failure is not modelled).")
    L.append("   * `&mut dyn Session` = `DynSession`, the sum of the implementors found in session.rs (no other `impl Session for` exists")
    L.append("     in the workspace: checked); a trait method returning `&mut [u8]` is a lens: its value is read (`DynSession.m`), handed")
    L.append("     to the callee, and the callee's final content is stored back (`DynSession.m_put`).")
    L.append("   * a mutable place can be a variable, a field path of one (`self.shake`), such a lens, or a `ref mut` binding into the")
    L.append("     single field of an enum variant (written back into the variant after every change); `&mut` of a temporary drops the")
    L.append("     final value.")
    L.append("   * `loop` / `while`: `Flow.loopFuel body fuel vars`; fuel = (number of arms of the `match` that is the loop body, else 1) x")
    L.append("     (bytes in the loop-carried buffers + 1); fuel exhaustion = `panic` (never reached: proved, not assumed).")
    L.append("   * a compile-time array length the translator does not evaluate (`[0; Self::size_bytes()]`) is checked at run time where")
    L.append("     the type matters (`u16::from_be_bytes`): `Flow.check`.")
    L.append("   * logging macros are skipped (their arguments are checked to be free of panics / effects).")
    L.append("   names are bound through the `use` items of the source (checked for: %s)." % ", ".join(sorted(g.used_names)))
    L.append("   skipped (not parsed, bracket matching only):")
    if p.nuse:
        L.append("     - %d `use` items (read for name binding only)" % p.nuse)
    for s in p.skipped + skipped_extra:
        L.append("     - %s" % s)
    L.append("-/")
    return L


def translate(path, out_path):
    TAINT.clear()
    KNOWN.clear()
    data, toks, p = parse_source(path, "main")
    digest = hashlib.sha256(data).hexdigest()
    idents = [t.text for t in toks if t.kind == "ident"]
    loaded = {}
    for role in ("chunk", "session", "nonce"):
        spath = find_side(path, role)
        sdata, stoks, sp = parse_source(spath, role)
        loaded[role] = (spath, hashlib.sha256(sdata).hexdigest(), sp, stoks, sdata)
        idents += [t.text for t in stoks if t.kind == "ident"]

    nonce_gen = os.path.join(os.path.dirname(os.path.abspath(out_path)), "NonceGen.lean")
    if os.path.exists(nonce_gen):
        m = re.search(r"sha256: (\w+)", open(nonce_gen, encoding="utf-8").read())
        if m and m.group(1) != loaded["nonce"][1]:
            raise OSError("%s was generated from another codec/aead.rs (sha256 %s, this one is %s): run translate_nonce.py first"
                          % (nonce_gen, m.group(1)[:16], loaded["nonce"][1][:16]))

    for name in MAIN_TYPES:
        if not any(s.name == name for s in p.structs) and not any(e.name == name for e in p.enums):
            raise Unsupported("`%s` not found" % name, 1)

    g = Gen(idents, p.uses)
    sides = {}
    skipped_extra = []

    # ---- codec/aead.rs: the signatures of the nonce generator (bodies: Octo.NonceGen)
    spath, sdig, sp, stoks, sdata = loaded["nonce"]
    text = re.sub(r"\s+", " ", sdata.decode("utf-8"))
    if not re.search(r"struct CountingNonceGenerator \{ count: u16, nonce_size: usize, \}", text):
        raise Unsupported("`struct CountingNonceGenerator { count: u16, nonce_size: usize }` not found in %s" % os.path.basename(spath), 1)
    if not re.search(r"fn generate<'a>\(&mut self, nonce: &'a mut \[u8\]\) -> &'a \[u8\]", text) or len(re.findall(r"fn generate\b", text)) != 2:
        raise Unsupported("`CountingNonceGenerator::generate(&mut self, nonce: &mut [u8]) -> &[u8]` not found in %s" % os.path.basename(spath), 1)
    f = FnSig("CountingNonceGenerator.generate", "mut", [("SliceU8", True)], "SliceU8", "`CountingNonceGenerator::generate`")
    f.takes_x = False
    f.uses_rng = False
    g.fns[("CountingNonceGenerator", "generate")] = f
    if not re.search(r"fn new\(nonce_size: usize\) -> Self \{ Self \{ count: 0, nonce_size \} \}", text):
        raise Unsupported("`CountingNonceGenerator::new(nonce_size: usize) -> Self` not found in %s" % os.path.basename(spath), 1)
    f = FnSig("CountingNonceGenerator.new", None, [("usize", False)], "CountingNonceGenerator", "`CountingNonceGenerator::new`")
    f.takes_x = False
    f.uses_rng = False
    g.fns[("CountingNonceGenerator", "new")] = f
    sides["nonce"] = (spath, sdig, "signature of `CountingNonceGenerator::new`, `CountingNonceGenerator::generate` (body: Octo.NonceGen)")

    pre_out = []
    g.out = pre_out
    pre_out.append(PRELUDE)

    # ---- protocol/vmess/session.rs
    spath, sdig, sp, stoks, sdata = loaded["session"]
    if sp.macro is None or len(sp.traits) != 1:
        raise Unsupported("`macro_rules! session_impl` / `trait Session` not found in %s" % os.path.basename(spath), 1)
    others = other_session_impls(path, spath)
    if others:
        raise Unsupported("`Session` has an implementor outside session.rs (%s): the trait object cannot be enumerated" % "; ".join(others), 1)
    implementors = []
    pre_out.append("/-! ### the implementors of `trait Session` (protocol/vmess/session.rs; the struct is declared by `session_impl!`) -/")
    for line, name in sp.invocations:
        exp = []
        body = sp.macro[1]
        i = 0
        while i < len(body):
            t = body[i]
            if t.kind == "punct" and t.text == "$":
                nt = body[i + 1]
                if nt.text != "name":
                    raise Unsupported("macro variable `$%s` in `session_impl!`" % nt.text, nt.line)
                exp.append(pw.Tok("ident", name, nt.line))
                i += 2
                continue
            exp.append(t)
            i += 1
        exp.append(pw.Tok("eof", "", body[-1].line if body else line))
        ep = Parser(exp, "expanded")
        try:
            ep.parse_file()
        except Unsupported as u:
            raise Unsupported("%s (in the expansion of `session_impl!(%s)`)" % (u.what, name), u.line)
        sts = [s for s in ep.structs if s.name == name]
        if len(sts) != 1:
            raise Unsupported("`session_impl!(%s)` does not declare `struct %s`" % (name, name), line)
        g.register_struct_x(sts[0], "`session_impl!(%s)`, line %d" % (name, line))
        implementors.append(name)
    impls = {im.ty: im for im in sp.impls}
    if sorted(impls) != sorted(implementors) or len(sp.impls) != len(implementors):
        raise Unsupported("implementors of `Session` (%s) are not exactly the `session_impl!` structs (%s)"
                          % (", ".join(sorted(impls)), ", ".join(sorted(implementors))), 1)
    KNOWN.add("DynSession")
    pre_out.append("/-- `dyn Session`: one of the implementors -/")
    pre_out.append("inductive DynSession where")
    for n in implementors:
        pre_out.append("  | %s (s : %s)" % (n, n))
    pre_out.append("deriving DecidableEq, Repr")
    pre_out.append("")
    for sig in sp.traits[0].sigs:
        rty, rmut = g.resolve_type(sig.ret)
        if rty != "SliceU8" or rmut != sig.mut:
            raise Unsupported("trait method `Session::%s` is not `(&self) -> &[u8]` / `(&mut self) -> &mut [u8]`" % sig.name, sig.line)
        fields = {}
        for n in implementors:
            fns = [f_ for f_ in impls[n].fns if f_.name == sig.name]
            if len(fns) != 1:
                raise Unsupported("`impl Session for %s` without `%s`" % (n, sig.name), impls[n].line)
            fn = fns[0]
            b = fn.body
            e = b.tail
            ok = b.kind == "block" and not b.stmts and e is not None and e.kind == "ref" and bool(e.mut) == sig.mut \
                and e.expr.kind == "field" and e.expr.base.kind == "var" and e.expr.base.name == "self" \
                and fn.recv == ("mut" if sig.mut else "ref") and not fn.params
            if not ok or e.expr.name not in [x[0] for x in g.structs[n]]:
                raise Unsupported("`%s::%s` is not `&%sself.<field>`" % (n, sig.name, "mut " if sig.mut else ""), fn.line)
            fty = dict(g.structs[n])[e.expr.name]
            if not (isinstance(fty, tuple) and fty[0] == "array"):
                raise Unsupported("`%s::%s` returns a field that is not a byte array" % (n, sig.name), fn.line)
            fields[n] = (e.expr.name, fn.line)
        g.lenses[sig.name] = sig.mut
        pre_out.append("-- L%d: fn %s(&%sself) -> %s;   %s" % (sig.line, sig.name, "mut " if sig.mut else "", _show_type(sig.ret),
                                                              ", ".join("%s (L%d): &%sself.%s" % (n, fields[n][1], "mut " if sig.mut else "", fields[n][0]) for n in implementors)))
        pre_out.append("def DynSession.%s : DynSession → List UInt8" % sig.name)
        for n in implementors:
            pre_out.append("  | .%s s => s.%s" % (n, fields[n][0]))
        if sig.mut:
            pre_out.append("/-- the content of the view `%s()` after the borrower is done with it -/" % sig.name)
            pre_out.append("def DynSession.%s_put : DynSession → List UInt8 → DynSession" % sig.name)
            for n in implementors:
                pre_out.append("  | .%s s, v => .%s { s with %s := v }" % (n, n, fields[n][0]))
        pre_out.append("")
    sides["session"] = (spath, sdig, "`trait Session` (%d methods), `session_impl!` structs and `impl Session for` %s"
                        % (len(sp.traits[0].sigs), ", ".join(implementors)))

    # ---- which functions reach the random source
    all_fns = []   # (type, fn, origin, in_main)
    spath_c, sdig_c, sp_c, _, _ = loaded["chunk"]
    if sp_c.unit_structs != ["PlainSizeParser"] or len(sp_c.impls) != 1:
        raise Unsupported("`struct PlainSizeParser;` with one inherent `impl` not found in %s" % os.path.basename(spath_c), 1)
    for fn in sp_c.impls[0].fns:
        if fn.recv is not None:
            raise Unsupported("method `PlainSizeParser::%s` with a receiver" % fn.name, fn.line)
        all_fns.append(("PlainSizeParser", fn, "chunk.rs", False))
    for im in p.impls:
        for fn in im.fns:
            all_fns.append((im.ty, fn, "impl %s" % im.ty, True))
    seen = set()
    for ty, fn, _, _ in all_fns:
        if (ty, fn.name) in seen:
            raise Unsupported("two functions `%s::%s`" % (ty, fn.name), fn.line)
        seen.add((ty, fn.name))
    calls = {(ty, fn.name): called_names(fn) for ty, fn, _, _ in all_fns}
    rng = set(k for k, (ms, ps) in calls.items() if ("dice", "fill_bytes") in ps)
    changed = True
    while changed:
        changed = False
        rn = set(n for _, n in rng)
        for k, (ms, ps) in calls.items():
            if k not in rng and (ms & rn or set(b for _, b in ps) & rn):
                rng.add(k)
                changed = True
    g.rng_fns = set(n for _, n in rng)
    amb = [k for k in calls if k[1] in g.rng_fns and k not in rng]
    if amb:
        raise Unsupported("function name `%s` is shared by a function that reaches `dice::fill_bytes` and one that does not" % amb[0][1], 1)

    # ---- types of the source, in dependency order
    main_out = []
    g.out = main_out
    g.in_main = True
    decls = {}
    for en in p.enums:
        decls[en.name] = ("enum", en)
    for st in p.structs:
        decls[st.name] = ("struct", st)

    def type_deps(n):
        kind, d = decls[n]
        if kind == "enum":
            return [x for v in d.variants for f in v.fields for x in type_names_in(f)]
        return [x for f in d.fields for x in type_names_in(f.ty)]
    for n in topo(list(decls), type_deps):
        kind, d = decls[n]
        if kind == "enum":
            g.register_enum_x(d, p.enum_attrs.get(n, []))
        else:
            g.register_struct_x(d)
    g.in_main = False

    # ---- functions: types in dependency order (fields and `T::f(..)` calls), inside a type callee before caller
    g.out = pre_out
    pre_out.append("/-! ### `PlainSizeParser` (codec/chunk.rs) -/")
    KNOWN.add("PlainSizeParser")
    g.enums["PlainSizeParser"] = [("PlainSizeParser", [])]
    by_type = {}
    for ty, fn, origin, in_main in all_fns:
        by_type.setdefault(ty, []).append((fn, origin, in_main))

    def fn_type_deps(ty):
        deps = list(type_deps(ty)) if ty in decls else []
        for fn, _, _ in by_type.get(ty, []):
            for a, _b in calls[(ty, fn.name)][1]:
                deps.append(ty if a == "Self" else a)
        return deps
    type_order = topo(list(by_type), fn_type_deps)
    for ty in type_order:
        fns = by_type[ty]
        names = {fn.name for fn, _, _ in fns}

        def callees(name, ty=ty, fns=fns, names=names):
            fn = [f_ for f_, _, _ in fns if f_.name == name][0]
            found = set()

            def walk(n):
                if isinstance(n, list):
                    for x in n:
                        walk(x)
                elif isinstance(n, Node):
                    if n.kind == "mcall" and n.name in names and n.base.kind == "var" and n.base.name == "self":
                        found.add(n.name)
                    if n.kind == "call" and len(n.segs) == 2 and n.segs[0] in ("Self", ty) and n.segs[1] in names:
                        found.add(n.segs[1])
                    for key, val in n.__dict__.items():
                        if key not in ("kind", "line") and isinstance(val, (Node, list)):
                            walk(val)
            walk(fn.body)
            return sorted(found)
        order = topo([fn.name for fn, _, _ in fns], callees)
        g.out = pre_out if ty == "PlainSizeParser" else main_out
        if ty != "PlainSizeParser":
            main_out.append("/-! ### methods of `%s` -/" % ty)
        for name in order:
            fn, origin, in_main = [x for x in fns if x[0].name == name][0]
            g.gen_method(fn, ty, ty, "%s.%s" % (ty, fn_lean_name(fn.name)), in_main, origin)
    sides["chunk"] = (spath_c, sdig_c, "`struct PlainSizeParser;`, %d fn(s) of `impl PlainSizeParser`" % len(sp_c.impls[0].fns))

    out = []
    out.extend(header(path, digest, p, sides, g, skipped_extra))
    out.append("import Octo.Gen.AddrGen")
    out.append("import Octo.Gen.NonceGen")
    out.append("set_option linter.unusedVariables false")
    out.append("namespace Octo.VmessBodyGen")
    out.append("open Octo.PWGen Octo.AddrGen")
    out.extend(pre_out)
    out.extend(main_out)
    out.append("end Octo.VmessBodyGen")
    return "\n".join(out) + "\n"


def main(argv):
    if len(argv) != 3:
        sys.stderr.write("usage: translate_vmessbody.py <path/to/octo-squirrel/src/codec/vmess/aead.rs> <out.lean>\n")
        return 2
    try:
        text = translate(argv[1], argv[2])
    except Unsupported as u:
        sys.stderr.write("translate_vmessbody: unsupported: %s at line %d\n" % (u.what, u.line))
        return 3
    except OSError as e:
        sys.stderr.write("translate_vmessbody: %s\n" % e)
        return 2
    try:
        with open(argv[2], "w", encoding="utf-8") as f:
            f.write(text)
    except OSError as e:
        sys.stderr.write("translate_vmessbody: %s\n" % e)
        return 2
    return 0


if __name__ == "__main__":
    sys.exit(main(sys.argv))
