#!/usr/bin/env python3
"""Rust-subset -> Lean 4 translator for the Shadowsocks stream codec `octo-squirrel/src/codec/shadowsocks/tcp.rs`.

usage:  translate_sstcp.py <path/to/octo-squirrel/src/codec/shadowsocks/tcp.rs> <out.lean>

Translated from the argument (located by name): the structs `Context`, `AEADCipherCodec`, `Session`, `Identity`, the
methods `Context::{check_nonce, set_nonce}` and `AEADCipherCodec::{decode, init_payload_decoder,
init_aead_2022_payload_decoder, encode, init_payload_encoder, handle_payload_header, with_identity}`.  Everything else
(`Context::new`, `Session::new`, `impl Default for Identity`, tests, `use` items) is skipped by balanced-bracket matching
and listed in the generated header.

Further source files are read; they are found relative to the argument (`<src>` = two directories above the argument's
directory) or - for copies kept in one directory - under the flat name given second:

  mode     <src>/protocol/shadowsocks.rs          | protocol_shadowsocks.rs   `enum Mode`, `impl Mode` (translated)
  kind     <src>/codec/aead.rs                    | codec_aead.rs             `enum CipherKind`, `is_aead_2022`, `support_eih` (translated);
                                                                              signature of `tag_size` (assumed external: macro body)
  ts       <src>/codec/shadowsocks/aead_2022.rs   | aead_2022.rs              `const SERVER_STREAM_TIMESTAMP_MAX_DIFF`, `fn validate_timestamp`
                                                                              (translated); signatures of `now`, `new_decoder`, `new_encoder`,
                                                                              `next_padding_length`
  eih      <src>/codec/shadowsocks/aead_2022/tcp.rs | aead_2022_tcp.rs        signatures of `new_header`, `new_decoder_with_eih`, `with_eih`
  legacy   <src>/codec/shadowsocks/aead.rs        | ss_aead.rs                signatures of `new_decoder`, `new_encoder`
  chunk    <src>/codec/shadowsocks.rs             | codec_shadowsocks.rs      `struct ChunkDecoder`, `struct ChunkEncoder`, `enum DecodeState`;
                                                                              signatures of `Authenticator::open`, `decode_payload`, `encode_payload`
  user     <src>/manager/shadowsocks.rs           | manager_shadowsocks.rs    `struct ServerUser`; signature of `user_count`
  address  <src>/protocol/address.rs              | address_type.rs           `enum Address` (declared in Octo.AddrGen)
  codec    <src>/protocol/socks5/address.rs       | socks5_address.rs         signatures of `encode`, `decode` (bodies: Octo/Gen/AddrGen.lean)
  util     <src>/util.rs                          | util.rs                   signature of `dice::roll_bytes`

Functions that are not translated (cryptography, random numbers, the clock, the LRU cache, the user table, the chunk layer
of `codec/shadowsocks.rs`) are fields of the record `Ext` that every generated function takes (`X`); the types behind them
(`Authenticator`, `ServerUserManager`, `LruCache`) are fields of `ExtTypes` (`T`).  Their Rust signatures are compared token
for token with the ones the translator knows; a change is exit 3.

Reuses the tokenizer of translate_nonce.py and the parser / type checker / emitter of translate_addr.py and
translate_trojan.py; extended here by: const generics (`<const N: usize>`: `N` is a parameter, `[u8; N]` a byte list),
generic struct / impl headers, cfg-duplicated struct fields of one type, `mut` parameter bindings, nested field places
(read, assigned, passed as `&mut`, as receivers), `Option` methods (`as_ref`, `as_mut`, `unwrap`, `is_some`, `is_none`,
`is_some_and(|m| e)`, `map(|a| &a[..])`), `map_err`, `matches!`, `if let`, `let (a, b) = ..`, `[0; N]`, `Some(ref mut x)`
(an alias written back after every change), bool / Option / tuple patterns, `std::io::Cursor` over `&mut BytesMut`,
`Mutex::lock` (one atomic step, poisoning ignored as the source does), logging macros (arguments evaluated only when
`X.trace_enabled`), `bail!` with format arguments that can overflow (evaluated), recursion through `self.decode(..)` /
`self.encode(..)` (emitted as well-founded recursion; Lean checks the measure the translator proposes).

Exit status: 0 a Lean module was written | 2 usage / IO error | 3 a construct outside the supported subset inside a
target item (or a target item / source file / external signature is missing or changed); one line on stderr; nothing is
written (never a guess).
"""
import hashlib
import os
import re
import sys

sys.path.insert(0, os.path.dirname(os.path.abspath(__file__)))
import translate_pw as pw  # noqa: E402
import translate_nonce as tn  # noqa: E402
import translate_addr as ta  # noqa: E402
import translate_trojan as tt  # noqa: E402
from translate_pw import Unsupported, Node  # noqa: E402
from translate_addr import INTS, ARITH_INTS, BITS, LEAN_INT, PREFIX, ARITH_PREFIX, is_bytes, Var  # noqa: E402

MAIN_TARGETS = {
    "Context": ("check_nonce", "set_nonce"),
    "AEADCipherCodec": ("encode", "init_payload_encoder", "handle_payload_header", "decode", "init_payload_decoder",
                        "init_aead_2022_payload_decoder", "with_identity"),
}
MAIN_STRUCTS = ("Context", "AEADCipherCodec", "Session", "Identity")
OPAQUE = ("Authenticator", "ServerUserManager", "LruCache")     # fields of ExtTypes
LOG_MACROS = ("trace", "debug", "info", "warn", "error")

USE_SUFFIX = {
    "address": ["protocol", "socks5", "address"],
    "aead_2022": ["super", "aead_2022"],
    "dice": ["util", "dice"],
    "Mode": ["protocol", "shadowsocks", "Mode"],
    "CipherKind": ["codec", "aead", "CipherKind"],
    "ServerUser": ["manager", "shadowsocks", "ServerUser"],
    "ServerUserManager": ["manager", "shadowsocks", "ServerUserManager"],
    "ChunkDecoder": ["super", "ChunkDecoder"],
    "ChunkEncoder": ["super", "ChunkEncoder"],
    "Address": ["protocol", "address", "Address"],
    "BytesMut": ["bytes", "BytesMut"],
    "Cursor": ["io", "Cursor"],
    "Mutex": ["sync", "Mutex"],
    "Arc": ["sync", "Arc"],
    "LruCache": ["lru_time_cache", "LruCache"],
    "bail": ["anyhow", "bail"],
    "anyhow": ["anyhow", "anyhow"],
    "trace": ["log", "trace"],
    "Base64": ["base64ct", "Base64"],
    "ByteStr": ["byte_string", "ByteStr"],
}

# --------------------------------------------------------------------------------------------
# assumed externals: what the translator knows about the functions it does not translate
#   key: path suffix of a call / (receiver type, method) -> ExtFn
# --------------------------------------------------------------------------------------------


class ExtFn:
    def __init__(self, field, recv, params, ret, role, owner, sig, doc, use=None):
        self.field = field      # field of `Ext`
        self.recv = recv        # None | (type, "ref" | "mut")
        self.params = params    # [(type, is `&mut`)]
        self.ret = ret
        self.role = role        # side file that holds the Rust signature
        self.owner = owner      # None (free fn) | impl type | ("mod", name)
        self.sig = sig          # the signature, tokens separated by one blank
        self.doc = doc
        self.use = use          # name whose `use` binding is checked at a call


EXT_FNS = {
    ("aead_2022", "new_decoder"): ExtFn(
        "aead_2022_new_decoder", None, [("CipherKind", False), ("bytes", False), ("bytes", False)], "ChunkDecoder", "ts", None,
        "fn new_decoder ( kind : CipherKind , key : & [ u8 ] , salt : & [ u8 ] ) -> ChunkDecoder",
        "`aead_2022::new_decoder(kind, key, salt)` (BLAKE3 session subkey, fresh authenticator)", "aead_2022"),
    ("aead_2022", "new_encoder"): ExtFn(
        "aead_2022_new_encoder", None, [("CipherKind", False), ("bytes", False), ("bytes", False)], "ChunkEncoder", "ts", None,
        "fn new_encoder ( kind : CipherKind , key : & [ u8 ] , salt : & [ u8 ] ) -> ChunkEncoder",
        "`aead_2022::new_encoder(kind, key, salt)`", "aead_2022"),
    ("aead_2022", "next_padding_length"): ExtFn(
        "aead_2022_next_padding_length", None, [("BytesMut", False)], "u16", "ts", None,
        "fn next_padding_length ( msg : & BytesMut ) -> u16",
        "`aead_2022::next_padding_length(msg)` (random when `msg` is empty)", "aead_2022"),
    ("aead_2022", "now"): ExtFn(
        "aead_2022_now", None, [], ("result", "u64"), "ts", None,
        "fn now ( ) -> Result < u64 , SystemTimeError >",
        "`aead_2022::now()`: the clock, whole seconds since the epoch (`Err` when the system time is before it)"),
    ("tcp", "new_header"): ExtFn(
        "aead_2022_tcp_new_header", None, [("Authenticator", True), ("BytesMut", True), ("Mode", False), (("option", "SliceU8"), False)],
        ("result", ("tuple", ("Bytes", "Bytes"))), "eih", None,
        "fn new_header ( auth : & mut Authenticator , msg : & mut BytesMut , stream_type : & Mode , request_salt : Option < & [ u8 ] > ) "
        "-> anyhow :: Result < ( Bytes , Bytes ) >",
        "`aead_2022::tcp::new_header(auth, msg, stream_type, request_salt)`: (sealed fixed header, sealed variable header); "
        "takes at most 0xffff bytes off `msg`, reads the clock", "aead_2022"),
    ("tcp", "new_decoder_with_eih"): ExtFn(
        "aead_2022_tcp_new_decoder_with_eih", None,
        [("CipherKind", False), ("bytes", False), ("bytes", False), ("bytes", False), ("Identity", True), ("ServerUserManager", False)],
        ("result", "ChunkDecoder"), "eih", None,
        "fn new_decoder_with_eih < const N : usize > ( kind : CipherKind , key : & [ u8 ] , salt : & [ u8 ] , eih : & [ u8 ] , "
        "identity : & mut Identity < N > , user_manager : & ServerUserManager < N > , ) -> Result < ChunkDecoder , anyhow :: Error >",
        "`aead_2022::tcp::new_decoder_with_eih(kind, key, salt, eih, identity, user_manager)`: decrypts the identity header, looks the "
        "user up, sets `identity.user`", "aead_2022"),
    ("tcp", "with_eih"): ExtFn(
        "aead_2022_tcp_with_eih", None,
        [("CipherKind", False), ("bytes", False), ("ListArr", False), ("bytes", False), ("BytesMut", True)], "unit", "eih", None,
        "fn with_eih < const N : usize > ( kind : & CipherKind , key : & [ u8 ] , identity_keys : & [ [ u8 ; N ] ] , salt : & [ u8 ] , "
        "dst : & mut BytesMut )",
        "`aead_2022::tcp::with_eih(kind, key, identity_keys, salt, dst)`: appends the identity headers", "aead_2022"),
    ("aead", "new_decoder"): ExtFn(
        "aead_new_decoder", None, [("CipherKind", False), ("bytes", False), ("bytes", False)], ("result", "ChunkDecoder"), "legacy", None,
        "fn new_decoder ( kind : CipherKind , key : & [ u8 ] , salt : & [ u8 ] ) -> Result < ChunkDecoder , InvalidLength >",
        "`super::aead::new_decoder(kind, key, salt)` (HKDF-SHA1 subkey)"),
    ("aead", "new_encoder"): ExtFn(
        "aead_new_encoder", None, [("CipherKind", False), ("bytes", False), ("bytes", False)], ("result", "ChunkEncoder"), "legacy", None,
        "fn new_encoder ( kind : CipherKind , key : & [ u8 ] , salt : & [ u8 ] ) -> Result < ChunkEncoder , InvalidLength >",
        "`super::aead::new_encoder(kind, key, salt)`"),
    ("dice", "roll_bytes"): ExtFn(
        "dice_roll_bytes", None, [("usize", False)], "VecU8", "util", ("mod", "dice"),
        "fn roll_bytes ( len : usize ) -> Vec < u8 >",
        "`dice::roll_bytes(len)`: `len` random bytes", "dice"),
    ("Authenticator", "open"): ExtFn(
        "Authenticator_open", ("Authenticator", "mut"), [("BytesMut", True)], ("result", "unit"), "chunk", "Authenticator",
        "fn open ( & mut self , ciphertext : & mut dyn Buffer ) -> Result < ( ) , aes_gcm :: aead :: Error >",
        "`Authenticator::open(&mut self, buf)`: AEAD open in place under the next nonce"),
    ("ChunkDecoder", "decode_payload"): ExtFn(
        "ChunkDecoder_decode_payload", ("ChunkDecoder", "mut"), [("BytesMut", True), ("BytesMut", True)], ("result", "unit"), "chunk",
        "ChunkDecoder",
        "fn decode_payload ( & mut self , src : & mut BytesMut , dst : & mut BytesMut ) -> Result < ( ) , aes_gcm :: aead :: Error >",
        "`ChunkDecoder::decode_payload(&mut self, src, dst)`: every complete chunk of `src`, plaintext appended to `dst`"),
    ("ChunkEncoder", "encode_payload"): ExtFn(
        "ChunkEncoder_encode_payload", ("ChunkEncoder", "mut"), [("BytesMut", False), ("BytesMut", True)], ("result", "unit"), "chunk",
        "ChunkEncoder",
        "fn encode_payload ( & mut self , mut src : BytesMut , dst : & mut BytesMut ) -> Result < ( ) , aes_gcm :: aead :: Error >",
        "`ChunkEncoder::encode_payload(&mut self, src, dst)`: `src` in chunks, appended to `dst`"),
    ("ServerUserManager", "user_count"): ExtFn(
        "ServerUserManager_user_count", ("ServerUserManager", "ref"), [], "usize", "user", "ServerUserManager",
        "fn user_count ( & self ) -> usize",
        "`ServerUserManager::user_count(&self)`"),
    ("CipherKind", "tag_size"): ExtFn(
        "CipherKind_tag_size", ("CipherKind", "ref"), [], "usize", "kind", "CipherKind",
        "const fn tag_size ( & self ) -> usize",
        "`CipherKind::tag_size(&self)` (its body is a macro over the cipher crates; panics for `Unknown`)"),
    ("LruCache", "get"): ExtFn(
        "LruCache_get", ("LruCache", "mut"), [("bytes", False)], ("option", "unit"), None, None, None,
        "`lru_time_cache::LruCache::get(&mut self, key)`: drops expired entries, touches the entry found"),
    ("LruCache", "insert"): ExtFn(
        "LruCache_insert", ("LruCache", "mut"), [("bytes", False), ("unit", False)], ("option", "unit"), None, None, None,
        "`lru_time_cache::LruCache::insert(&mut self, key, ())`: the previous value"),
}
EXT_ORDER = [k for k in EXT_FNS]


# --------------------------------------------------------------------------------------------
# types: those of translate_addr / translate_trojan, and
#   ('array', 'N')  [u8; N] for the const generic N     'ListArr'  Vec<[u8; N]> / &[[u8; N]]
#   'IoCursor'      std::io::Cursor<&mut BytesMut>      OPAQUE     fields of ExtTypes
# --------------------------------------------------------------------------------------------

_tt_lean_type = tt.lean_type
_tt_type_str = tt.type_str
_tt_method_sig = tt.method_sig
_tt_show_expr = tt.show_expr
_tt_show_type = tt._show_type
EXT_STRUCTS = set()       # generated structs that mention an opaque type: they take `T`
KNOWN_NAMED = tt.KNOWN_NAMED


def lean_type(t):
    if t in OPAQUE:
        return "T.%s" % t
    if t == "ListArr":
        return "List (List UInt8)"
    if t == "IoCursor":
        return "IoCursor"
    if isinstance(t, str) and t in EXT_STRUCTS:
        return "%s T" % t
    if isinstance(t, tuple) and t[0] == "option":
        return "Option %s" % lean_atom(t[1])
    if isinstance(t, tuple) and t[0] == "tuple":
        return " × ".join(lean_atom(x) for x in t[1])
    if isinstance(t, tuple) and t[0] == "result":
        return "RResult %s" % lean_atom(t[1])
    if isinstance(t, tuple) and t[0] == "array":
        return "List UInt8"
    return _tt_lean_type(t)


def lean_atom(t):
    s = lean_type(t)
    return "(%s)" % s if " " in s else s


def type_str(t):
    if isinstance(t, tuple) and t[0] == "array":
        return "[u8; %s]" % (t[1],)
    if isinstance(t, tuple) and t[0] == "option":
        return "Option<%s>" % type_str(t[1])
    if isinstance(t, tuple) and t[0] == "tuple":
        return "(%s)" % ", ".join(type_str(x) for x in t[1])
    if isinstance(t, tuple) and t[0] == "result":
        return "Result<%s>" % type_str(t[1])
    return _tt_type_str(t)


def method_sig(rty, name):
    if rty in OPAQUE or rty in ("ListArr", "IoCursor", "str"):
        return None
    if rty in ("BytesMut", "Bytes") and name == "copy_to_slice":
        return None
    return _tt_method_sig(rty, name)


def show_type(t):
    if t.kind == "tarray":
        return "[%s; %s]" % (show_type(t.elem), show_expr(t.len))
    if t.kind == "tunit":
        return "()"
    if t.kind == "ttuple":
        return "(%s)" % ", ".join(show_type(x) for x in t.elems)
    if t.kind == "tname":
        s = "::".join(t.segs)
        if t.args:
            s += "<%s>" % ", ".join(show_type(a) for a in t.args)
        return s
    if t.kind == "tref":
        return "&%s%s" % ("mut " if t.mut else "", show_type(t.inner))
    if t.kind == "tslice":
        return "[%s]" % show_type(t.elem)
    return _tt_show_type(t)


def show_pat(p):
    if p.kind == "pbool":
        return "true" if p.value else "false"
    if p.kind == "pbind":
        return {"mut": "ref mut ", "ref": "ref ", None: ""}[getattr(p, "byref", None)] + p.name
    if p.kind == "ptuple":
        return "(%s)" % ", ".join(show_pat(x) for x in p.subs)
    if p.kind == "pwild":
        return "_"
    s = "::".join(p.segs)
    if p.subs:
        s += "(%s)" % ", ".join(show_pat(x) for x in p.subs)
    return s


def show_expr(e):
    k = e.kind
    if k == "closure":
        return "|%s| %s" % (", ".join(e.params), show_expr(e.body))
    if k == "tuple":
        return "(%s)" % ", ".join(show_expr(x) for x in e.elems)
    if k == "repeat":
        return "[%s; %s]" % (show_expr(e.elem), show_expr(e.len))
    if k == "match" and getattr(e, "iflet", False):
        return "if let %s = %s { ... } else { ... }" % (show_pat(e.arms[0].pat), show_expr(e.scrut))
    if k == "field":
        return "%s.%s" % (show_expr(e.base), e.name)
    if k == "call":
        return "%s(%s)" % ("::".join(e.segs), ", ".join(show_expr(a) for a in e.args))
    if k == "macro":
        return "%s!(%s)" % (e.name, ", ".join(show_expr(a) for a in e.args))
    if k == "paren":
        return "(%s)" % show_expr(e.expr)
    if k == "bin":
        return "%s %s %s" % (show_expr(e.l), e.op, show_expr(e.r))
    if k == "cast":
        return "%s as %s" % (show_expr(e.expr), show_type(e.ty))
    if k == "ref":
        return "&%s%s" % ("mut " if e.mut else "", show_expr(e.expr))
    if k == "deref":
        return "*%s" % show_expr(e.expr)
    if k == "not":
        return "!%s" % show_expr(e.expr)
    if k == "try":
        return "%s?" % show_expr(e.expr)
    if k == "mcall":
        return "%s.%s(%s)" % (show_expr(e.base), e.name, ", ".join(show_expr(a) for a in e.args))
    if k == "return":
        return "return%s" % ((" " + show_expr(e.expr)) if e.expr else "")
    if k == "match":
        return "match %s { ... }" % show_expr(e.scrut)
    if k == "if":
        return "if %s { ... }%s" % (show_expr(e.cond), " else { ... }" if e.els else "")
    return _tt_show_expr(e)


for _m in (ta, tt):
    _m.lean_type = lean_type
    _m.lean_atom = lean_atom
    _m.type_str = type_str
    _m.method_sig = method_sig
    _m.show_expr = show_expr
    _m.show_type = show_type
    _m.show_pat = show_pat
tt._show_type = show_type
tt.show_pat_t = show_pat
lean_name = tt.lean_name


# --------------------------------------------------------------------------------------------
# parser
# --------------------------------------------------------------------------------------------

class Parser(tt.Parser):
    """`role`: main | mode | kind | ts | chunk | user | address | sig"""

    def __init__(self, toks, role):
        tt.Parser.__init__(self, toks, role)
        self.sigs = {}          # (owner | None, fn name) -> signature text
        self.iconsts = []       # integer constants
        self.generic = None     # const generic of the item being parsed

    def check_attrs(self, attrs):
        for text, line in attrs:
            head = text.split("(")[0].split("=")[0].strip()
            if head in ("serde", "default") and self.role == "kind":
                continue
            if head not in ta.ALLOWED_ATTRS:
                raise Unsupported("attribute `#[%s]` on a translated item" % text, line)

    # -- generic headers `<const N: usize>` (exactly this form)
    def parse_generics(self):
        if not self.at("<"):
            return None
        line = self.advance().line
        self.expect("const")
        n = self.ident().text
        self.expect(":")
        if self.ident().text != "usize":
            raise Unsupported("const generic that is not a `usize`", line)
        self.expect(">")
        return n

    def gt(self):
        """consume one `>` (splitting `>>`)"""
        t = self.tok
        if t.kind == "punct" and t.text in (">>", ">>=", ">="):
            t.text = t.text[1:]
            return
        self.expect(">")

    def wanted_enum(self, name, depth):
        return {"mode": name == "Mode" and depth == 0, "kind": name == "CipherKind" and depth == 0,
                "chunk": name == "DecodeState" and depth == 0, "address": name == "Address"}.get(self.role, False)

    def wanted_struct(self, name):
        return {"main": name in MAIN_STRUCTS, "chunk": name in ("ChunkDecoder", "ChunkEncoder"),
                "user": name == "ServerUser"}.get(self.role, False)

    def wanted_impl(self, trait, targs, ty):
        if trait is not None:
            return False
        return {"main": ty in MAIN_TARGETS, "mode": ty == "Mode", "kind": ty == "CipherKind"}.get(self.role, False)

    def wanted_fn(self, ty, name):
        if self.role == "main":
            return name in MAIN_TARGETS.get(ty, ())
        if self.role == "kind":
            return name in ("is_aead_2022", "support_eih")
        return True

    def record_sig(self, owner):
        """at `[const] fn`: remember the tokens of the signature up to the body"""
        k = self.pos
        parts = []
        depth = 0
        while self.toks[k].kind != "eof":
            t = self.toks[k]
            if t.kind == "punct" and t.text in ("(", "["):
                depth += 1
            elif t.kind == "punct" and t.text in (")", "]"):
                depth -= 1
            elif t.kind == "punct" and (t.text == "{" or (t.text == ";" and depth == 0)):
                break
            parts.append(t.text)
            k += 1
        name = parts[parts.index("fn") + 1]
        self.sigs[(owner, name)] = " ".join(parts)

    def parse_items(self, depth, stop, modname=None):
        while not (self.tok.kind == "eof" or (stop == "}" and self.at("}"))):
            if self.at(";"):
                self.advance()
                continue
            first = self.tok
            attrs = self.parse_attrs()
            self.parse_vis()
            t = self.tok
            nxt = self.peek()
            gated = any(re.sub(r"\s+", "", text).startswith(("cfg(", "test")) for text, _ in attrs)
            kw = t.text
            name = nxt.text if nxt.kind == "ident" else ""
            if gated:
                end = self.skip_item()
                if self.role == "main":
                    self.note_skip("cfg/test-gated %s %s" % (kw, name), first.line, end)
                continue
            if self.at("use"):
                if depth == 0:
                    self.parse_use()
                else:
                    self.skip_item()
                continue
            if self.at("mod") and self.peek(2).text == "{":
                if self.role == "util" and name == "dice":
                    self.advance()
                    self.advance()
                    self.expect("{")
                    self.parse_items(depth + 1, "}", "dice")
                    self.expect("}")
                    continue
                end = self.skip_item()
                if self.role == "main":
                    self.note_skip("mod %s" % name, first.line, end)
                continue
            if self.at("enum") and self.wanted_enum(name, depth):
                self.check_attrs(attrs)
                self.enums.append(self.parse_enum())
                continue
            if self.at("struct") and self.wanted_struct(name):
                self.check_attrs(attrs)
                self.structs.append(self.parse_struct())
                continue
            if self.at("const") and self.peek().text != "fn" and self.role == "ts" and name == "SERVER_STREAM_TIMESTAMP_MAX_DIFF":
                self.check_attrs(attrs)
                self.iconsts.append(self.parse_const())
                continue
            if self.at("fn") or (self.at("const") and self.peek().text == "fn"):
                fname = self.peek(2).text if self.at("const") else name
                self.record_sig(("mod", modname) if modname else None)
                if self.role == "ts" and fname == "validate_timestamp" and depth == 0:
                    self.check_attrs(attrs)
                    self.accept("const")
                    self.fns.append(self.parse_fn())
                    continue
                end = self.skip_item()
                if self.role == "main":
                    self.note_skip("fn %s" % fname, first.line, end)
                continue
            if t.kind == "ident" and kw in ("struct", "enum", "union", "trait", "type", "mod", "static") \
                    and name in tt.LIB_NAMES and self.role == "main":
                raise Unsupported("`%s %s`: a local definition of a name the translator reads as a library name" % (kw, name), t.line)
            if self.at("impl"):
                hdr = self.impl_header()
                if hdr is not None:
                    if self.wanted_impl(*hdr[:3]):
                        self.check_attrs(attrs)
                        self.impls.append(self.parse_impl(hdr))
                        continue
                    if hdr[0] is None:
                        self.scan_impl_sigs(hdr)
                        continue
                end = self.skip_item()
                if self.role == "main":
                    self.note_skip("impl block `%s`" % self.header_text(first), first.line, end)
                continue
            if self.at("macro_rules") and nxt.text == "!":
                name = self.peek(2).text
            end = self.skip_item()
            if self.role == "main":
                what = "%s %s" % (kw, name) if name else "item starting with `%s`" % kw
                self.note_skip(what, first.line, end)

    def impl_header(self):
        """(trait | None, trait args, self type name, index of `{`, const generic) of `impl[<const N: usize>] [Trait for] Type[<N>] {`"""
        k = self.pos + 1
        toks = self.toks
        gen = None
        if toks[k].text == "<":
            if [x.text for x in toks[k:k + 6]][:2] != ["<", "const"] or toks[k + 3].text != ":" or toks[k + 4].text != "usize" \
                    or toks[k + 5].text != ">":
                return None
            gen = toks[k + 2].text
            k += 6

        def path(k):
            segs = []
            while toks[k].kind == "ident":
                segs.append(toks[k].text)
                k += 1
                if toks[k].text == "::":
                    k += 1
                else:
                    break
            if segs and toks[k].text == "<":      # `<N>` / `<32>`
                if toks[k + 2].text != ">":
                    return [], k
                k += 3
            return segs, k
        segs, k = path(k)
        if not segs:
            return None
        if toks[k].text == "for":
            ty, k = path(k + 1)
            if not ty or toks[k].text != "{":
                return None
            return segs[-1], [], ty[-1], k, gen
        if toks[k].text != "{":
            return None
        return None, [], segs[-1], k, gen

    def scan_impl_sigs(self, hdr):
        """an inherent impl that is not translated: only the signatures of its fns are read"""
        ty, brace = hdr[2], hdr[3]
        first = self.tok
        self.pos = brace
        self.expect("{")
        while not self.at("}"):
            if self.tok.kind == "eof":
                raise Unsupported("unterminated impl", first.line)
            self.parse_attrs()
            self.parse_vis()
            if self.at("fn") or (self.at("const") and self.peek().text == "fn"):
                self.record_sig(ty)
            self.skip_item()
        end = self.expect("}").line
        if self.role == "main":
            self.note_skip("impl block `impl %s` (no target method)" % ty, first.line, end)

    def parse_impl(self, hdr):
        trait, targs, ty, brace, gen = hdr
        line = self.tok.line
        self.pos = brace
        self.expect("{")
        self.generic = gen
        types, fns = {}, []
        while not self.at("}"):
            first = self.tok
            attrs = self.parse_attrs()
            self.parse_vis()
            if self.at("fn") or (self.at("const") and self.peek().text == "fn"):
                fname = self.peek(2).text if self.at("const") else self.peek().text
                self.record_sig(ty)
                if self.wanted_fn(ty, fname):
                    self.check_attrs(attrs)
                    self.accept("const")
                    fn = self.parse_fn()
                    fn.generic = gen
                    fns.append(fn)
                else:
                    end = self.skip_item()
                    if self.role == "main":
                        self.note_skip("fn %s::%s" % (ty, fname), first.line, end)
            else:
                raise Unsupported("`%s` item in `impl %s`" % (self.tok.text, ty), self.tok.line)
        self.expect("}")
        self.generic = None
        return Node("impl", line, trait=trait, targs=targs, ty=ty, types=types, fns=fns, generic=gen)

    def parse_struct(self):
        line = self.expect("struct").line
        name = self.ident().text
        gen = self.parse_generics()
        if not self.at("{"):
            raise Unsupported("tuple/unit struct `%s`" % name, line)
        self.advance()
        fields = []
        while not self.at("}"):
            attrs = self.parse_attrs()
            cfg = [a for a in attrs if re.sub(r"\s+", "", a[0]).startswith("cfg(")]
            self.check_attrs([a for a in attrs if a not in cfg])
            self.parse_vis()
            fl = self.tok.line
            fname = self.ident().text
            self.expect(":")
            start = self.pos
            fty = self.parse_type()
            text = " ".join(x.text for x in self.toks[start:self.pos])
            fields.append(Node("fielddef", fl, name=fname, ty=fty, cfg=bool(cfg), text=text))
            if not self.accept(","):
                break
        self.expect("}")
        # a field declared twice under complementary cfg attributes (visibility differs): one field, if the types agree
        merged = []
        for f in fields:
            prev = next((g for g in merged if g.name == f.name), None)
            if prev is not None:
                if not (prev.cfg and f.cfg and prev.text == f.text):
                    raise Unsupported("duplicate field `%s`" % f.name, f.line)
                continue
            merged.append(f)
        for f in merged:
            if f.cfg and sum(1 for g in fields if g.name == f.name) != 2:
                raise Unsupported("cfg-gated field `%s`" % f.name, f.line)
        return Node("struct", line, name=name, fields=merged, generic=gen)

    def parse_enum(self):
        if self.peek(2).text == "<":
            raise Unsupported("generic enum", self.tok.line)
        return tt.Parser.parse_enum(self)

    # -- types
    def parse_type(self):
        t = self.tok
        if self.at("dyn"):
            raise Unsupported("trait-object type", t.line)
        if self.at("&") or self.at("&&") or self.at("[") or self.at("(") or self.at("Self") or self.at("*"):
            return tt.Parser.parse_type(self)
        name = self.tok
        if name.kind != "ident" or name.text in pw.RUST_KEYWORDS:
            raise Unsupported("type starting with `%s`" % name.text, name.line)
        self.advance()
        segs = [name.text]
        while self.at("::"):
            self.advance()
            segs.append(self.ident().text)
        args = []
        if self.at("<"):
            self.advance()
            while not (self.at(">") or self.at(">>") or self.at(">>=") or self.at(">=")):
                if self.tok.kind == "int":
                    raise Unsupported("integer generic argument", self.tok.line)
                args.append(self.parse_type())
                if not self.accept(","):
                    break
            self.gt()
        return Node("tname", t.line, name=segs[-1], segs=segs, args=args)

    def parse_fn(self):
        line = self.expect("fn").line
        name = self.ident().text
        if self.at("<"):
            raise Unsupported("generic fn", line)
        self.expect("(")
        params = []
        recv = None
        first = True
        while not self.at(")"):
            if first and (self.at("&") or self.at("self")):
                if self.accept("&"):
                    if self.tok.kind == "lifetime":
                        self.advance()
                    recv = "mut" if self.accept("mut") else "ref"
                    self.expect("self")
                else:
                    raise Unsupported("receiver `self` by value", self.tok.line)
                first = False
                if not self.accept(","):
                    break
                continue
            first = False
            bymut = bool(self.accept("mut"))
            pl = self.tok.line
            pname = self.ident().text
            self.expect(":")
            pty = self.parse_type()
            if bymut and pty.kind == "tref":
                raise Unsupported("`mut` binding of a reference parameter", pl)
            params.append(Node("param", pl, name=pname, ty=pty, bymut=bymut))
            if not self.accept(","):
                break
        self.expect(")")
        ret = Node("tunit", line)
        if self.accept("->"):
            ret = self.parse_type()
        if self.at("where"):
            raise Unsupported("where clause", self.tok.line)
        body = self.parse_block()
        return Node("fn", line, name=name, params=params, ret=ret, body=body, recv=recv, generic=None)

    # -- statements
    def parse_let(self):
        if self.peek().text == "(":
            line = self.expect("let").line
            pat = self.parse_pattern()
            if pat.kind != "ptuple" or any(s.kind not in ("pbind", "pwild") or getattr(s, "byref", None) for s in pat.subs):
                raise Unsupported("pattern in `let` (only a tuple of names)", line)
            self.expect("=")
            e = self.parse_expr()
            if self.at("else"):
                raise Unsupported("let-else", line)
            self.expect(";")
            return Node("lettuple", line, pat=pat, expr=e)
        return tt.Parser.parse_let(self)

    def parse_if(self):
        if self.peek().text != "let":
            return tt.Parser.parse_if(self)
        line = self.expect("if").line
        self.expect("let")
        pat = self.parse_pattern()
        self.expect("=")
        scrut = self.parse_expr(no_struct=True)
        then = self.parse_block()
        els = None
        if self.accept("else"):
            if self.at("if"):
                raise Unsupported("`else if` after `if let`", line)
            els = self.parse_block()
        else:
            els = Node("block", line, stmts=[], tail=None, unsafe=False)
        arms = [Node("arm", line, pat=pat, guard=None, body=then), Node("arm", els.line, pat=Node("pwild", els.line), guard=None, body=els)]
        return Node("match", line, scrut=scrut, arms=arms, iflet=True)

    # -- patterns
    def parse_pattern(self):
        t = self.tok
        if t.kind == "ident" and t.text in ("true", "false"):
            self.advance()
            return Node("pbool", t.line, value=(t.text == "true"))
        if t.kind == "ident" and t.text == "ref":
            self.advance()
            byref = "mut" if self.accept("mut") else "ref"
            n = self.ident().text
            return Node("pbind", t.line, name=n, byref=byref)
        return tt.Parser.parse_pattern(self)

    # -- expressions
    def parse_primary(self, ns):
        t = self.tok
        if self.at("|"):
            self.advance()
            params = []
            while not self.at("|"):
                if self.tok.kind != "ident" or self.tok.text in pw.RUST_KEYWORDS:
                    raise Unsupported("closure parameter pattern", t.line)
                params.append(self.advance().text)
                if self.at(":"):
                    raise Unsupported("typed closure parameter", t.line)
                if not self.accept(","):
                    break
            self.expect("|")
            if self.at("{") or self.at("->"):
                raise Unsupported("closure with a block body", t.line)
            body = self.parse_expr()
            return Node("closure", t.line, params=params, body=body)
        if self.at("("):
            self.advance()
            if self.at(")"):
                self.advance()
                return Node("unitval", t.line)
            e = self.parse_expr()
            if self.at(","):
                elems = [e]
                while self.accept(","):
                    if self.at(")"):
                        break
                    elems.append(self.parse_expr())
                self.expect(")")
                return Node("tuple", t.line, elems=elems)
            self.expect(")")
            return Node("paren", t.line, expr=e)
        if self.at("["):
            self.advance()
            elems = []
            while not self.at("]"):
                elems.append(self.parse_expr())
                if self.at(";"):
                    if len(elems) != 1:
                        raise Unsupported("array expression", t.line)
                    self.advance()
                    n = self.parse_expr()
                    self.expect("]")
                    return Node("repeat", t.line, elem=elems[0], len=n)
                if not self.accept(","):
                    break
            self.expect("]")
            return Node("array", t.line, elems=elems)
        if t.kind == "ident" and t.text == "super":
            self.advance()
            segs = ["super"]
            while self.at("::"):
                self.advance()
                segs.append(self.ident().text)
            if not self.at("("):
                raise Unsupported("`super::` path that is not a call", t.line)
            return Node("call", t.line, segs=segs, args=self.parse_args())
        return tt.Parser.parse_primary(self, ns)


# --------------------------------------------------------------------------------------------
# type checker + emitter
# --------------------------------------------------------------------------------------------

class AVar(Var):
    """a local variable; `alias` = (root variable, field path, wrapped in `Some`) when it is a `ref mut` binding / a lock guard
    (the place is written back after every change); `same` = name of the variable it is another name of"""
    def __init__(self, name, ty, mut, order, alias=None, same=None, origin=None):
        Var.__init__(self, name, ty, mut, order)
        self.alias = alias
        self.same = same
        self.origin = origin      # IoCursor: the `&mut BytesMut` variable it was made from


class FnSig(tt.FnSig):
    def __init__(self, lean, recv, params, ret, what, prefix=(), interior=False):
        tt.FnSig.__init__(self, lean, recv, params, ret, what)
        self.prefix = list(prefix)    # terms between `ov` and the arguments (`X`, `N`)
        self.interior = interior      # `&self` of a struct with a `Mutex` field: threaded like `&mut self`


class Gen(tt.Gen):
    def __init__(self, all_idents, uses):
        tt.Gen.__init__(self, all_idents, uses)
        self.generics = {}       # struct name -> const generic name | None
        self.interior = set()    # structs with a `Mutex` field
        self.mutex_fields = set()  # (struct, field)
        self.ext_used = []       # keys of EXT_FNS, in order of first use
        self.uses_trace = False
        self.generic = None      # const generic of the fn being translated
        self.in_cycle = False
        self.hcount = 0
        self.X = self.fresh_fixed("X")
        self.T = "T"

    # ------------------------------------------------------------------ `use` bindings
    def require_use(self, name, line):
        self.used_names.add(name)
        want = USE_SUFFIX[name]
        got = self.uses.get(name)
        if name in ("ChunkDecoder", "ChunkEncoder", "aead_2022") and got is not None and got[0] == "super":
            return
        if got is None or got[-len(want):] != want:
            raise Unsupported("`%s` is not imported as `..::%s` (found: %s)" % (name, "::".join(want), "::".join(got) if got else "no `use`"), line)

    # ------------------------------------------------------------------ types
    def resolve_type(self, t):
        k = t.kind
        if k == "tarray":
            e, _ = self.resolve_type(t.elem)
            n = t.len
            while n.kind == "paren":
                n = n.expr
            if e == "u8" and n.kind == "var" and n.name == self.generic and self.generic is not None:
                return ("array", n.name), False
            return tt.Gen.resolve_type(self, t)
        if k == "tslice":
            e, _ = self.resolve_type(t.elem)
            if isinstance(e, tuple) and e[0] == "array" and isinstance(e[1], str):
                return "ListArr", False
            return tt.Gen.resolve_type(self, t)
        if k == "tname":
            name, segs = t.name, t.segs
            if name == "Vec" and len(t.args) == 1:
                e, _ = self.resolve_type(t.args[0])
                if isinstance(e, tuple) and e[0] == "array" and isinstance(e[1], str):
                    return "ListArr", False
            if name == "Arc" and len(t.args) == 1 and len(segs) == 1:
                if self.in_main:
                    self.require_use("Arc", t.line)
                return self.resolve_type(t.args[0])
            if name == "Mutex" and len(t.args) == 1 and len(segs) == 1:
                if self.in_main:
                    self.require_use("Mutex", t.line)
                inner, _ = self.resolve_type(t.args[0])
                if inner != "LruCache":
                    raise Unsupported("`Mutex` of a `%s`" % type_str(inner), t.line)
                return ("mutex", inner), False
            if name == "LruCache" and len(segs) == 1 and len(t.args) == 2:
                if self.in_main:
                    self.require_use("LruCache", t.line)
                kty, _ = self.resolve_type(t.args[0])
                vty, _ = self.resolve_type(t.args[1])
                if not is_bytes(kty) or vty != "unit":
                    raise Unsupported("`%s` (only a cache from byte arrays to `()`)" % show_type(t), t.line)
                return "LruCache", False
            if name == "Cursor" and len(segs) == 1:
                raise Unsupported("`Cursor` in a type position", t.line)
            if name == "Result" and len(t.args) == 2 and segs == ["Result"]:
                inner, _ = self.resolve_type(t.args[0])
                return ("result", inner), False     # the error value is never modelled
            if name in self.structs and len(segs) == 1:
                gen = self.generics.get(name)
                if gen is None and t.args:
                    raise Unsupported("generic arguments on `%s`" % name, t.line)
                if gen is not None:
                    if len(t.args) != 1 or t.args[0].kind != "tname" or t.args[0].args or t.args[0].segs != [self.generic]:
                        raise Unsupported("`%s` (only `%s<%s>` with the const generic in scope)" % (show_type(t), name, self.generic), t.line)
                if self.in_main and name in USE_SUFFIX:
                    self.require_use(name, t.line)
                return name, False
            if name in OPAQUE and len(segs) == 1:
                if name == "ServerUserManager":
                    if len(t.args) != 1:
                        raise Unsupported("`%s`" % show_type(t), t.line)
                    if self.in_main:
                        self.require_use(name, t.line)
                elif t.args:
                    raise Unsupported("`%s`" % show_type(t), t.line)
                return name, False
            if name in ("Mode", "CipherKind") and name in self.enums and len(segs) == 1 and not t.args:
                if self.in_main:
                    self.require_use(name, t.line)
                return name, False
            if name == "Address" and self.in_main and len(segs) == 1 and not t.args:
                self.require_use("Address", t.line)
        return tt.Gen.resolve_type(self, t)

    # ------------------------------------------------------------------ names
    def lookup(self, name, line):
        if name == self.generic and self.generic is not None:
            for scope in reversed(self.scopes):
                if name in scope:
                    break
            else:
                return AVar(name, "usize", False, 0)
        v = tt.Gen.lookup(self, name, line)
        if getattr(v, "same", None):
            return self.lookup(v.same, line)
        return v

    def declare(self, name, ty, mut, line, **kw):
        for scope in self.scopes:
            if name in scope and scope[name].mut:
                raise Unsupported("shadowing of the mutable binding / `&mut` parameter `%s`" % name, line)
        if name in (self.ov, self.X, self.T, "utf8Ok", tt.SELF_NAME[0]) or name == self.generic:
            raise Unsupported("local name `%s` clashes with a generated name" % name, line)
        self.order += 1
        self.scopes[-1][name] = AVar(name, ty, mut, self.order, **kw)

    def vname(self, v):
        return lean_name(v.name)

    # ------------------------------------------------------------------ places: var(.field)*
    def place_of(self, e, what):
        """(variable, [field names], type) of a place expression"""
        e0 = e
        e = self.strip(e)
        fields = []
        while e.kind == "field":
            fields.insert(0, e.name)
            e = self.strip(e.base)
        if e.kind != "var":
            raise Unsupported("%s on `%s` (only on a variable or a field path)" % (what, show_expr(e0)), e0.line)
        v = self.lookup(e.name, e.line)
        ty = v.ty
        for f in fields:
            fty = None
            for g, t in self.structs.get(ty, []) if isinstance(ty, str) else []:
                if g == f:
                    fty = t
            if fty is None:
                raise Unsupported("field `.%s` of a `%s`" % (f, type_str(ty)), e0.line)
            ty = fty
        if not v.mut:
            raise Unsupported("%s on immutable `%s` (rustc would reject)" % (what, v.name), e0.line)
        return v, fields, ty

    def set_path(self, root, fields, val):
        if not fields:
            return val
        inner = self.set_path("%s.%s" % (root, lean_name(fields[0])), fields[1:], val)
        return "{ %s with %s := %s }" % (root, lean_name(fields[0]), inner)

    def write_place(self, v, fields, val, pre):
        """`place = val`, then the write-back of an alias"""
        n = self.vname(v)
        if fields or val != n:
            pre.append("let %s : %s := %s" % (n, lean_type(v.ty), self.set_path(n, fields, val)))
        self.after_rebind(v, pre)

    def after_rebind(self, v, pre):
        if getattr(v, "alias", None):
            root, fields, some = v.alias
            rv = self.lookup(root, 0)
            val = "(some %s)" % self.vname(v) if some else self.vname(v)
            self.write_place(rv, fields, val, pre)

    def place_term(self, v, fields):
        return ".".join([self.vname(v)] + [lean_name(f) for f in fields])

    # ------------------------------------------------------------------ types of expressions
    def try_type(self, e):
        k = e.kind
        if k == "var" and e.name == self.generic and self.generic is not None:
            return self.lookup(e.name, e.line).ty
        if k == "var" and e.name in self.consts and self.consts[e.name][0] is None:
            return self.consts[e.name][1]
        if k == "var":
            try:
                return self.lookup(e.name, e.line).ty
            except Unsupported:
                return None
        if k == "repeat":
            n = e.len
            if n.kind == "var" and n.name == self.generic:
                return ("array", n.name)
            return None
        if k == "tuple":
            ts = [self.try_type(x) for x in e.elems]
            return ("tuple", tuple(ts)) if all(ts) else None
        if k == "closure":
            return None
        if k == "macro" and e.name == "matches":
            return "bool"
        if k == "match" and getattr(e, "iflet", False):
            for a in e.arms:
                t = self.try_type(a.body)
                if t:
                    return t
            return None
        if k == "call":
            segs = e.segs
            if segs == ["BytesMut", "new"] or segs == ["BytesMut", "from"]:
                return "BytesMut"
            if segs == ["Cursor", "new"]:
                return "IoCursor"
            if segs in (["Base64", "encode_string"], ["ByteStr", "new"]):
                return "str"
            x = self.ext_of_call(segs)
            if x:
                return x.ret
        if k == "mcall":
            n = e.name
            if n in ("map_err", "as_ref", "as_mut"):
                return self.try_type(e.base)
            bt = self.try_type(e.base)
            if isinstance(bt, tuple) and bt[0] == "option":
                if n == "unwrap":
                    return bt[1]
                if n in ("is_some", "is_none", "is_some_and"):
                    return "bool"
                if n == "map":
                    return ("option", "SliceU8") if is_bytes(bt[1]) else None
            if bt == "u64" and n == "abs_diff":
                return "u64"
            if bt == "IoCursor":
                return {"remaining": "usize", "position": "u64", "copy_to_bytes": "Bytes", "copy_to_slice": "unit",
                        "into_inner": "BytesMut"}.get(n)
            if bt in ("BytesMut", "Bytes") and n == "copy_to_slice":
                return "unit"
            if isinstance(bt, str) and (bt, n) in EXT_FNS:
                return EXT_FNS[(bt, n)].ret
            if isinstance(bt, str) and (bt, n) in self.fns and self.fns[(bt, n)].recv is not None:
                return self.fns[(bt, n)].ret
        return tt.Gen.try_type(self, e)

    def compatible(self, ty, want):
        if want in ("bytes", "SliceU8"):
            return is_bytes(ty)
        if isinstance(want, tuple) and want[0] == "option" and isinstance(ty, tuple) and ty[0] == "option":
            return self.compatible(ty[1], "bytes" if is_bytes(want[1]) else want[1])
        if want in ("BytesMut", "Bytes") and ty in ("BytesMut", "Bytes"):
            return ty == want
        return ty == want

    # ------------------------------------------------------------------ externals
    def ext_of_call(self, segs):
        if len(segs) >= 2 and (segs[-2], segs[-1]) in EXT_FNS:
            x = EXT_FNS[(segs[-2], segs[-1])]
            if x.recv is None:
                want = {"aead_2022_new_decoder": [["aead_2022", "new_decoder"]], "aead_2022_new_encoder": [["aead_2022", "new_encoder"]],
                        "aead_2022_next_padding_length": [["aead_2022", "next_padding_length"]],
                        "aead_2022_now": [["now"]],
                        "aead_2022_tcp_new_header": [["aead_2022", "tcp", "new_header"]],
                        "aead_2022_tcp_new_decoder_with_eih": [["aead_2022", "tcp", "new_decoder_with_eih"]],
                        "aead_2022_tcp_with_eih": [["aead_2022", "tcp", "with_eih"]],
                        "aead_new_decoder": [["super", "aead", "new_decoder"]], "aead_new_encoder": [["super", "aead", "new_encoder"]],
                        "dice_roll_bytes": [["dice", "roll_bytes"]]}[x.field]
                if list(segs) in want:
                    return x
        if segs == ["now"] and self.allow_now:
            return EXT_FNS[("aead_2022", "now")]
        return None

    allow_now = False

    def use_ext(self, key):
        if key not in self.ext_used:
            self.ext_used.append(key)

    def emit_call(self, fn_term, recv, arg_nodes, params, ret, what, pre, line):
        """a call `fn_term recv? args..` whose result is `Res (mutated places.., value)`:
        recv = None | (place variable, fields, is `&mut`) ; params = [(type, is `&mut`)]"""
        if len(arg_nodes) != len(params):
            raise Unsupported("%s takes %d argument(s), %d given (rustc would reject)" % (what, len(params), len(arg_nodes)), line)
        terms, outs = [], []       # outs: (variable, fields) to write back, in order
        if recv is not None:
            v, fields, rmut = recv
            terms.append(self.place_term(v, fields) if v is not None else fields)
            if rmut:
                outs.append((v, fields))
        for a, (want, mut) in zip(arg_nodes, params):
            if mut:
                v, fields, ty = self.place_of(a, "passing `&mut` to %s" % what)
                if not self.compatible(ty, want):
                    raise Unsupported("argument of %s has type `%s`, expected `%s` (rustc would reject)" % (what, type_str(ty), type_str(want)), a.line)
                if any(o[0].name == v.name for o in outs):
                    raise Unsupported("`%s` borrowed mutably twice (rustc would reject)" % v.name, a.line)
                terms.append(self.place_term(v, fields))
                outs.append((v, fields))
            else:
                ty, t = self.ex(a, None if want in ("bytes", "SliceU8") else want, pre)
                if not self.compatible(ty, want):
                    raise Unsupported("argument of %s has type `%s`, expected `%s` (rustc would reject)" % (what, type_str(ty), type_str(want)), a.line)
                terms.append(t)
        x = self.fresh()
        names, later = [], []
        for v, fields in outs:
            if fields or getattr(v, "alias", None):
                tmp = self.fresh()
                names.append(tmp)
                later.append((v, fields, tmp))
            else:
                names.append(self.vname(v))
        pat = "(%s)" % ", ".join(names + [x]) if names else x
        pre.append("Flow.bind (Flow.call (%s)) fun %s =>" % (" ".join([fn_term] + terms), pat))
        for v, fields, tmp in later:
            self.write_place(v, fields, tmp, pre)
        return ret, x

    def call_ext(self, key, recv, arg_nodes, pre, line):
        x = EXT_FNS[key]
        self.use_ext(key)
        if x.use and self.in_main:
            self.require_use(x.use, line)
        return self.emit_call("%s.%s" % (self.X, x.field), recv, arg_nodes, x.params, x.ret, x.doc.split("`")[1], pre, line)

    def call_fn(self, f, recv_var, arg_nodes, pre, line):
        recv = None
        if f.recv is not None:
            rmut = f.recv == "mut" or f.interior
            if rmut and not recv_var[0].mut:
                raise Unsupported("%s needs a mutable receiver (rustc would reject)" % f.what, line)
            recv = (recv_var[0], recv_var[1], rmut)
        return self.emit_call(" ".join([f.lean, self.ov] + f.prefix), recv, arg_nodes, f.params, f.ret, f.what, pre, line)

    # ------------------------------------------------------------------ expressions
    def ex(self, e, expected, pre):
        k = e.kind
        if k == "var" and e.name == self.generic and self.generic is not None and self.lookup(e.name, e.line).order == 0:
            return "usize", e.name
        if k == "var" and e.name in self.consts and self.consts[e.name][0] is None:
            return self.consts[e.name][1], self.consts[e.name][2]
        if k == "var" and e.name != "None":
            v = self.lookup(e.name, e.line)
            return v.ty, self.vname(v)
        if k == "repeat":
            n = e.len
            if not (n.kind == "var" and n.name == self.generic and self.generic is not None):
                raise Unsupported("array repeat `%s` (only `[x; %s]`)" % (show_expr(e), self.generic), e.line)
            ty, t = self.ex(e.elem, "u8", pre)
            if ty != "u8":
                raise Unsupported("array repeat of a `%s`" % type_str(ty), e.line)
            return ("array", n.name), "(List.replicate %s.toNat %s)" % (n.name, t)
        if k == "tuple":
            want = expected[1] if isinstance(expected, tuple) and expected[0] == "tuple" and len(expected[1]) == len(e.elems) else [None] * len(e.elems)
            tys, ts = [], []
            for x, w in zip(e.elems, want):
                ty, t = self.ex(x, w, pre)
                tys.append(ty)
                ts.append(t)
            return ("tuple", tuple(tys)), "(%s)" % ", ".join(ts)
        if k == "closure":
            raise Unsupported("closure `%s` outside the supported method shapes" % show_expr(e), e.line)
        if k == "macro" and e.name == "matches":
            return self.ex_matches(e, pre)
        if k == "match" and getattr(e, "iflet", False):
            return self.ex_cf(e, expected, pre)
        if k == "field":
            bty, b = self.ex(e.base, None, pre)
            for f, ty in self.structs.get(bty, []) if isinstance(bty, str) else []:
                if f == e.name:
                    if isinstance(ty, tuple) and ty[0] == "mutex":
                        raise Unsupported("use of the `Mutex` field `.%s` other than `.lock()`" % f, e.line)
                    return ty, "%s.%s" % (b, lean_name(f))
            raise Unsupported("field `.%s` of a `%s`" % (e.name, type_str(bty)), e.line)
        return tt.Gen.ex(self, e, expected, pre)

    def unit_variants(self, ty, line):
        if ty not in self.enums or any(f for _, f in self.enums[ty]):
            raise Unsupported("`matches!` on a `%s` (only enums without fields)" % type_str(ty), line)
        return [v for v, _ in self.enums[ty]]

    def ex_matches(self, e, pre):
        if len(e.args) != 2:
            raise Unsupported("`matches!` with %d arguments" % len(e.args), e.line)
        sty, s = self.ex(e.args[0], None, pre)
        variants = self.unit_variants(sty, e.line)
        pats = []

        def flat(p):
            while p.kind == "paren":
                p = p.expr
            if p.kind == "bin" and p.op == "|":
                flat(p.l)
                flat(p.r)
            elif p.kind == "path":
                c = self.ctor_of(p.segs, p.line)
                if c is None or c[0] != sty:
                    raise Unsupported("pattern `%s` for a `%s`" % (show_expr(p), type_str(sty)), p.line)
                pats.append(c[1])
            else:
                raise Unsupported("pattern `%s` in `matches!` (only `A | B` of unit variants)" % show_expr(p), p.line)
        flat(e.args[1])
        if self.in_main and sty in USE_SUFFIX:
            self.require_use(sty, e.line)
        arms = " ".join("| %s.%s => %s" % (sty, lean_name(v), "true" if v in pats else "false") for v in variants)
        return "bool", "(match %s with %s)" % (s, arms)

    def closure1(self, c, what):
        if c.kind != "closure" or len(c.params) != 1:
            raise Unsupported("argument of %s is not a one-parameter closure" % what, c.line)
        return c.params[0], c.body

    def check_err_map(self, f, line):
        """`map_err(f)`: the error value is not modelled, so `f` must be one of the conversions that cannot panic"""
        if f.kind == "path" and f.segs == ["anyhow", "Error", "msg"]:
            return
        if f.kind == "closure" and len(f.params) == 1:
            p, b = f.params[0], f.body
            if b.kind == "macro" and b.name == "anyhow" and len(b.args) == 1 and b.args[0].kind == "var" and b.args[0].name == p:
                return
            if b.kind == "mcall" and b.name == "to_string" and not b.args and b.base.kind == "var" and b.base.name == p:
                return
        raise Unsupported("`map_err(%s)` (only `|e| anyhow!(e)`, `|e| e.to_string()`, `anyhow::Error::msg`)" % show_expr(f), line)

    def ex_call(self, e, expected, pre):
        segs = e.segs
        if segs == ["BytesMut", "new"]:
            if e.args:
                raise Unsupported("`BytesMut::new` with arguments", e.line)
            if self.in_main:
                self.require_use("BytesMut", e.line)
            return "BytesMut", "([] : List UInt8)"
        if segs == ["BytesMut", "from"]:
            (t,) = self.args(e, ["Bytes"], pre, "`BytesMut::from`")
            return "BytesMut", t
        if segs == ["Cursor", "new"]:
            raise Unsupported("`Cursor::new` outside `let mut c = Cursor::new(buf);`", e.line)
        if segs in (["Base64", "encode_string"], ["ByteStr", "new"]):
            if self.in_main:
                self.require_use(segs[0], e.line)
            self.args(e, ["bytes"], pre, "`%s`" % "::".join(segs))
            return "str", "()"
        x = self.ext_of_call(segs)
        if x:
            key = next(k for k in EXT_FNS if EXT_FNS[k] is x)
            return self.call_ext(key, None, e.args, pre, e.line)
        if segs == ["Err"] and len(e.args) == 1 and isinstance(expected, tuple) and expected[0] == "result":
            ty, _ = self.ex(e.args[0], None, pre)
            if ty not in ("anyerr", "str"):
                raise Unsupported("`Err` of a `%s` (only `anyhow!(..)` / `format!(..)`)" % type_str(ty), e.line)
            return expected, "RResult.err"
        if segs == ["Some"] and len(e.args) == 1:
            want = expected[1] if isinstance(expected, tuple) and expected[0] == "option" else None
            ty, t = self.ex(e.args[0], want, pre)
            return ("option", ty), "(some %s)" % t
        return tt.Gen.ex_call(self, e, expected, pre)

    def ex_mcall(self, e, expected, pre):
        n = e.name
        if n == "map_err":
            if len(e.args) != 1:
                raise Unsupported("`map_err` with %d arguments" % len(e.args), e.line)
            self.check_err_map(e.args[0], e.line)
            ty, t = self.ex(e.base, expected, pre)
            if not (isinstance(ty, tuple) and ty[0] == "result"):
                raise Unsupported("`map_err` on a `%s`" % type_str(ty), e.line)
            return ty, t
        if n in ("as_ref", "as_mut") and not e.args:
            ty, t = self.ex(e.base, expected, pre)
            if not (isinstance(ty, tuple) and ty[0] == "option"):
                raise Unsupported("`.%s()` on a `%s`" % (n, type_str(ty)), e.line)
            return ty, t
        bt = self.try_type(e.base)
        if isinstance(bt, tuple) and bt[0] == "option":
            if n == "unwrap" and not e.args:
                _, t = self.ex(e.base, None, pre)
                v = self.fresh()
                pre.append("Flow.bind (Flow.unwrap %s) fun %s =>" % (t, v))
                return bt[1], v
            if n in ("is_some", "is_none") and not e.args:
                _, t = self.ex(e.base, None, pre)
                return "bool", "(Option.%s %s)" % ("isSome" if n == "is_some" else "isNone", t)
            if n == "is_some_and" and len(e.args) == 1:
                p, body = self.closure1(e.args[0], "`is_some_and`")
                _, t = self.ex(e.base, None, pre)
                self.scopes.append({})
                self.declare(p, bt[1], False, e.line)
                bpre = []
                ty, b = self.ex(body, "bool", bpre)
                self.scopes.pop()
                if ty != "bool":
                    raise Unsupported("closure of `is_some_and` returns a `%s` (rustc would reject)" % type_str(ty), e.line)
                if self.outer_mutated([body]):
                    raise Unsupported("closure of `is_some_and` changes a variable", e.line)
                v = self.fresh()
                pre.append("Flow.bind (")
                pre.append("  match %s with" % t)
                pre.append("  | some %s =>" % lean_name(p))
                pre.extend("    " + x for x in bpre)
                pre.append("    Flow.next %s" % b)
                pre.append("  | none => Flow.next false")
                pre.append(") fun %s =>" % v)
                return "bool", v
            if n == "map" and len(e.args) == 1:
                p, body = self.closure1(e.args[0], "`map`")
                b = body
                while b.kind in ("paren", "ref"):
                    b = b.expr
                if not (is_bytes(bt[1]) and b.kind == "index_full" and b.base.kind == "var" and b.base.name == p):
                    raise Unsupported("`map(%s)` (only `|a| &a[..]` on an optional byte array)" % show_expr(e.args[0]), e.line)
                _, t = self.ex(e.base, None, pre)
                return ("option", "SliceU8"), t
            raise Unsupported("method `.%s(..)` on a `%s`" % (n, type_str(bt)), e.line)
        if bt == "u64" and n == "abs_diff" and len(e.args) == 1:
            _, a = self.ex(e.base, "u64", pre)
            (b,) = self.args(e, ["u64"], pre, "`abs_diff`")
            return "u64", "(U64.abs_diff %s %s)" % (a, b)
        if bt == "IoCursor":
            return self.ex_iocursor(e, pre)
        if bt in ("BytesMut", "Bytes") and n == "copy_to_slice":
            v, fields, _ = self.place_of(e.base, "`.copy_to_slice(..)`")
            if fields:
                raise Unsupported("`.copy_to_slice(..)` on a field", e.line)
            return self.copy_to_slice("Flow.copy_to_slice", v, e, pre)
        if isinstance(bt, str) and (bt, n) in EXT_FNS:
            x = EXT_FNS[(bt, n)]
            if x.recv[1] == "mut":
                v, fields, _ = self.place_of(e.base, "`.%s(..)`" % n)
                recv = (v, fields, True)
            else:
                _, t = self.ex(e.base, None, pre)
                recv = (None, t, False)
            return self.call_ext((bt, n), recv, e.args, pre, e.line)
        if isinstance(bt, str) and (bt, n) in self.fns and self.fns[(bt, n)].recv is not None:
            f = self.fns[(bt, n)]
            if f.recv == "mut" or f.interior:
                v, fields, _ = self.place_of(e.base, "`.%s(..)`" % n)
                return self.call_fn(f, (v, fields), e.args, pre, e.line)
            _, t = self.ex(e.base, None, pre)
            return self.emit_call(" ".join([f.lean, self.ov] + f.prefix), (None, t, False), e.args, f.params, f.ret, f.what, pre, e.line)
        return ta.Gen.ex_mcall(self, e, expected, pre)

    def slice_dest(self, a, pre):
        """destination of `copy_to_slice`: `&mut v` (a byte array variable / field path) or `place.as_mut().unwrap()` of an
        optional byte array; returns (current content term, store function)"""
        b = a
        while b.kind in ("paren", "ref"):
            b = b.expr
        if b.kind == "mcall" and b.name == "unwrap" and not b.args and b.base.kind == "mcall" and b.base.name == "as_mut" and not b.base.args:
            v, fields, ty = self.place_of(b.base.base, "`.as_mut()`")
            if not (isinstance(ty, tuple) and ty[0] == "option" and is_bytes(ty[1])):
                raise Unsupported("`as_mut().unwrap()` of a `%s` as a slice" % type_str(ty), a.line)
            cur = self.fresh()
            pre.append("Flow.bind (Flow.unwrap %s) fun %s =>" % (self.place_term(v, fields), cur))
            return cur, lambda val, pre: self.write_place(v, fields, "(some %s)" % val, pre)
        v, fields, ty = self.place_of(b, "`copy_to_slice` into")
        if not (isinstance(ty, tuple) and ty[0] == "array"):
            raise Unsupported("`copy_to_slice` into a `%s`" % type_str(ty), a.line)
        return self.place_term(v, fields), lambda val, pre: self.write_place(v, fields, val, pre)

    def copy_to_slice(self, fn, v, e, pre):
        if len(e.args) != 1:
            raise Unsupported("`copy_to_slice` with %d arguments" % len(e.args), e.line)
        cur, store = self.slice_dest(e.args[0], pre)
        x = self.fresh()
        pre.append("Flow.bind (%s %s (Cursor.len %s)) fun (%s, %s) =>" % (fn, self.vname(v), cur, self.vname(v), x))
        store(x, pre)
        return "unit", "()"

    def ex_iocursor(self, e, pre):
        n = e.name
        b = self.strip(e.base)
        if b.kind != "var":
            raise Unsupported("`.%s(..)` on `%s` (only on a variable)" % (n, show_expr(e.base)), e.line)
        v = self.lookup(b.name, b.line)
        name = self.vname(v)
        if n == "remaining" and not e.args:
            return "usize", "(IoCursor.remaining %s)" % name
        if n == "position" and not e.args:
            return "u64", "(IoCursor.position %s)" % name
        if not v.mut:
            raise Unsupported("`.%s(..)` on immutable `%s` (rustc would reject)" % (n, b.name), e.line)
        if n == "copy_to_bytes":
            (t,) = self.args(e, ["usize"], pre, "`copy_to_bytes`")
            x = self.fresh()
            pre.append("Flow.bind (Flow.io_copy_to_bytes %s %s) fun (%s, %s) =>" % (name, t, name, x))
            return "Bytes", x
        if n == "copy_to_slice":
            return self.copy_to_slice("Flow.io_copy_to_slice", v, e, pre)
        raise Unsupported("method `.%s(..)` on a `Cursor` (outside `let x = c.into_inner();`)" % n, e.line)

    def ex_bin(self, e, expected, pre):
        if e.op in ("==", "!="):
            lt0, rt0 = self.try_type(e.l), self.try_type(e.r)
            for a in (lt0, rt0):
                if isinstance(a, tuple) and a[0] == "option" and is_bytes(a[1]):
                    lt, l = self.ex(e.l, None, pre)
                    rt, r = self.ex(e.r, None, pre)
                    ok = all(isinstance(x, tuple) and x[0] == "option" and is_bytes(x[1]) for x in (lt, rt))
                    if not ok:
                        raise Unsupported("comparison of a `%s` with a `%s`" % (type_str(lt), type_str(rt)), e.line)
                    return "bool", "(%s %s %s)" % (l, e.op, r)
        return tt.Gen.ex_bin(self, e, expected, pre)

    def pure_args(self, e):
        """format arguments: evaluated (they can panic on overflow / `unwrap`), must not change anything; see `fmt_args`"""
        raise AssertionError("pure_args is replaced by fmt_args")

    def fmt_args(self, e, pre):
        if self.outer_mutated(e.args):
            raise Unsupported("argument of `%s!` changes a variable" % e.name, e.line)
        for a in e.args:
            self.ex(a, self.try_type(a), pre)
        if any(p.lstrip().startswith("let ") for p in pre):
            raise Unsupported("argument of `%s!` has an effect" % e.name, e.line)

    def emit_bail(self, e, ind):
        if not (isinstance(self.ret_ty, tuple) and self.ret_ty[0] == "result"):
            raise Unsupported("`bail!` in a function that does not return a `Result` (rustc would reject)", e.line)
        if self.in_main:
            self.require_use("bail", e.line)
        pre = []
        self.fmt_args(e, pre)
        self.emit_pre(ind, pre)
        self.emit(ind, "Flow.ret %s" % self.ret_term("RResult.err"))

    def pure_args(self, e):
        scratch = []
        saved = self.fresh_n
        self.fmt_args(e, scratch)
        self.fresh_n = saved
        if scratch:
            raise Unsupported("an argument of `%s!` can panic or has an effect" % e.name, e.line)

    # ------------------------------------------------------------------ statements
    def outer_mutated(self, nodes):
        found, declared = [], set()

        def add(e):
            b = self.strip(e)
            while b.kind in ("index", "field", "index_full") or (b.kind == "mcall" and b.name in ("as_mut", "unwrap", "as_ref")):
                b = self.strip(b.base)
            if b.kind == "var" and b.name not in found:
                found.append(b.name)

        def sig_of(n):
            if n.kind == "mcall":
                for key, f in self.fns.items():
                    if key[1] == n.name and f.recv is not None:
                        yield (f.recv == "mut" or getattr(f, "interior", False)), f.params
                for key, x in EXT_FNS.items():
                    if key[1] == n.name and x.recv is not None:
                        yield x.recv[1] == "mut", x.params
            if n.kind == "call":
                x = self.ext_of_call(n.segs)
                if x:
                    yield False, x.params
                for key, f in self.fns.items():
                    if len(n.segs) >= 2 and key[1] == n.segs[-1] and f.recv is None:
                        yield False, f.params

        def walk(n):
            if isinstance(n, list):
                for x in n:
                    walk(x)
                return
            if not isinstance(n, Node):
                return
            if n.kind in ("let", "pbind"):
                if n.kind == "let" and n.expr.kind == "mcall" and n.expr.name == "into_inner":
                    # another name of the buffer a cursor was made from: conservatively, that buffer changes
                    b = self.strip(n.expr.base)
                    if b.kind == "var":
                        try:
                            o = getattr(self.lookup(b.name, 0), "origin", None)
                            if o and o not in found:
                                found.append(o)
                        except Unsupported:
                            pass
                else:
                    declared.add(n.name)
            if n.kind == "call" and n.segs == ["Cursor", "new"]:
                for a in n.args:
                    add(a)
            if n.kind == "assign":
                add(n.target)
            if n.kind == "mcall":
                if ta.MUTATING.fullmatch(n.name) or n.name in ("copy_to_slice",):
                    add(n.base)
                if n.name == "copy_to_slice":
                    for a in n.args:
                        add(a)
            for rmut, params in sig_of(n):
                if rmut:
                    add(n.base)
                for a, (_, mut) in zip(n.args, params):
                    if mut:
                        add(a)
            for key, val in n.__dict__.items():
                if key in ("kind", "line", "ty"):
                    continue
                if isinstance(val, (Node, list)):
                    walk(val)
        walk(nodes)
        names = []
        for n in found:
            if n in declared:
                continue
            try:
                v = self.lookup(n, 0)
            except Unsupported:
                continue
            # a change of an alias is a change of the variable it lives in
            chain = [v]
            while getattr(chain[-1], "alias", None):
                chain.append(self.lookup(chain[-1].alias[0], 0))
            for w in chain:
                if w.name not in names and w.order > 0:
                    names.append(w.name)
        names.sort(key=lambda n: self.lookup(n, 0).order)
        return names

    def infer_from_use(self, name, following):
        """type of `let name = <untyped literals>` from the first arithmetic / comparison it takes part in"""
        self.scopes.append({name: AVar(name, None, False, 0)})
        found = [None]

        def mentions(n):
            while n.kind == "paren":
                n = n.expr
            if n.kind == "var":
                return n.name == name
            if n.kind == "bin" and n.op in ("+", "-", "*"):
                return mentions(n.l) or mentions(n.r)
            return False

        def walk(n):
            if found[0]:
                return
            if isinstance(n, list):
                for x in n:
                    walk(x)
                return
            if not isinstance(n, Node):
                return
            if n.kind == "bin" and n.op in ("+", "-", "*", "<", ">", "<=", ">=", "==", "!=") and (mentions(n.l) or mentions(n.r)):
                try:
                    t = self.try_type(n.l) or self.try_type(n.r)
                except Unsupported:
                    t = None
                if t in ARITH_INTS:
                    found[0] = t
                    return
            for key, val in n.__dict__.items():
                if key not in ("kind", "line", "ty") and isinstance(val, (Node, list)):
                    walk(val)
        try:
            walk(following)
        finally:
            self.scopes.pop()
        return found[0]

    def is_lock(self, e):
        """`<place>.lock().unwrap_or_else(|e| e.into_inner())`: the guard, whether or not the mutex is poisoned"""
        if e.kind == "mcall" and e.name == "unwrap_or_else" and len(e.args) == 1 and e.base.kind == "mcall" and e.base.name == "lock" \
                and not e.base.args:
            c = e.args[0]
            if c.kind == "closure" and len(c.params) == 1 and c.body.kind == "mcall" and c.body.name == "into_inner" and not c.body.args \
                    and c.body.base.kind == "var" and c.body.base.name == c.params[0]:
                return e.base.base
        return None

    def stmts(self, stmts, ind):
        done = False
        for i, s in enumerate(stmts):
            if done:
                raise Unsupported("statement after `return`/`bail!`", s.line)
            k = s.kind
            if k == "let":
                e = s.expr
                target = self.is_lock(e)
                if target is not None:
                    self.emit(ind, "-- L%d: let %s%s = %s;   (the guard: an alias of the field, held to the end of the function)" % (
                        s.line, "mut " if s.mut else "", s.name, show_expr(e)))
                    b = self.strip(target)
                    if b.kind != "field" or self.strip(b.base).kind != "var":
                        raise Unsupported("`.lock()` on `%s` (only on a field of a variable)" % show_expr(target), s.line)
                    root = self.lookup(self.strip(b.base).name, s.line)
                    fty = dict(self.structs.get(root.ty, [])).get(b.name)
                    if not (isinstance(fty, tuple) and fty[0] == "mutex"):
                        raise Unsupported("`.lock()` on a `%s`" % type_str(fty) if fty else "`.lock()`", s.line)
                    if not root.mut:
                        raise Unsupported("`.lock()` through `%s`, which is not threaded" % root.name, s.line)
                    self.declare(s.name, fty[1], True, s.line, alias=(root.name, [b.name], False))
                    self.emit(ind, "let %s : %s := %s.%s" % (lean_name(s.name), lean_type(fty[1]), self.vname(root), lean_name(b.name)))
                    continue
                if e.kind == "call" and e.segs == ["Cursor", "new"]:
                    self.emit(ind, "-- L%d: let %s%s = %s;" % (s.line, "mut " if s.mut else "", s.name, show_expr(e)))
                    if self.in_main:
                        self.require_use("Cursor", s.line)
                    if len(e.args) != 1 or self.strip(e.args[0]).kind != "var":
                        raise Unsupported("`Cursor::new` of something that is not a variable", s.line)
                    src = self.lookup(self.strip(e.args[0]).name, s.line)
                    if src.ty != "BytesMut" or not src.mut:
                        raise Unsupported("`Cursor::new` of a `%s` (only a `&mut BytesMut`)" % type_str(src.ty), s.line)
                    self.declare(s.name, "IoCursor", s.mut, s.line, origin=src.name)
                    self.emit(ind, "let %s : IoCursor := IoCursor.new %s" % (lean_name(s.name), self.vname(src)))
                    continue
                if e.kind == "mcall" and e.name == "into_inner" and not e.args and self.try_type(e.base) == "IoCursor":
                    c = self.lookup(self.strip(e.base).name, s.line)
                    self.emit(ind, "-- L%d: let %s = %s;   (the `&mut BytesMut` the cursor was made from: `%s`)" % (s.line, s.name, show_expr(e), c.origin))
                    if s.name != c.origin:
                        self.scopes[-1][s.name] = AVar(s.name, "BytesMut", True, 0, same=c.origin)
                    continue
                if e.kind == "ref" and s.ty is None:
                    e = e.expr
                self.emit(ind, "-- L%d: let %s%s = %s;" % (s.line, "mut " if s.mut else "", s.name, show_expr(s.expr)))
                pre = []
                want = self.resolve_type(s.ty)[0] if s.ty else None
                guess = want or self.try_type(e)
                if guess is None:
                    guess = self.infer_from_use(s.name, stmts[i + 1:])
                ty, t = self.ex(e, guess, pre)
                if want and want != ty:
                    raise Unsupported("`let %s` type annotation mismatch (rustc would reject)" % s.name, s.line)
                if ty in ("unit", "str", "anyerr", "IoCursor"):
                    raise Unsupported("`let` of a `%s` value" % type_str(ty), s.line)
                self.emit_pre(ind, pre)
                self.declare(s.name, ty, s.mut, s.line)
                self.emit(ind, "let %s : %s := %s" % (lean_name(s.name), lean_type(ty), t))
                continue
            if k == "lettuple":
                self.emit(ind, "-- L%d: let %s = %s;" % (s.line, show_pat(s.pat), show_expr(s.expr)))
                pre = []
                ty, t = self.ex(s.expr, self.try_type(s.expr), pre)
                if not (isinstance(ty, tuple) and ty[0] == "tuple" and len(ty[1]) == len(s.pat.subs)):
                    raise Unsupported("tuple pattern for a `%s`" % type_str(ty), s.line)
                self.emit_pre(ind, pre)
                n = len(s.pat.subs)
                for j, sp in enumerate(s.pat.subs):
                    if sp.kind == "pbind":
                        proj = "".join(".2" for _ in range(j)) + (".1" if j < n - 1 else "")
                        self.declare(sp.name, ty[1][j], False, sp.line)
                        self.emit(ind, "let %s : %s := %s%s" % (lean_name(sp.name), lean_type(ty[1][j]), t, proj))
                continue
            if k == "exprstmt" and s.expr.kind == "macro" and s.expr.name in LOG_MACROS:
                e = s.expr
                self.emit(ind, "-- L%d: %s;   (arguments are evaluated only when the level is enabled)" % (s.line, show_expr(e)))
                if self.in_main:
                    self.require_use(e.name, s.line)
                pre = []
                self.fmt_args(e, pre)
                if pre:
                    self.uses_trace = True
                    self.emit(ind, "Flow.bind (")
                    self.emit(ind + 1, "if %s.trace_enabled then" % self.X)
                    self.emit_pre(ind + 2, pre)
                    self.emit(ind + 2, "Flow.next ()")
                    self.emit(ind + 1, "else Flow.next ()")
                    self.emit(ind, ") fun () =>")
                continue
            if k == "exprstmt" and s.expr.kind == "match" and getattr(s.expr, "iflet", False):
                pass
            done = tt.Gen.stmts(self, [s], ind)
        return done

    def stmt_assign(self, s, ind):
        tgt = self.strip(s.target) if s.target.kind == "paren" else s.target
        if tgt.kind != "field":
            return ta.Gen.stmt_assign(self, s, ind)
        self.emit(ind, "-- L%d: %s %s= %s;" % (s.line, show_expr(tgt), s.op or "", show_expr(s.expr)))
        v, fields, fty = self.place_of(tgt, "assignment")
        if isinstance(fty, tuple) and fty[0] == "mutex":
            raise Unsupported("assignment to a `Mutex` field", s.line)
        value = s.expr
        if s.op is not None:
            value = Node("bin", s.line, op=s.op, l=tgt, r=Node("paren", s.line, expr=s.expr))
        pre = []
        ty, t = self.ex(value, fty, pre)
        if ty != fty:
            raise Unsupported("assignment of `%s` to a field of type `%s` (rustc would reject)" % (type_str(ty), type_str(fty)), s.line)
        # the place is evaluated after the value: the variable may have been rebound by the value's calls
        self.write_place(self.lookup(v.name, s.line), fields, t, pre)
        self.emit_pre(ind, pre)

    # ------------------------------------------------------------------ match
    def variants_of(self, ty):
        """[(lean constructor, display, field types)] of a type that can be matched on"""
        if ty == "bool":
            return [("true", "true", []), ("false", "false", [])]
        if isinstance(ty, tuple) and ty[0] == "option":
            return [("some", "Some", [ty[1]]), ("none", "None", [])]
        if ty in self.enums:
            return [("%s.%s" % (ty, lean_name(v)), v, f) for v, f in self.enums[ty]]
        return None

    def pat_ctor(self, p, ty):
        """display name of the constructor a pattern selects, or None for a binding / wildcard"""
        if p.kind == "pbool":
            if ty != "bool":
                raise Unsupported("pattern `%s` for a `%s`" % (show_pat(p), type_str(ty)), p.line)
            return "true" if p.value else "false"
        if p.kind == "pctor":
            if isinstance(ty, tuple) and ty[0] == "option":
                if p.segs not in (["Some"], ["None"]) or len(p.subs) != (1 if p.segs == ["Some"] else 0):
                    raise Unsupported("pattern `%s` for a `%s`" % (show_pat(p), type_str(ty)), p.line)
                return p.segs[0]
            c = self.ctor_of(self.norm_segs(p.segs, p.line), p.line) if len(p.segs) >= 2 else None
            if c is None or c[0] != ty:
                raise Unsupported("pattern `%s` for a `%s`" % (show_pat(p), type_str(ty)), p.line)
            if len(p.subs) != len(c[2]):
                raise Unsupported("pattern `%s` has the wrong number of fields (rustc would reject)" % show_pat(p), p.line)
            if self.in_main and ty in USE_SUFFIX:
                self.require_use(ty, p.line)
            return c[1]
        return None

    def cf_match(self, e, ind, mode):
        pre = []
        scr = e.scrut
        while scr.kind == "paren":
            scr = scr.expr
        self.emit(ind, "-- L%d: %s" % (e.line, show_expr(e)))
        if scr.kind == "tuple":
            cols = []
            for x in scr.elems:
                ty, t = self.ex(x, None, pre)
                cols.append((t, ty, None))
            rows = []
            for a in e.arms:
                if a.pat.kind == "ptuple" and len(a.pat.subs) == len(cols):
                    rows.append((list(a.pat.subs), [], a))
                elif a.pat.kind == "pwild":
                    rows.append(([Node("pwild", a.line) for _ in cols], [], a))
                else:
                    raise Unsupported("pattern `%s` for a tuple" % show_pat(a.pat), a.line)
        else:
            sty, st = self.ex(scr, None, pre)
            place = None
            if any(self.has_refmut(a.pat) for a in e.arms):
                v, fields, _ = self.place_of(scr, "`ref mut` binding")
                place = (v.name, fields, False)
            cols = [(st, sty, place)]
            rows = [([a.pat], [], a) for a in e.arms]
        self.emit_pre(ind, pre)
        self.case_tree(cols, rows, ind, mode, e.line)

    def has_refmut(self, p):
        if p.kind == "pbind":
            return getattr(p, "byref", None) == "mut"
        return any(self.has_refmut(x) for x in getattr(p, "subs", []))

    def case_tree(self, cols, rows, ind, mode, line):
        if not rows:
            raise Unsupported("non-exhaustive `match` (rustc would reject)", line)
        idx = None
        for i in range(len(cols)):
            if any(r[0][i].kind in ("pctor", "pbool", "ptuple") for r in rows):
                idx = i
                break
        if idx is None:
            pats, binds, arm = rows[0]
            binds = list(binds)
            for p, col in zip(pats, cols):
                if p.kind == "pbind":
                    binds.append((p, col))
            self.scopes.append({})
            self.emit(ind, "-- L%d: %s%s => ..." % (arm.line, show_pat(arm.pat), (" if " + show_expr(arm.guard)) if arm.guard else ""))
            for p, (term, ty, place) in binds:
                byref = getattr(p, "byref", None)
                if byref == "mut":
                    if place is None:
                        raise Unsupported("`ref mut %s` of something that is not a place" % p.name, p.line)
                    self.declare(p.name, ty, True, p.line, alias=place)
                else:
                    self.declare(p.name, ty, False, p.line)
                self.emit(ind, "let %s : %s := %s" % (lean_name(p.name), lean_type(ty), term))
            if arm.guard is not None:
                raise Unsupported("match guard", arm.line)
            self.cf(arm.body, ind, mode)
            self.scopes.pop()
            return
        term, ty, place = cols[idx]
        if isinstance(ty, tuple) and ty[0] == "tuple":
            raise Unsupported("tuple pattern on a value that is not a tuple expression", line)
        variants = self.variants_of(ty)
        if variants is None:
            raise Unsupported("constructor pattern for a `%s`" % type_str(ty), line)
        sel = [(r, self.pat_ctor(r[0][idx], ty)) for r in rows]
        hyp = ""
        if self.in_cycle and isinstance(ty, tuple) and ty[0] == "option":
            self.hcount += 1
            hyp = "hm%d : " % self.hcount
        self.emit(ind, "(match %s%s with" % (hyp, term))
        for lname, disp, ftys in variants:
            fields = [self.fresh() for _ in ftys]
            self.emit(ind, "| %s%s =>" % (lname, "".join(" " + f for f in fields)))
            subplace = (place[0], place[1], True) if (place is not None and disp == "Some" and not place[2]) else None
            newcols = cols[:idx] + [(f, t, subplace) for f, t in zip(fields, ftys)] + cols[idx + 1:]
            newrows = []
            for (pats, binds, arm), ctor in sel:
                p = pats[idx]
                if ctor is not None:
                    if ctor != disp:
                        continue
                    subs = p.subs if p.kind == "pctor" else []
                    newrows.append((pats[:idx] + subs + pats[idx + 1:], binds, arm))
                else:
                    nb = binds + [(p, cols[idx])] if p.kind == "pbind" else binds
                    wild = [Node("pwild", p.line) for _ in ftys]
                    newrows.append((pats[:idx] + wild + pats[idx + 1:], nb, arm))
            self.case_tree(newcols, newrows, ind + 1, mode, line)
        self.lines[-1] += ")"

    # ------------------------------------------------------------------ items
    def register_struct(self, st, emit=True):
        self.generic = st.generic
        fields = []
        uses_ext = False
        for f in st.fields:
            ty, mut = self.resolve_type(f.ty)
            if mut or ty in ("unit", "str", "anyerr") or (isinstance(ty, tuple) and ty[0] == "result"):
                raise Unsupported("field `%s: %s`" % (f.name, show_type(f.ty)), f.line)
            fields.append((f.name, ty))
            if isinstance(ty, tuple) and ty[0] == "mutex":
                self.interior.add(st.name)
        if not fields:
            raise Unsupported("`struct %s` without fields" % st.name, st.line)

        def mentions_ext(t):
            if t in OPAQUE or t in EXT_STRUCTS:
                return True
            return isinstance(t, tuple) and any(mentions_ext(x) for x in (t[1] if isinstance(t[1], tuple) else (t[1],)))
        uses_ext = any(mentions_ext(t) for _, t in fields)
        self.structs[st.name] = fields
        self.generics[st.name] = st.generic
        KNOWN_NAMED.add(st.name)
        if uses_ext:
            EXT_STRUCTS.add(st.name)
        self.generic = None
        if not emit:
            return
        out = self.out
        out.append("/-! ### struct %s%s -/" % (st.name, "<const %s: usize>" % st.generic if st.generic else ""))
        out.append("structure %s%s where" % (st.name, " (T : ExtTypes)" if uses_ext else ""))
        for f, (fname, ty) in zip(st.fields, fields):
            out.append("  -- L%d: %s: %s" % (f.line, fname, show_type(f.ty)))
            lt = lean_type(ty[1]) if isinstance(ty, tuple) and ty[0] == "mutex" else lean_type(ty)
            out.append("  %s : %s" % (lean_name(fname), lt))
        if not uses_ext:
            out.append("deriving DecidableEq, Repr")
        out.append("")

    def struct_deps(self, st):
        names = set()

        def walk(t):
            if t.kind == "tname":
                names.add(t.name)
                for a in t.args:
                    walk(a)
            elif t.kind in ("tref",):
                walk(t.inner)
            elif t.kind in ("tslice", "tarray"):
                walk(t.elem)
        for f in st.fields:
            walk(f.ty)
        return names

    def fn_sig(self, fn, qualifier, lean, prefix=()):
        params = []
        for prm in fn.params:
            ty, mut = self.resolve_type(prm.ty)
            if ty in ("unit", "str", "anyerr") or isinstance(ty, tuple) and ty[0] == "result":
                raise Unsupported("parameter of type `%s`" % show_type(prm.ty), prm.line)
            if ty in self.interior:
                if prm.ty.kind != "tref":
                    raise Unsupported("`%s` by value" % type_str(ty), prm.line)
                mut = True        # a shared reference to a struct with a `Mutex`: its changes are threaded
            if mut and not (ty in ("BytesMut", "Bytes", "VecU8") or ty in self.structs):
                raise Unsupported("`&mut %s` parameter" % type_str(ty), prm.line)
            params.append((ty, mut))
        ret, _ = self.resolve_type(fn.ret)
        if ret in ("str", "anyerr"):
            raise Unsupported("return type `%s`" % show_type(fn.ret), fn.line)
        recv = getattr(fn, "recv", None)
        interior = recv == "ref" and qualifier in self.interior
        return FnSig(lean, recv, params, ret, "`%s::%s`" % (qualifier, fn.name), prefix, interior)

    def ret_term(self, val):
        names = ([tt.SELF_NAME[0]] if self.recv_threaded else []) + [lean_name(n) for n in self.mut_params]
        if names:
            return "(%s)" % ", ".join(names + [val])
        return val

    recv_threaded = False

    def gen_body(self, fn, qualifier, self_type, sig, in_main, origin, generic):
        """translate the body of one fn; returns the lines of the `def` (without `termination_by`)"""
        self.self_type = self_type
        self.assoc_types = {}
        self.in_main = in_main
        self.generic = generic
        self.scopes = [{}]
        self.order = 0
        self.lines = []
        self.unsafe_depth = 0
        self.uses_utf8 = False
        self.ret_ty = sig.ret
        self.recv = sig.recv
        self.recv_threaded = sig.recv == "mut" or sig.interior
        params, sigtxt = [], []
        self.mut_params = []
        if sig.recv is not None:
            if self_type not in self.structs and self_type not in self.enums:
                raise Unsupported("receiver of type `%s`" % self_type, fn.line)
            self.order += 1
            self.scopes[-1]["self"] = AVar("self", self_type, self.recv_threaded, self.order)
            params.append("(%s : %s)" % (tt.SELF_NAME[0], lean_type(self_type)))
            sigtxt.append("&mut self" if sig.recv == "mut" else "&self")
        for prm, (ty, mut) in zip(fn.params, sig.params):
            self.declare(prm.name, ty, mut or getattr(prm, "bymut", False), prm.line)
            if mut:
                self.mut_params.append(prm.name)
            params.append("(%s : %s)" % (lean_name(prm.name), lean_type(ty)))
            sigtxt.append("%s%s: %s" % ("mut " if getattr(prm, "bymut", False) else "", prm.name, show_type(prm.ty)))
        self.cf(fn.body, 1, ("tail",))
        rty = lean_type(self.ret_ty)
        finals = (["final `*self`"] if self.recv_threaded else []) + ["final `*%s`" % n for n in self.mut_params]
        if finals:
            tys = ([lean_type(self_type)] if self.recv_threaded else []) + [lean_type(self.lookup(n, fn.line).ty) for n in self.mut_params]
            rty = " × ".join([("(%s)" % t if " " in t and "×" not in t or "×" in t else t) for t in tys] + [lean_atom(self.ret_ty)])
        out = []
        out.append("-- %s L%d: fn %s(%s) -> %s" % (origin, fn.line, fn.name, ", ".join(sigtxt), show_type(fn.ret)))
        if finals:
            out.append("/-- `%s::%s`; the result is the tuple (%s, returned value) -/" % (qualifier, fn.name, ", ".join(finals)))
        else:
            out.append("/-- `%s::%s` -/" % (qualifier, fn.name))
        head = ["(%s : Bool)" % self.ov]
        if "X" in [p for p in sig.prefix] or self.X in sig.prefix:
            head.append("{T : ExtTypes} (%s : Ext T)" % self.X)
        if generic is not None and generic in sig.prefix:
            head.append("(%s : Usize)" % generic)
        out.append("def %s %s : Res (%s) :=" % (sig.lean, " ".join(head + params), rty))
        out.append("  Flow.run (")
        out.extend(self.lines)
        out.append("  )")
        self.self_type = None
        self.recv = None
        self.generic = None
        return out


# --------------------------------------------------------------------------------------------
# fixed run-time support written into every generated file
# --------------------------------------------------------------------------------------------

PRELUDE = r'''
/-! ### fixed run-time support (not derived from the source): library semantics

`Res`, `Flow`, `Flow.bind/run/arith` are those of `Octo.PWGen`; `RResult`, `Cursor`, the `bytes` operations, the integer
casts, `String`, `Address` and the functions `encode` / `decode` of `protocol/socks5/address.rs` are those of `Octo.AddrGen`
(`Octo/Gen/AddrGen.lean`, generated from that file). -/

/-- call of a translated or assumed function: its value, or its panic -/
def Flow.call {α ρ : Type} : Res α → Flow α ρ
  | .ok a => .next a
  | .panic => .panic

/-- `Option::unwrap`: panics on `None` -/
def Flow.unwrap {α ρ : Type} : Option α → Flow α ρ
  | some a => .next a
  | none => .panic

/-- `u64::abs_diff` -/
def U64.abs_diff (a b : UInt64) : UInt64 := if a ≤ b then b - a else a - b

/-- `Buf::copy_to_slice(dst)` on a `BytesMut`, `n = dst.len()`: panics when fewer than `n` bytes remain; yields (rest, the
`n` bytes that now fill `dst`) -/
def Flow.copy_to_slice {ρ : Type} (b : Cursor) (n : Usize) : Flow (Cursor × List UInt8) ρ :=
  if n.toNat ≤ b.length then .next (b.drop n.toNat, b.take n.toNat) else .panic

/-- `std::io::Cursor<&mut BytesMut>`: the buffer it borrows (never changed through the cursor) and the read position -/
structure IoCursor where
  inner : List UInt8
  pos : UInt64
deriving DecidableEq, Repr
/-- `Cursor::new` -/
def IoCursor.new (b : List UInt8) : IoCursor := ⟨b, 0⟩
/-- `Buf::remaining` of a cursor: `len.saturating_sub(pos)` -/
def IoCursor.remaining (c : IoCursor) : Usize := UInt64.ofNat (c.inner.length - c.pos.toNat)
/-- `Cursor::position` -/
def IoCursor.position (c : IoCursor) : UInt64 := c.pos
/-- `Buf::copy_to_slice(dst)` on a cursor, `n = dst.len()`: panics when fewer than `n` bytes remain -/
def Flow.io_copy_to_slice {ρ : Type} (c : IoCursor) (n : Usize) : Flow (IoCursor × List UInt8) ρ :=
  if n.toNat ≤ c.inner.length - c.pos.toNat then .next (⟨c.inner, c.pos + n⟩, (c.inner.drop c.pos.toNat).take n.toNat) else .panic
/-- `Buf::copy_to_bytes(n)` on a cursor: panics when `n > remaining` -/
def Flow.io_copy_to_bytes {ρ : Type} (c : IoCursor) (n : Usize) : Flow (IoCursor × Cursor) ρ :=
  if n.toNat ≤ c.inner.length - c.pos.toNat then .next (⟨c.inner, c.pos + n⟩, (c.inner.drop c.pos.toNat).take n.toNat) else .panic

/-- the types behind the assumed externals -/
structure ExtTypes : Type 1 where
  /-- `codec::shadowsocks::Authenticator` (cipher + nonce generator) -/
  Authenticator : Type
  /-- `manager::shadowsocks::ServerUserManager<N>` -/
  ServerUserManager : Type
  /-- `lru_time_cache::LruCache<[u8; N], ()>` (the value behind the `Mutex`; a lock is one atomic step) -/
  LruCache : Type
'''


# --------------------------------------------------------------------------------------------
# driver
# --------------------------------------------------------------------------------------------

SIDES = [
    # role, path below <src>, flat name
    ("mode", ("protocol", "shadowsocks.rs"), "protocol_shadowsocks.rs"),
    ("kind", ("codec", "aead.rs"), "codec_aead.rs"),
    ("chunk", ("codec", "shadowsocks.rs"), "codec_shadowsocks.rs"),
    ("user", ("manager", "shadowsocks.rs"), "manager_shadowsocks.rs"),
    ("ts", ("codec", "shadowsocks", "aead_2022.rs"), "aead_2022.rs"),
    ("eih", ("codec", "shadowsocks", "aead_2022", "tcp.rs"), "aead_2022_tcp.rs"),
    ("legacy", ("codec", "shadowsocks", "aead.rs"), "ss_aead.rs"),
    ("address", ("protocol", "address.rs"), "address_type.rs"),
    ("codec", ("protocol", "socks5", "address.rs"), "socks5_address.rs"),
    ("util", ("util.rs",), "util.rs"),
]


def find_side(main_path, role):
    here = os.path.dirname(os.path.abspath(main_path))
    src = os.path.normpath(os.path.join(here, "..", ".."))
    for r, rel, flat in SIDES:
        if r == role:
            cands = [os.path.join(src, *rel), os.path.join(here, flat)]
            for c in cands:
                if os.path.exists(c) and os.path.abspath(c) != os.path.abspath(main_path):
                    return c
            raise Unsupported("source file for `%s` not found (looked for %s)" % (role, ", ".join(cands)), 1)
    raise AssertionError(role)


def parse_source(path, role):
    data = open(path, "rb").read()
    try:
        src = data.decode("utf-8")
    except UnicodeDecodeError:
        raise Unsupported("non-UTF-8 source %s" % path, 1)
    toks = tn.tokenize(src)
    if role == "codec":
        p = ta.Parser(toks, True)
        p.uses = {}
    else:
        p = Parser(toks, role)
    try:
        p.parse_file()
    except Unsupported as u:
        if role != "main":
            raise Unsupported("%s (in %s)" % (u.what, os.path.basename(path)), u.line)
        raise
    return data, toks, p


def sccs(names, edges):
    """strongly connected components, callees first (Tarjan)"""
    index, low, stack, on, out = {}, {}, [], set(), []
    counter = [0]

    def visit(v):
        index[v] = low[v] = counter[0]
        counter[0] += 1
        stack.append(v)
        on.add(v)
        for w in sorted(edges[v]):
            if w not in index:
                visit(w)
                low[v] = min(low[v], low[w])
            elif w in on:
                low[v] = min(low[v], index[w])
        if low[v] == index[v]:
            comp = []
            while True:
                w = stack.pop()
                on.discard(w)
                comp.append(w)
                if w == v:
                    break
            out.append(comp)
    for n in names:
        if n not in index:
            visit(n)
    return out


def calls_in(node, names, out, method_only=False):
    if isinstance(node, list):
        for x in node:
            calls_in(x, names, out)
    elif isinstance(node, Node):
        if node.kind == "mcall" and node.name in names and node.base.kind == "var" and node.base.name == "self":
            out.add(node.name)
        if node.kind == "call" and len(node.segs) == 2 and node.segs[0] == "Self" and node.segs[1] in names:
            out.add(node.segs[1])
        for key, val in node.__dict__.items():
            if key not in ("kind", "line") and isinstance(val, (Node, list)):
                calls_in(val, names, out)


def cycle_measure(comp, fns, edges, struct):
    """the termination argument the translator proposes for a recursive group (Lean checks it): one member is entered
    through `match self.F { Some(..) => <no call into the group>, None => .. }` after statements that contain no call into the
    group; the field is `Some` at every call back into it"""
    names = set(comp)
    for f in comp:
        fn = fns[f]
        body = fn.body
        before = list(body.stmts)
        tail = body.tail
        if tail is None or tail.kind != "match" or getattr(tail, "iflet", False):
            continue
        sc = tail.scrut
        if not (sc.kind == "field" and sc.base.kind == "var" and sc.base.name == "self"):
            continue
        pre_calls = set()
        calls_in(before, names, pre_calls)
        if pre_calls:
            continue
        some_arms = [a for a in tail.arms if a.pat.kind == "pctor" and a.pat.segs == ["Some"]]
        none_arms = [a for a in tail.arms if a.pat.kind == "pctor" and a.pat.segs == ["None"]]
        if len(some_arms) != 1 or len(none_arms) != 1 or len(tail.arms) != 2:
            continue
        c = set()
        calls_in(some_arms[0].body, names, c)
        if c:
            continue
        # distance from the entry inside the group
        dist = {f: 0}
        frontier = [f]
        while frontier:
            nxt = []
            for g in frontier:
                for h in edges[g]:
                    if h in names and h not in dist:
                        dist[h] = dist[g] + 1
                        nxt.append(h)
            frontier = nxt
        top = 2 * len(comp)
        meas = {}
        for g in comp:
            if g == f:
                meas[g] = "if %s.%s.isSome then 0 else %d" % (tt.SELF_NAME[0], lean_name(sc.name), top)
            else:
                meas[g] = "%d" % (top - dist[g])
        return meas
    raise Unsupported("recursion through %s: no member is entered through `match self.<field> { Some(..) => .., None => .. }`; "
                      "the translator has no termination argument to propose" % ", ".join("`%s`" % c for c in sorted(comp)), fns[comp[0]].line)


def translate(path, out_path):
    data, toks, p = parse_source(path, "main")
    digest = hashlib.sha256(data).hexdigest()
    idents = [t.text for t in toks if t.kind == "ident"]
    loaded = {}
    for role, _, _ in SIDES:
        spath = find_side(path, role)
        sdata, stoks, sp = parse_source(spath, role)
        loaded[role] = (spath, hashlib.sha256(sdata).hexdigest(), sp)
        idents += [t.text for t in stoks if t.kind == "ident"]

    addr_gen = os.path.join(os.path.dirname(os.path.abspath(out_path)), "AddrGen.lean")
    if os.path.exists(addr_gen):
        m = re.search(r"sha256: (\w+)", open(addr_gen, encoding="utf-8").read())
        if m and m.group(1) != loaded["codec"][1]:
            raise OSError("%s was generated from another socks5/address.rs (sha256 %s, this one is %s): run translate_addr.py first"
                          % (addr_gen, m.group(1)[:16], loaded["codec"][1][:16]))

    # -- the externals: their Rust signatures must be the ones the translator knows
    sides = {}
    checked = {}
    for key, x in EXT_FNS.items():
        if x.role is None:
            continue
        spath, sdig, sp = loaded[x.role]
        got = sp.sigs.get((x.owner, key[1]))
        if got is None:
            raise Unsupported("assumed external %s: no `fn %s` found in %s" % (x.doc.split("`")[1], key[1], os.path.basename(spath)), 1)
        got_n = re.sub(r"^pub (\( [a-z]+ \) )?", "", got)
        if got_n != x.sig:
            raise Unsupported("assumed external %s has another signature in %s: `%s`" % (x.doc.split("`")[1], os.path.basename(spath), got), 1)
        checked.setdefault(x.role, []).append(key[1])

    g = Gen(idents, p.uses)
    g.in_main = False
    pre_out = []
    g.out = pre_out
    pre_out.append(PRELUDE)

    # protocol/address.rs: enum Address (declared by AddrGen)
    spath, sdig, sp = loaded["address"]
    if len(sp.enums) != 1:
        raise Unsupported("`enum Address` not found exactly once in %s" % os.path.basename(spath), 1)
    g.register_enum(sp.enums[0], False, "address.rs")
    sides["address"] = (spath, sdig, "`enum Address` (declared in Octo.AddrGen)")

    # protocol/socks5/address.rs: signatures of the generated functions
    spath, sdig, sp = loaded["codec"]
    if re.search(r"\bfrom_utf8\b", open(spath, encoding="utf-8").read()):
        raise Unsupported("socks5/address.rs uses `String::from_utf8`: the generated functions take a further parameter", 1)
    got = []
    for fn in sp.fns:
        if fn.name in ("encode", "decode"):
            fn.recv = None
            g.fns[("address", fn.name)] = g.fn_sig(fn, "address", "Octo.AddrGen.%s" % lean_name(fn.name))
            got.append(fn.name)
    if sorted(got) != ["decode", "encode"]:
        raise Unsupported("`encode` / `decode` not found in socks5/address.rs", 1)
    sides["codec"] = (spath, sdig, "signatures of %s (bodies: Octo.AddrGen)" % ", ".join("`%s`" % n for n in got))

    def side_enum(role, name, origin, methods):
        spath, sdig, sp = loaded[role]
        ens = [e for e in sp.enums if e.name == name]
        if len(ens) != 1:
            raise Unsupported("`enum %s` not found exactly once in %s" % (name, os.path.basename(spath)), 1)
        pre_out.append("")
        g.register_enum(ens[0], True, origin)
        n = 0
        for im in sp.impls:
            if im.ty != name:
                continue
            for fn in im.fns:
                sig = g.fn_sig(fn, name, "%s.%s" % (name, lean_name(fn.name)))
                g.fns[(name, fn.name)] = sig
                pre_out.extend(g.gen_body(fn, name, name, sig, False, origin, None))
                pre_out.append("")
                n += 1
        for mname in methods:
            if (name, mname) not in g.fns:
                raise Unsupported("`%s::%s` not found in %s" % (name, mname, os.path.basename(spath)), 1)
        return spath, sdig, n

    spath, sdig, n = side_enum("mode", "Mode", "protocol/shadowsocks.rs", ("expect_u8",))
    sides["mode"] = (spath, sdig, "`enum Mode`, %d fn(s) of `impl Mode`" % n)
    spath, sdig, n = side_enum("kind", "CipherKind", "codec/aead.rs", ("is_aead_2022", "support_eih"))
    sides["kind"] = (spath, sdig, "`enum CipherKind`, `is_aead_2022`, `support_eih`; signature of %s" % ", ".join("`%s`" % c for c in checked.get("kind", [])))

    # manager/shadowsocks.rs: struct ServerUser
    spath, sdig, sp = loaded["user"]
    sts = [s for s in sp.structs if s.name == "ServerUser"]
    if len(sts) != 1:
        raise Unsupported("`struct ServerUser` not found exactly once in %s" % os.path.basename(spath), 1)
    pre_out.append("/-! (parsed from manager/shadowsocks.rs) -/")
    g.register_struct(sts[0])
    sides["user"] = (spath, sdig, "`struct ServerUser`; signature of %s" % ", ".join("`%s`" % c for c in checked.get("user", [])))

    # codec/shadowsocks.rs: DecodeState, ChunkDecoder, ChunkEncoder
    spath, sdig, sp = loaded["chunk"]
    ens = [e for e in sp.enums if e.name == "DecodeState"]
    if len(ens) != 1:
        raise Unsupported("`enum DecodeState` not found exactly once in %s" % os.path.basename(spath), 1)
    g.register_enum(ens[0], True, "codec/shadowsocks.rs")
    for name in ("ChunkDecoder", "ChunkEncoder"):
        sts = [s for s in sp.structs if s.name == name]
        if len(sts) != 1:
            raise Unsupported("`struct %s` not found exactly once in %s" % (name, os.path.basename(spath)), 1)
        pre_out.append("/-! (parsed from codec/shadowsocks.rs) -/")
        g.register_struct(sts[0])
    sides["chunk"] = (spath, sdig, "`enum DecodeState`, `struct ChunkDecoder`, `struct ChunkEncoder`; signatures of %s" % ", ".join(
        "`%s`" % c for c in checked.get("chunk", [])))
    for role in ("eih", "legacy", "util"):
        spath, sdig, sp = loaded[role]
        sides[role] = (spath, sdig, "signatures of %s" % ", ".join("`%s`" % c for c in checked.get(role, [])))

    # -- the structs of the source (dependencies first)
    structs = {s.name: s for s in p.structs}
    for name in MAIN_STRUCTS:
        if name not in structs:
            raise Unsupported("`struct %s` not found" % name, 1)
    main_structs = []
    g.out = main_structs
    g.in_main = True
    done = set()

    def emit_struct(name, trail):
        if name in done:
            return
        if name in trail:
            raise Unsupported("recursive struct `%s`" % name, structs[name].line)
        for d in sorted(g.struct_deps(structs[name])):
            if d in structs and d != name:
                emit_struct(d, trail + [name])
        g.register_struct(structs[name])
        done.add(name)
    for name in [s.name for s in p.structs]:
        emit_struct(name, [])
    g.in_main = False

    # -- aead_2022.rs: the timestamp window
    ts_out = []
    g.out = ts_out
    spath, sdig, sp = loaded["ts"]
    if len(sp.iconsts) != 1 or len(sp.fns) != 1:
        raise Unsupported("`const SERVER_STREAM_TIMESTAMP_MAX_DIFF` / `fn validate_timestamp` not found exactly once in %s" % os.path.basename(spath), 1)
    c = sp.iconsts[0]
    cty, _ = g.resolve_type(c.ty)
    ce = c.expr
    while ce.kind == "paren":
        ce = ce.expr
    if cty not in ARITH_INTS or ce.kind != "lit" or ce.suffix not in (None, cty) or ce.value >= 1 << BITS[cty]:
        raise Unsupported("`const %s` is not an integer literal" % c.name, c.line)
    ts_out.append("/-! ### `aead_2022.rs`: the timestamp window -/")
    ts_out.append("-- L%d: const %s: %s = %d;" % (c.line, c.name, show_type(c.ty), ce.value))
    ts_out.append("def %s : %s := %d" % (lean_name(c.name), LEAN_INT[cty], ce.value))
    ts_out.append("")
    g.consts[c.name] = (None, cty, lean_name(c.name))
    fn = sp.fns[0]
    fn.recv = None
    g.uses = sp.uses
    g.allow_now = True
    sig = g.fn_sig(fn, "aead_2022", "validate_timestamp", [g.X])
    g.fns[("aead_2022", "validate_timestamp")] = sig
    ts_out.extend(g.gen_body(fn, "aead_2022", None, sig, False, "aead_2022.rs", None))
    ts_out.append("")
    g.allow_now = False
    del g.consts[c.name]
    g.uses = p.uses
    sides["ts"] = (spath, sdig, "`const %s`, `fn validate_timestamp` (translated); signatures of %s" % (c.name, ", ".join(
        "`%s`" % c for c in checked.get("ts", []))))

    # -- the methods
    methods = {}
    for im in p.impls:
        for fn in im.fns:
            if (im.ty, fn.name) in methods:
                raise Unsupported("two methods named `%s::%s`" % (im.ty, fn.name), fn.line)
            methods[(im.ty, fn.name)] = (fn, im)
    for ty, names in MAIN_TARGETS.items():
        for n in names:
            if (ty, n) not in methods:
                raise Unsupported("target `%s::%s` not found" % (ty, n), 1)
    main_out = []
    g.out = main_out
    g.in_main = True
    for (ty, n), (fn, im) in methods.items():
        g.generic = im.generic
        prefix = [g.X] + ([im.generic] if im.generic else [])
        g.fns[(ty, n)] = g.fn_sig(fn, ty, "%s.%s" % (ty, lean_name(n)), prefix)
    g.generic = None
    for ty in MAIN_TARGETS:
        fns = {n: methods[(ty, n)][0] for n in MAIN_TARGETS[ty]}
        edges = {}
        for n, fn in fns.items():
            c = set()
            calls_in(fn.body, set(fns), c)
            edges[n] = c
        main_out.append("/-! ### methods of `%s` -/" % ty)
        for comp in sccs(list(fns), edges):
            comp = sorted(comp, key=lambda n: fns[n].line)
            recursive = len(comp) > 1 or comp[0] in edges[comp[0]]
            meas = cycle_measure(comp, fns, edges, ty) if recursive else {}
            g.in_cycle = recursive
            if recursive:
                main_out.append("/-! recursive group %s: emitted as well-founded recursion; the measure (`termination_by`) is the translator's"
                                % ", ".join("`%s`" % c for c in comp))
                main_out.append("proposal, Lean checks that every call inside the group decreases it -/")
                if len(comp) > 1:
                    main_out.append("mutual")
            for n in comp:
                fn, im = methods[(ty, n)]
                lines = g.gen_body(fn, ty, ty, g.fns[(ty, n)], True, "impl %s" % ty, im.generic)
                main_out.extend(lines)
                if recursive:
                    main_out.append("termination_by %s" % meas[n])
                    main_out.append("decreasing_by all_goals (simp_wf <;> simp +zetaDelta [*])")
                main_out.append("")
            if recursive and len(comp) > 1:
                main_out.append("end")
                main_out.append("")
            g.in_cycle = False
    g.in_main = False

    # -- the record of assumed externals
    ext_out = ["/-! ### the assumed externals (not translated): one field per function, with the signature read from the source -/",
               "structure Ext (T : ExtTypes) where"]
    for key in EXT_ORDER:
        if key not in g.ext_used:
            continue
        x = EXT_FNS[key]
        tys = []
        outs = []
        if x.recv is not None:
            tys.append(lean_atom(x.recv[0]))
            if x.recv[1] == "mut":
                outs.append(lean_type(x.recv[0]))
        for ty, mut in x.params:
            tys.append(lean_atom("SliceU8" if ty == "bytes" else ty))
            if mut:
                outs.append(lean_type(ty))
        ret = lean_type(x.ret)
        res = " × ".join([("(%s)" % o if "×" in o else o) for o in outs] + [("(%s)" % ret if "×" in ret else ret)]) if outs else ret
        ext_out.append("  /-- %s%s -/" % (x.doc, ("; the result is (%s, returned value)" % ", ".join(
            (["final `*self`"] if x.recv and x.recv[1] == "mut" else []) + ["final `*arg%d`" % (i + 1) for i, (_, m) in enumerate(x.params) if m])) if outs else ""))
        ext_out.append("  %s : %sRes (%s)" % (x.field, "".join(t + " → " for t in tys), res))
    if g.uses_trace:
        ext_out.append("  /-- whether the `log` level of `trace!` is enabled: its arguments are evaluated (and can panic) only then -/")
        ext_out.append("  trace_enabled : Bool")
    ext_out.append("")

    out = []
    out.extend(header(path, digest, p, sides, g))
    out.append("import Octo.Gen.AddrGen")
    out.append("set_option linter.unusedVariables false")
    out.append("namespace Octo.SsTcpGen")
    out.append("open Octo.PWGen Octo.AddrGen")
    out.extend(pre_out)
    out.extend(main_structs)
    out.extend(ext_out)
    out.extend(ts_out)
    out.extend(main_out)
    out.append("end Octo.SsTcpGen")
    return "\n".join(out) + "\n"


def header(path, digest, p, sides, g):
    lines = []
    lines.append("/- GENERATED by translate_sstcp.py — do not edit.")
    lines.append("   source: %s" % path)
    lines.append("   sha256: %s" % digest)
    lines.append("   further sources (found relative to the first):")
    for role, (spath, sdigest, what) in sides.items():
        rel = next("/".join(r[1]) for r in SIDES if r[0] == role)
        lines.append("     - %s: %s (sha256 %s): %s" % (role, rel if spath.replace(os.sep, "/").endswith(rel) else os.path.basename(spath), sdigest, what))
    lines.append("")
    lines.append("   Statement-by-statement translation of `struct Context / AEADCipherCodec / Session / Identity` and of the methods")
    lines.append("   %s (located by name)." % ", ".join("`%s::%s`" % (t, n) for t in MAIN_TARGETS for n in MAIN_TARGETS[t]))
    lines.append("   Conventions of translate_addr.py / translate_trojan.py (see Octo/Gen/AddrGen.lean, TrojanGen.lean): integers = UIntN")
    lines.append("   (usize = 64 bit), `+ - *` wrap and are preceded by `Flow.arith ov (..)` (panic when overflow-checks are on),")
    lines.append("   `BytesMut`/`&[u8]`/`[u8; n]` = List UInt8 (a read cursor = the bytes that remain), `get_*`/`split_to`/`advance`/")
    lines.append("   `copy_to_*` panic when fewer bytes remain, `Result<T, _>` = RResult T (error values are not modelled), `e?` =")
    lines.append("   Flow.question, `match` = a case tree, a method with `&mut self` / `&mut` arguments returns their final values next to")
    lines.append("   the returned value (also on `Err`).  In addition here:")
    lines.append("   * the const generic `N` is a parameter; `[u8; N]` = List UInt8, `[0; N]` = `List.replicate N.toNat 0`, `x.len()` = the")
    lines.append("     length of the list (the proofs carry `length = N` as a hypothesis where it matters);")
    lines.append("   * a struct with a `Mutex` field (`Context`) is shared and mutable: a `&Context` parameter / `&self` receiver is threaded")
    lines.append("     like `&mut` (returned with the result); `m.lock().unwrap_or_else(|e| e.into_inner())` = the field itself (one atomic")
    lines.append("     step, poisoning ignored as the source does), written back after every change;")
    lines.append("   * `Some(ref mut x)` on a place: `x` is a copy that is written back to the place after every change of `x`;")
    lines.append("   * `std::io::Cursor::new(buf)` over a `&mut BytesMut` = (the buffer, read position); `into_inner()` names the buffer again;")
    lines.append("   * `Option`: `as_ref`/`as_mut` are transparent, `unwrap` panics on `None`, `is_some_and(|m| e)`, `map(|a| &a[..])`;")
    lines.append("     `map_err(f)` = identity for the error conversions that cannot panic; `matches!` = a total `match` to Bool;")
    lines.append("   * format arguments of `bail!` are evaluated (overflow checks) and dropped; arguments of `trace!`.. are evaluated only")
    lines.append("     under `X.trace_enabled` (as the `log` macros do) and must not change anything;")
    lines.append("   * recursion (`self.decode(..)` after the decoder was initialised, `self.encode(..)`) is well-founded recursion.")
    lines.append("   ASSUMED EXTERNALS (fields of `Ext`, parameters `X` of every generated function; `ExtTypes`: Authenticator,")
    lines.append("   ServerUserManager, LruCache):")
    for key in EXT_ORDER:
        if key in g.ext_used:
            x = EXT_FNS[key]
            lines.append("     - %s: %s" % (x.field, x.doc))
    if g.uses_trace:
        lines.append("     - trace_enabled: whether `trace!` evaluates its arguments")
    lines.append("   names are bound through the `use` items of the source (checked for: %s)." % ", ".join(sorted(g.used_names)))
    lines.append("   skipped (not parsed, bracket matching only):")
    if p.nuse:
        lines.append("     - %d `use` items (read for name binding only)" % p.nuse)
    for s in p.skipped:
        lines.append("     - %s" % s)
    lines.append("-/")
    return lines


def main(argv):
    if len(argv) != 3:
        sys.stderr.write("usage: translate_sstcp.py <path/to/octo-squirrel/src/codec/shadowsocks/tcp.rs> <out.lean>\n")
        return 2
    try:
        text = translate(argv[1], argv[2])
    except Unsupported as u:
        sys.stderr.write("translate_sstcp: unsupported: %s at line %d\n" % (u.what, u.line))
        return 3
    except OSError as e:
        sys.stderr.write("translate_sstcp: %s\n" % e)
        return 2
    try:
        with open(argv[2], "w", encoding="utf-8") as f:
            f.write(text)
    except OSError as e:
        sys.stderr.write("translate_sstcp: %s\n" % e)
        return 2
    return 0


if __name__ == "__main__":
    sys.exit(main(sys.argv))
