#!/usr/bin/env python3
"""Rust-subset -> Lean 4 translator for the VMess-style address codec and the VMess request-header length guard.

usage:  translate_vmaddr.py <path/to/octo-squirrel/src/protocol/vmess.rs> <out.lean>

Four source files are read; the first is the argument, the others are found relative to it (the flat names are
for copies kept in one directory):

  core    <arg>                                             `mod address { fn write_address_port, fn read_address_port }`
  address <dir>/address.rs | <dir>/address_type.rs          `enum Address`, `impl From<SocketAddr> for Address { fn from }`
  header  <dir>/vmess/header.rs | <dir>/header.rs            `enum AddressType { .. = n }`, `impl AddressType { fn new }`
  server  <dir>/../../../octo-squirrel-server/src/server/vmess.rs | <dir>/server_vmess.rs
                                                            `fn check_header_length`

The items named above are located by name, tokenized (tokenizer of translate_nonce.py), parsed with the
recursive-descent parser of translate_addr.py (extended here: literal patterns, `const` statements, `Self`, explicit
discriminants, `impl` blocks, `mod address`), type-checked against the library table of translate_addr.py and
emitted statement by statement in the `Flow`/`Res` calculus of `Octo/Gen/PacketWindowGen.lean`.  Everything else in
the four files is skipped by balanced-bracket matching and listed in the generated header.

Exit status:
  0  a Lean module was written
  2  usage / IO error (the file given on the command line cannot be read, the output cannot be written)
  3  a construct outside the supported subset inside a target item, or a target item / one of the three other source
     files is missing; one line on stderr; nothing is written (never a guess).
"""
import hashlib
import os
import re
import sys

sys.path.insert(0, os.path.dirname(os.path.abspath(__file__)))
import translate_nonce as tn  # noqa: E402   (tokenizer)
import translate_addr as ta  # noqa: E402    (parser, type checker, emitter, support section; itself built on translate_pw)
from translate_pw import Unsupported, Node, lean_name  # noqa: E402
from translate_addr import ARITH_INTS, BITS, show_type, show_expr, show_pat, type_str  # noqa: E402

CORE_MOD = "address"
CORE_FNS = ("write_address_port", "read_address_port")
SERVER_FNS = ("check_header_length",)
TYPE_ENUM = "AddressType"
TYPE_ENUM_FNS = ("new",)
ADDR_ENUM = "Address"
# names the translator reads with a fixed (library) meaning: a local definition of one of them is refused
LIB_NAMES = ("SocketAddr", "SocketAddrV4", "SocketAddrV6", "Ipv4Addr", "Ipv6Addr", "String", "BytesMut", "Bytes", "Vec",
             "Result", "Ok", "Err")

ROLES = ("core", "address", "header", "server")

# translate_addr.lean_type knows the enums of its own file only; the emitter methods inherited from translate_addr.Gen
# look it up in that module, so the extended function is installed there (this process only)
_addr_lean_type = ta.lean_type


def lean_type(t):  # noqa: F811
    if t == TYPE_ENUM:
        return t
    return _addr_lean_type(t)


ta.lean_type = lean_type


# --------------------------------------------------------------------------------------------
# parser
# --------------------------------------------------------------------------------------------

class Parser(ta.Parser):
    def __init__(self, toks, role):
        ta.Parser.__init__(self, toks, True)
        self.role = role
        self.fns = []        # Node fn with .owner (None | enum name) and .trait_arg (None | type node)
        self.enums = []
        self.mods = 0        # how many `mod address { .. }` were entered

    # -- items ------------------------------------------------------------------------------
    def parse_file(self):
        self.parse_items(top=True)
        if self.tok.kind != "eof":
            raise Unsupported("unbalanced `}`", self.tok.line)

    def wanted_fn(self, name, top):
        if self.role == "core":
            return (not top) and name in CORE_FNS
        if self.role == "server":
            return top and name in SERVER_FNS
        return False

    def parse_items(self, top):
        """items up to the end of the file (top) or to the `}` that closes `mod address` (not consumed)"""
        while self.tok.kind != "eof" and not (not top and self.at("}")):
            if self.at(";"):
                self.advance()
                continue
            first = self.tok
            attrs = self.parse_attrs()
            self.parse_vis()
            t = self.tok
            nxt = self.peek()
            gated = any(re.sub(r"\s+", "", text).startswith(("cfg(", "test")) for text, _ in attrs)
            kw = t.text
            name = nxt.text if nxt.kind == "ident" else ""
            # the module that holds the codec
            if self.role == "core" and top and self.at("mod") and name == CORE_MOD and self.peek(2).text == "{":
                if gated:
                    raise Unsupported("cfg-gated `mod %s`" % CORE_MOD, t.line)
                self.check_attrs(attrs)
                self.advance()
                self.advance()
                self.expect("{")
                self.mods += 1
                self.parse_items(top=False)
                self.expect("}")
                continue
            if self.at("fn") and nxt.kind == "ident" and self.wanted_fn(nxt.text, top):
                if gated:
                    end = self.skip_item()
                    self.note_skip("cfg/test-gated fn %s" % nxt.text, t.line, end)
                    continue
                self.check_attrs(attrs)
                fn = self.parse_fn()
                fn.owner, fn.trait_arg = None, None
                self.fns.append(fn)
                continue
            want_enum = ADDR_ENUM if self.role == "address" else TYPE_ENUM if self.role == "header" else None
            if self.at("enum") and want_enum and name == want_enum and top:
                if gated:
                    raise Unsupported("cfg-gated `enum %s`" % name, t.line)
                self.check_attrs(attrs)
                self.enums.append(self.parse_enum())
                continue
            if t.kind == "ident" and kw in ("struct", "enum", "union", "trait", "type", "mod", "fn", "const", "static") \
                    and name in LIB_NAMES and not gated:
                raise Unsupported("`%s %s`: a local definition of a name the translator reads as a library name" % (kw, name), t.line)
            if self.at("macro_rules") and nxt.text == "!":
                name = self.peek(2).text
                end = self.skip_item()
                self.note_skip("macro_rules! %s" % name, t.line, end)
                continue
            if self.at("impl"):
                if self.parse_impl(attrs, gated, top):
                    continue
                header = []
                k = self.pos + 1
                while self.toks[k].kind != "eof" and not (self.toks[k].kind == "punct" and self.toks[k].text in ("{", ";")):
                    header.append(self.toks[k].text)
                    k += 1
                end = self.skip_item()
                self.note_skip("%s `impl %s`" % ("trait impl" if "for" in header else "impl", " ".join(header)), t.line, end)
                continue
            end = self.skip_item()
            if kw == "use":
                self.nuse += 1
            else:
                what = "%s %s" % (kw, name) if name else "item starting with `%s`" % kw
                if gated:
                    what = "test/cfg-gated " + what
                self.note_skip(what, first.line, end)

    def parse_impl(self, attrs, gated, top):
        """`impl AddressType { .. fn new .. }` (header role) and `impl From<T> for Address { fn from }` (address role);
        returns False when this impl is none of them (the caller skips it)"""
        texts = []
        k = self.pos + 1
        while self.toks[k].kind != "eof" and not (self.toks[k].kind == "punct" and self.toks[k].text in ("{", ";")):
            texts.append(self.toks[k].text)
            k += 1
        owner, trait_arg_at = None, None
        if self.role == "header" and texts == [TYPE_ENUM]:
            owner = TYPE_ENUM
        elif self.role == "address" and len(texts) >= 6 and texts[0] == "From" and texts[1] == "<" and texts[-2:] == ["for", ADDR_ENUM] \
                and texts[-3] == ">":
            owner = ADDR_ENUM
            trait_arg_at = self.pos + 3
        if owner is None or not top:
            return False
        line = self.tok.line
        if gated:
            raise Unsupported("cfg-gated `impl %s`" % " ".join(texts), line)
        self.check_attrs(attrs)
        trait_arg = None
        if trait_arg_at is not None:
            self.pos = trait_arg_at
            trait_arg = self.parse_type()
            self.expect(">")
            self.expect("for")
            self.ident()
        else:
            self.advance()
            self.ident()
        self.expect("{")
        while not self.at("}"):
            if self.tok.kind == "eof":
                raise Unsupported("unterminated impl", line)
            first = self.tok
            iattrs = self.parse_attrs()
            self.parse_vis()
            t = self.tok
            nxt = self.peek()
            igated = any(re.sub(r"\s+", "", text).startswith(("cfg(", "test")) for text, _ in iattrs)
            wanted = TYPE_ENUM_FNS if trait_arg is None else ("from",)
            if self.at("fn") and nxt.kind == "ident" and nxt.text in wanted:
                if igated:
                    raise Unsupported("cfg-gated `fn %s`" % nxt.text, t.line)
                self.check_attrs(iattrs)
                fn = self.parse_fn()
                fn.owner, fn.trait_arg = owner, trait_arg
                self.fns.append(fn)
                continue
            what = "%s %s in `impl %s`" % (t.text, nxt.text if nxt.kind == "ident" else "", " ".join(texts))
            end = self.skip_item()
            self.note_skip(what, first.line, end)
        self.expect("}")
        return True

    def parse_enum(self):
        line = self.expect("enum").line
        name = self.ident().text
        if self.at("<"):
            raise Unsupported("generic enum", line)
        self.expect("{")
        variants = []
        while not self.at("}"):
            self.check_attrs(self.parse_attrs())
            vl = self.tok.line
            vname = self.ident().text
            fields = []
            if self.accept("("):
                while not self.at(")"):
                    fields.append(self.parse_type())
                    if not self.accept(","):
                        break
                self.expect(")")
            elif self.at("{"):
                raise Unsupported("struct-like enum variant", vl)
            discr = None
            if self.accept("="):
                t = self.tok
                if t.kind != "int":
                    raise Unsupported("discriminant of `%s::%s` is not an integer literal" % (name, vname), vl)
                self.advance()
                discr = ta.parse_int(t)
                if discr["suffix"] is not None:
                    raise Unsupported("suffixed discriminant", vl)
                discr = discr["value"]
                if fields:
                    raise Unsupported("discriminant on a variant with fields", vl)
            variants.append(Node("variant", vl, name=vname, fields=fields, discr=discr))
            if not self.accept(","):
                break
        self.expect("}")
        return Node("enum", line, name=name, variants=variants)

    # -- types: `Self`
    def parse_type(self):
        if self.at("Self"):
            t = self.advance()
            if self.at("::") or self.at("<"):
                raise Unsupported("path through `Self` in a type", t.line)
            return Node("tname", t.line, name="Self", segs=["Self"], args=[])
        return ta.Parser.parse_type(self)

    # -- statements: `const NAME: T = e;`
    def parse_block(self):
        line = self.expect("{").line
        stmts = []
        tail = None
        while not self.at("}"):
            if self.tok.kind == "eof":
                raise Unsupported("unterminated block", line)
            if tail is not None:
                raise Unsupported("expression statement without `;`", tail.line)
            if self.at("#"):
                raise Unsupported("attribute on a statement", self.tok.line)
            t = self.tok
            if self.at(";"):
                self.advance()
                continue
            if self.at("let"):
                stmts.append(self.parse_let())
                continue
            if self.at("const") and self.peek().kind == "ident" and self.peek(2).text == ":":
                self.advance()
                name = self.ident().text
                self.expect(":")
                ty = self.parse_type()
                self.expect("=")
                e = self.parse_expr()
                self.expect(";")
                stmts.append(Node("const", t.line, name=name, ty=ty, expr=e))
                continue
            if self.at("return"):
                self.advance()
                e = None
                if not self.at(";") and not self.at("}"):
                    e = self.parse_expr()
                node = Node("return", t.line, expr=e)
                if self.at("}"):
                    tail = node
                else:
                    self.expect(";")
                    stmts.append(node)
                continue
            if t.kind == "ident" and t.text in ("while", "loop", "for", "break", "continue", "fn", "struct", "const",
                                                 "use", "static", "impl", "mod", "enum", "trait", "type", "async", "move"):
                raise Unsupported("`%s`" % t.text, t.line)
            if self.at("if") or self.at("match") or self.at("unsafe") or self.at("{"):
                e = self.parse_primary(False)
                if self.at("}"):
                    tail = e
                else:
                    self.accept(";")
                    stmts.append(Node("exprstmt", t.line, expr=e))
                continue
            e = self.parse_expr()
            if self.at("="):
                self.advance()
                rhs = self.parse_expr()
                self.expect(";")
                stmts.append(Node("assign", t.line, target=e, op=None, expr=rhs))
            elif self.tok.kind == "punct" and self.tok.text in ("+=", "-=", "*=", "&=", "|=", "<<=", ">>=", "/=", "%=", "^="):
                op = self.advance().text[:-1]
                rhs = self.parse_expr()
                self.expect(";")
                stmts.append(Node("assign", t.line, target=e, op=op, expr=rhs))
            elif self.at(";"):
                self.advance()
                stmts.append(Node("exprstmt", t.line, expr=e))
            elif self.at("}"):
                tail = e
            else:
                raise Unsupported("token `%s` after expression" % self.tok.text, self.tok.line)
        self.expect("}")
        return Node("block", line, stmts=stmts, tail=tail, unsafe=False)

    # -- patterns: integer literals
    def parse_pattern(self):
        t = self.tok
        if t.kind == "int":
            self.advance()
            if self.at("..") or self.at("..=") or self.at("..."):
                raise Unsupported("range pattern", t.line)
            return Node("plit", t.line, **ta.parse_int(t))
        return ta.Parser.parse_pattern(self)


def show_pat2(p):
    if p.kind == "plit":
        return "%d%s" % (p.value, p.suffix or "")
    return show_pat(p)


# --------------------------------------------------------------------------------------------
# type checker + emitter (extends translate_addr.Gen)
# --------------------------------------------------------------------------------------------

BUILTIN_ENUMS = {"SocketAddr": [("V4", ["SocketAddrV4"]), ("V6", ["SocketAddrV6"])]}


class Gen(ta.Gen):
    def __init__(self, all_idents):
        ta.Gen.__init__(self, all_idents)
        self.enums = dict(BUILTIN_ENUMS)
        self.discr = {}        # fieldless enums: name -> {variant: value}
        self.user_fns = {}     # (owner, name) -> (argument types, result type, lean name)
        self.self_ty = None

    # -- `Self`
    def self_segs(self, segs, line):
        if segs and segs[0] == "Self":
            if self.self_ty is None:
                raise Unsupported("`Self` outside an impl", line)
            return [self.self_ty] + list(segs[1:])
        return segs

    def ctor_of(self, segs, line):
        segs = self.self_segs(segs, line)
        if len(segs) >= 2 and (segs[-2], segs[-1]) in self.user_fns:
            return None
        return ta.Gen.ctor_of(self, segs, line)

    def resolve_type(self, t):
        if t.kind == "tname":
            if t.segs == ["Self"]:
                if self.self_ty is None:
                    raise Unsupported("`Self` outside an impl", t.line)
                return self.self_ty, False
            if t.name == "Result" and t.segs == ["Result"] and len(t.args) == 2:
                # `Result<T, E>`: the error value is not modelled (as for anyhow::Result); E must be a plain named type
                e = t.args[1]
                if e.kind != "tname" or e.args:
                    raise Unsupported("error type `%s`" % show_type(e), t.line)
                inner, _ = self.resolve_type(t.args[0])
                return ("result", inner), False
        return ta.Gen.resolve_type(self, t)

    # -- calls of translated functions
    def call_sig(self, e, check=True):
        segs = self.self_segs(e.segs, e.line)
        if len(segs) >= 2 and (segs[-2], segs[-1]) in self.user_fns:
            args, ret, fn = self.user_fns[(segs[-2], segs[-1])]
            return args, ret, fn
        if len(segs) >= 2 and segs[-2] in (ADDR_ENUM, TYPE_ENUM) and segs[-2] in self.enums \
                and not any(v == segs[-1] for v, _ in self.enums[segs[-2]]):
            raise Unsupported("call of `%s` (no translated function of that name)" % "::".join(segs), e.line)
        return ta.Gen.call_sig(self, Node("call", e.line, segs=segs, args=e.args), check)

    def ex_call(self, e, expected, pre):
        segs = self.self_segs(e.segs, e.line)
        if len(segs) >= 2 and (segs[-2], segs[-1]) in self.user_fns:
            argtys, ret, fn = self.user_fns[(segs[-2], segs[-1])]
            terms = self.args(e, argtys, pre, "`%s`" % "::".join(e.segs))
            v = self.fresh()
            pre.append("Flow.bind (Flow.call (%s)) fun %s =>" % (" ".join([fn, self.ov] + terms), v))
            return ret, v
        if segs != e.segs:
            e = Node("call", e.line, segs=segs, args=e.args)
        return ta.Gen.ex_call(self, e, expected, pre)

    def try_type(self, e):
        if e.kind == "bin" and e.op in ("<<", ">>"):
            return self.try_type(e.l)
        if e.kind == "path":
            segs = self.self_segs(e.segs, e.line)
            c = self.ctor_of(segs, e.line)
            return c[0] if c else None
        if e.kind == "match":
            # arms with literal patterns bind nothing; the rest is as in translate_addr
            for a in e.arms:
                if self.diverges(a.body):
                    continue
                try:
                    t = self.try_type_arm(e, a)
                except Unsupported:
                    t = None
                if t:
                    return t
            return None
        return ta.Gen.try_type(self, e)

    def diverges(self, e):
        if e.kind == "macro" and e.name == "panic":
            return True
        return ta.Gen.diverges(self, e)

    # -- expressions
    def ex(self, e, expected, pre):
        if e.kind == "path":
            segs = self.self_segs(e.segs, e.line)
            if segs != e.segs:
                e = Node("path", e.line, segs=segs)
        if e.kind == "macro" and e.name == "panic":
            raise Unsupported("`panic!` in value position", e.line)
        return ta.Gen.ex(self, e, expected, pre)

    def ex_cast(self, e, pre):
        target, _ = self.resolve_type(e.ty)
        inner = e.expr
        while inner.kind == "paren":
            inner = inner.expr
        sty = self.try_type(inner)
        if sty in self.discr:
            if target not in ARITH_INTS:
                raise Unsupported("cast to `%s`" % show_type(e.ty), e.line)
            _, s = self.ex(inner, None, pre)
            s = "(%s.as_u8 %s)" % (sty, s)
            if target == "u8":
                return target, s
            return target, "(U8.as_%s %s)" % (target, s)
        return ta.Gen.ex_cast(self, e, pre)

    def ex_bin(self, e, expected, pre):
        op = e.op
        if op in ("<<", ">>"):
            ty = self.try_type(e.l)
            if ty not in ("u8", "u16", "u32", "u64", "usize"):
                raise Unsupported("cannot determine the operand type of `%s`" % op, e.line)
            lt, l = self.ex(e.l, ty, pre)
            if lt != ty:
                raise Unsupported("mismatched operand type for `%s`" % op, e.line)
            r = e.r
            while r.kind == "paren":
                r = r.expr
            if not (r.kind == "lit" and r.suffix is None):
                raise Unsupported("shift by something other than an unsuffixed literal", e.line)
            if r.value >= BITS[ty]:
                raise Unsupported("shift amount %d out of range for `%s` (rustc would reject)" % (r.value, ty), e.line)
            return ty, "(%s %s %s)" % (l, "<<<" if op == "<<" else ">>>", self.lit(r.value, ty))
        if op in ("&", "|", "^"):
            ty = self.try_type(e.l) or self.try_type(e.r) or expected
            if ty not in ("u8", "u16", "u32", "u64", "usize"):
                raise Unsupported("cannot determine the operand type of `%s`" % op, e.line)
            lt, l = self.ex(e.l, ty, pre)
            rt, r = self.ex(e.r, ty, pre)
            if lt != ty or rt != ty:
                raise Unsupported("mismatched operand types for `%s` (rustc would reject)" % op, e.line)
            return ty, "(%s %s %s)" % (l, {"&": "&&&", "|": "|||", "^": "^^^"}[op], r)
        return ta.Gen.ex_bin(self, e, expected, pre)

    # -- leaves / statements: `panic!`, `const`
    def emit_panic(self, e, ind):
        self.pure_args(e)
        self.emit(ind, "Flow.panic")

    def leaf(self, e, ind, mode):
        if e.kind == "macro" and e.name == "panic":
            self.emit(ind, "-- L%d: %s" % (e.line, show_expr(e)))
            self.emit_panic(e, ind)
            return
        ta.Gen.leaf(self, e, ind, mode)

    def const_value(self, e, ty):
        """exact value of a constant expression built from literals, earlier constants, parentheses and `+ - *`;
        an overflow is a compile error in Rust, so it is refused here"""
        k = e.kind
        if k == "paren":
            return self.const_value(e.expr, ty)
        if k == "lit":
            if e.suffix not in (None, ty):
                raise Unsupported("literal of type `%s` in a `%s` constant (rustc would reject)" % (e.suffix, ty), e.line)
            v = e.value
        elif k == "var":
            var = self.lookup(e.name, e.line)
            if getattr(var, "const", None) is None or var.ty != ty:
                raise Unsupported("`%s` in a constant expression" % e.name, e.line)
            v = var.const
        elif k == "bin" and e.op in ("+", "-", "*"):
            a, b = self.const_value(e.l, ty), self.const_value(e.r, ty)
            v = a + b if e.op == "+" else a - b if e.op == "-" else a * b
        else:
            raise Unsupported("constant expression `%s`" % show_expr(e), e.line)
        if not 0 <= v < (1 << BITS[ty]):
            raise Unsupported("constant expression overflows `%s` (rustc would reject)" % ty, e.line)
        return v

    def const_term(self, e, ty):
        k = e.kind
        if k == "paren":
            return self.const_term(e.expr, ty)
        if k == "lit":
            return self.lit(e.value, ty)
        if k == "var":
            return lean_name(e.name)
        return "(%s %s %s)" % (self.const_term(e.l, ty), e.op, self.const_term(e.r, ty))

    def stmts(self, stmts, ind):
        done = False
        for s in stmts:
            if done:
                raise Unsupported("statement after `return`/`bail!`/`panic!`", s.line)
            if s.kind == "const":
                ty, _ = self.resolve_type(s.ty)
                if ty not in ARITH_INTS:
                    raise Unsupported("`const %s` of type `%s`" % (s.name, show_type(s.ty)), s.line)
                v = self.const_value(s.expr, ty)
                self.emit(ind, "-- L%d: const %s: %s = %s;   (= %d, evaluated without overflow by the translator)" % (
                    s.line, s.name, show_type(s.ty), show_expr(s.expr), v))
                self.declare(s.name, ty, False, s.line)
                self.lookup(s.name, s.line).const = v
                self.emit(ind, "let %s : %s := %s" % (lean_name(s.name), lean_type(ty), self.const_term(s.expr, ty)))
            elif s.kind == "exprstmt" and s.expr.kind == "macro" and s.expr.name == "panic":
                self.emit(ind, "-- L%d: %s;" % (s.line, show_expr(s.expr)))
                self.emit_panic(s.expr, ind)
                done = True
            else:
                done = ta.Gen.stmts(self, [s], ind)
        return done

    # -- `match` on an integer: decision tree with Rust's first-match semantics
    def cf_match(self, e, ind, mode):
        sty = self.try_type(e.scrut)
        if sty not in ARITH_INTS:
            return ta.Gen.cf_match(self, e, ind, mode)
        pre = []
        sty, st = self.ex(e.scrut, sty, pre)
        self.emit(ind, "-- L%d: match %s { ... }" % (e.line, show_expr(e.scrut)))
        self.emit_pre(ind, pre)
        for a in e.arms:
            p = a.pat
            if p.kind == "plit":
                if p.suffix not in (None, sty):
                    raise Unsupported("pattern `%s` for a `%s` (rustc would reject)" % (show_pat2(p), sty), p.line)
                if p.value >= 1 << BITS[sty]:
                    raise Unsupported("pattern `%s` out of range for `%s` (rustc would reject)" % (show_pat2(p), sty), p.line)
            elif p.kind not in ("pbind", "pwild"):
                raise Unsupported("pattern `%s` for a `%s`" % (show_pat2(p), sty), p.line)
        self.int_tree(st, sty, list(e.arms), ind, mode, e.line)

    def int_tree(self, st, sty, arms, ind, mode, line, known=None):
        """`arms`: the arms that can still match, in source order; `known`: the value of the scrutinee when this point
        is reached through the `then` branch of a test against a literal (the arms are already filtered for it)"""
        if not arms:
            raise Unsupported("`match` on a `%s` without a final catch-all arm" % sty, line)
        a, rest = arms[0], arms[1:]
        p = a.pat
        head = "-- L%d: %s%s => ..." % (a.line, show_pat2(p), (" if " + show_expr(a.guard)) if a.guard else "")
        if p.kind == "plit" and known is None:
            self.emit(ind, "if (%s == %s) then" % (st, self.lit(p.value, sty)))
            # here the scrutinee is `p.value`: arms for other literals cannot match
            same = [x for x in rest if not (x.pat.kind == "plit" and x.pat.value != p.value)]
            self.emit(ind + 1, head)
            self.arm_body(a, st, sty, same, ind + 1, mode, line, p.value)
            self.emit(ind, "else")
            other = [x for x in rest if not (x.pat.kind == "plit" and x.pat.value == p.value)]
            self.int_tree(st, sty, other, ind + 1, mode, line, None)
        else:
            assert p.kind != "plit" or p.value == known
            self.emit(ind, head)
            self.arm_body(a, st, sty, rest, ind, mode, line, known)

    def arm_body(self, a, st, sty, rest, ind, mode, line, known):
        self.scopes.append({})
        if a.pat.kind == "pbind":
            self.declare(a.pat.name, sty, False, a.pat.line)
            self.emit(ind, "let %s : %s := %s" % (lean_name(a.pat.name), lean_type(sty), st))
        if a.guard is not None:
            if self.outer_mutated([a.guard]):
                raise Unsupported("match guard with an effect", a.line)
            pre = []
            ty, g = self.ex(a.guard, "bool", pre)
            if ty != "bool":
                raise Unsupported("guard of type `%s` (rustc would reject)" % type_str(ty), a.line)
            self.emit_pre(ind, pre)
            self.emit(ind, "if %s then" % g)
            self.cf(a.body, ind + 1, mode)
            self.emit(ind, "else")
            self.scopes.pop()
            self.int_tree(st, sty, rest, ind + 1, mode, line, known)
            return
        self.cf(a.body, ind, mode)
        self.scopes.pop()

    # ------------------------------------------------------------------------------------
    # items
    # ------------------------------------------------------------------------------------
    def gen_enum(self, en, origin):
        has_discr = any(v.discr is not None for v in en.variants)
        fieldless = all(not v.fields for v in en.variants)
        if has_discr and not fieldless:
            raise Unsupported("`enum %s` mixes fields and discriminants" % en.name, en.line)
        if en.name == TYPE_ENUM and not fieldless:
            raise Unsupported("`enum %s` has a variant with fields" % en.name, en.line)
        ta.Gen.gen_enum(self, en, origin)
        if en.name == TYPE_ENUM:
            values, nxt = {}, 0
            for v in en.variants:
                d = v.discr if v.discr is not None else nxt
                if d in values.values():
                    raise Unsupported("duplicate discriminant %d (rustc would reject)" % d, v.line)
                if d >= 256:
                    raise Unsupported("discriminant %d of `%s::%s` does not fit a `u8`" % (d, en.name, v.name), v.line)
                values[v.name] = d
                nxt = d + 1
            self.discr[en.name] = values
            out = self.out
            out.pop()   # the blank line after `deriving`
            out.append("/-- `t as u8`: the discriminant (all of them are below 256, so `as u8` is exact) -/")
            out.append("def %s.as_u8 : %s → UInt8" % (en.name, en.name))
            for v in en.variants:
                out.append("  | .%s => %d" % (lean_name(v.name), values[v.name]))
            out.append("")

    def gen_fn(self, fn):
        out = self.out
        self.scopes = [{}]
        self.order = 0
        self.lines = []
        self.unsafe_depth = 0
        self.uses_utf8 = False
        self.self_ty = fn.owner
        self.ret_ty, _ = self.resolve_type(fn.ret)
        if self.ret_ty in ("str", "anyerr"):
            raise Unsupported("return type `%s`" % show_type(fn.ret), fn.line)
        params, sig, ptys = [], [], []
        self.mut_params = []
        for prm in fn.params:
            ty, mut = self.resolve_type(prm.ty)
            if ty == "unit" or isinstance(ty, tuple) and ty[0] == "result":
                raise Unsupported("parameter of type `%s`" % show_type(prm.ty), prm.line)
            if mut and not (ty in ("BytesMut", "Bytes", "VecU8", "SliceU8")):
                raise Unsupported("`&mut %s` parameter" % type_str(ty), prm.line)
            if mut and ty == "SliceU8" and not (prm.ty.inner.kind == "tref"):
                raise Unsupported("`&mut [u8]` parameter (only the cursor `&mut &[u8]` is supported)", prm.line)
            self.declare(prm.name, ty, mut, prm.line)
            if mut:
                self.mut_params.append(prm.name)
            params.append("(%s : %s)" % (lean_name(prm.name), lean_type(ty)))
            sig.append("%s: %s" % (prm.name, show_type(prm.ty)))
            ptys.append(ty)
        if fn.owner is not None:
            if self.mut_params:
                raise Unsupported("`&mut` parameter on `%s::%s`" % (fn.owner, fn.name), fn.line)
            if fn.trait_arg is not None:
                want, _ = self.resolve_type(fn.trait_arg)
                if ptys != [want] or self.ret_ty != fn.owner:
                    raise Unsupported("`fn from` does not have the signature of `From<%s>` (rustc would reject)" % show_type(fn.trait_arg), fn.line)
        self.cf(fn.body, 1, ("tail",))
        rty = lean_type(self.ret_ty)
        if self.mut_params:
            rty = " × ".join([lean_type(self.lookup(n, fn.line).ty) for n in self.mut_params] + [rty])
        head = ["(%s : Bool)" % self.ov]
        if self.uses_utf8:
            if fn.owner is not None:
                raise Unsupported("`String::from_utf8` inside `%s::%s`" % (fn.owner, fn.name), fn.line)
            head.append("(utf8Ok : List UInt8 → Bool)")
        qual = "%s::%s" % (fn.owner, fn.name) if fn.owner else fn.name
        lname = "%s_%s" % (fn.owner, fn.name) if fn.owner else lean_name(fn.name)
        if fn.owner and (lname in self.idents):
            raise Unsupported("name `%s` is needed for the translation of `%s`" % (lname, qual), fn.line)
        out.append("-- L%d: fn %s(%s) -> %s%s" % (fn.line, qual, ", ".join(sig), show_type(fn.ret),
                                                  ("   [impl From<%s> for %s]" % (show_type(fn.trait_arg), fn.owner)) if fn.trait_arg else ""))
        if self.mut_params:
            out.append("/-- `%s`; the result is the tuple (%s, returned value) -/" % (qual, ", ".join("final `*%s`" % n for n in self.mut_params)))
        else:
            out.append("/-- `%s` -/" % qual)
        out.append("def %s %s : Res (%s) :=" % (lname, " ".join(head + params), rty))
        out.append("  Flow.run (")
        out.extend(self.lines)
        out.append("  )")
        out.append("")
        if fn.owner is not None:
            self.user_fns[(fn.owner, fn.name)] = (ptys, self.ret_ty, lname)
        self.self_ty = None


# --------------------------------------------------------------------------------------------
# fixed run-time support
# --------------------------------------------------------------------------------------------

SOCKS5_MARK = "/-- `protocol::socks5::Socks5AddressType`"


def prelude():
    text = ta.PRELUDE
    if SOCKS5_MARK not in text:
        raise OSError("translate_addr.PRELUDE has changed: marker %r not found" % SOCKS5_MARK)
    text = text.split(SOCKS5_MARK)[0].rstrip() + "\n"
    text = text.replace("@INTS@", ta.int_support())
    text += '''
/-- the call of a translated function: its value, or its panic -/
def Flow.call {τ ρ : Type} (r : Res τ) : Flow τ ρ :=
  match r with
  | .ok v => .next v
  | .panic => .panic
'''
    return text


def header(sources, p_by_role, fns):
    main = sources["core"]
    lines = []
    lines.append("/- GENERATED by translate_vmaddr.py — do not edit.")
    lines.append("   source: %s" % main[0])
    lines.append("   sha256: %s" % main[1])
    lines.append("   further sources (found relative to the first):")
    for role in ("address", "header", "server"):
        lines.append("     - %s: %s (sha256 %s)" % (role, sources[role][0], sources[role][1]))
    lines.append("")
    lines.append("   Statement-by-statement translation of %s" % ", ".join("`%s`" % (("%s::%s" % (f.owner, f.name)) if f.owner else f.name) for f in fns))
    lines.append("   (located by name: the two codec functions inside `mod address` of the first file, `enum Address` and its")
    lines.append("   `From<SocketAddr>` impl, `enum AddressType` with its discriminants and `AddressType::new`, and the free function")
    lines.append("   `check_header_length` of the server); nothing else is translated.")
    lines.append("   * u8/u16/u32/u64 = UIntN, usize = UInt64 (64-bit target), u128 = BitVec 128; `as` = zero-extension / truncation;")
    lines.append("     `+ - *` wrap and are preceded by `Flow.arith ov (...)` (panic when overflow-checks are on, `ov = true`);")
    lines.append("     `x >> n` / `x << n` only with a literal `n` below the width (no panic in any profile); `& | ^` bitwise.")
    lines.append("   * a local `const` is evaluated exactly by the translator (an overflow would be a compile error) and emitted as a `let`.")
    lines.append("   * `BytesMut`/`Bytes`/`&[u8]`/`Vec<u8>` = List UInt8 (a read cursor = the bytes that remain); `&`/`&mut`/`*` are")
    lines.append("     transparent; a `&mut` parameter is returned next to the result (its final content, also on `Err`; a panic")
    lines.append("     carries no state).")
    lines.append("   * `get_*`, `split_to`, `copy_to_bytes`, `advance` panic when fewer bytes remain; `b[i]` panics out of bounds;")
    lines.append("     `put_*`, `put_slice`, `extend_from_slice` append; `get_u16`/`put_u16` are big-endian.  `panic!(..)` = Flow.panic.")
    lines.append("   * `Result<T, E>` / `anyhow::Result<T>` = RResult T (`Ok(x)` = ok x; `bail!`/`e?` on `Err` = err; error values and")
    lines.append("     texts are not modelled); format arguments of `bail!`/`panic!` must be free of panics/effects (checked), dropped.")
    lines.append("   * `String` = its bytes; `String::from_utf8(v)` asks the parameter `utf8Ok`.  std::net types: see the support section.")
    lines.append("   * a call of a translated function (`AddressType::new`, `Address::from`) is `Flow.call`: its value or its panic.")
    lines.append("   * `match` on an enum is compiled to a case tree over the constructors in declaration order, `match` on an integer")
    lines.append("     to a decision tree over the literal patterns (first matching arm, guards tried in source order; a final")
    lines.append("     catch-all arm is required).  `Flow`: next | ret (return) | panic.  Lines `-- Ln:` quote the parsed Rust of line n.")
    lines.append("   skipped (not parsed, bracket matching only):")
    for role in ROLES:
        p = p_by_role[role]
        base = os.path.basename(sources[role][0])
        tag = "%s [%s]" % (base, role)
        if p.nuse:
            lines.append("     - %s: %d `use` items" % (tag, p.nuse))
        for s in p.skipped:
            lines.append("     - %s: %s" % (tag, s))
    lines.append("-/")
    return lines


def locate(path):
    here = os.path.dirname(os.path.abspath(path))
    cands = {
        "address": (os.path.join(here, "address.rs"), os.path.join(here, "address_type.rs")),
        "header": (os.path.join(here, "vmess", "header.rs"), os.path.join(here, "header.rs")),
        "server": (os.path.normpath(os.path.join(here, "..", "..", "..", "octo-squirrel-server", "src", "server", "vmess.rs")),
                   os.path.join(here, "server_vmess.rs")),
    }
    found = {"core": path}
    for role, cs in cands.items():
        hit = next((c for c in cs if os.path.exists(c)), None)
        if hit is None:
            raise Unsupported("source for `%s` not found (tried %s)" % (role, ", ".join(cs)), 1)
        found[role] = hit
    return found


def parse_source(path, role):
    data = open(path, "rb").read()
    try:
        src = data.decode("utf-8")
    except UnicodeDecodeError:
        raise Unsupported("non-UTF-8 source %s" % path, 1)
    toks = tn.tokenize(src)
    p = Parser(toks, role)
    try:
        p.parse_file()
    except Unsupported as u:
        raise Unsupported("%s [%s]" % (u.what, os.path.basename(path)), u.line)
    return data, toks, p


def by_name(p, owner, name, role, path):
    hits = [f for f in p.fns if f.owner == owner and f.name == name]
    qual = "%s::%s" % (owner, name) if owner else name
    if not hits:
        raise Unsupported("`fn %s` not found in %s [%s]" % (qual, path, role), 1)
    if len(hits) > 1:
        raise Unsupported("duplicate `fn %s` in %s" % (qual, path), hits[1].line)
    return hits[0]


def translate(path):
    if not os.path.isfile(path):
        raise OSError("%s: no such file" % path)
    files = locate(path)
    sources, parsers, idents = {}, {}, []
    for role in ROLES:
        data, toks, p = parse_source(files[role], role)
        sources[role] = (files[role], hashlib.sha256(data).hexdigest())
        parsers[role] = p
        idents += [t.text for t in toks if t.kind == "ident"]
    if parsers["core"].mods != 1:
        raise Unsupported("expected exactly one `mod %s { .. }` in %s, found %d" % (CORE_MOD, files["core"], parsers["core"].mods), 1)
    for role, name in (("address", ADDR_ENUM), ("header", TYPE_ENUM)):
        if len(parsers[role].enums) != 1:
            raise Unsupported("%s does not define exactly one `enum %s`" % (files[role], name), 1)
    fns = []
    froms = [f for f in parsers["address"].fns if f.name == "from"]
    if len(froms) > 1:
        raise Unsupported("more than one `impl From<..> for %s` (only `From<SocketAddr>` is supported)" % ADDR_ENUM, froms[1].line)
    fns += froms
    fns.append(by_name(parsers["header"], TYPE_ENUM, "new", "header", files["header"]))
    for n in CORE_FNS:
        fns.append(by_name(parsers["core"], None, n, "core", files["core"]))
    for n in SERVER_FNS:
        fns.append(by_name(parsers["server"], None, n, "server", files["server"]))
    role_of = {}
    for role in ROLES:
        for f in parsers[role].fns:
            role_of[id(f)] = role

    g = Gen(idents)
    g.out.extend(header(sources, parsers, fns))
    g.out.append("import Octo.Gen.PacketWindowGen")
    g.out.append("set_option linter.unusedVariables false")
    g.out.append("namespace Octo.VmessAddrGen")
    g.out.append("open Octo.PWGen")
    g.out.append(prelude())
    try:
        g.gen_enum(parsers["address"].enums[0], os.path.basename(files["address"]))
    except Unsupported as u:
        raise Unsupported("%s [%s]" % (u.what, os.path.basename(files["address"])), u.line)
    try:
        g.gen_enum(parsers["header"].enums[0], os.path.basename(files["header"]))
    except Unsupported as u:
        raise Unsupported("%s [%s]" % (u.what, os.path.basename(files["header"])), u.line)
    g.out.append("/-! ### functions -/")
    for f in fns:
        role = role_of[id(f)]
        g.out.append("-- from %s [%s]" % (os.path.basename(files[role]), role))
        try:
            g.gen_fn(f)
        except Unsupported as u:
            raise Unsupported("%s [%s]" % (u.what, os.path.basename(files[role])), u.line)
    g.out.append("end Octo.VmessAddrGen")
    return "\n".join(g.out) + "\n"


def main(argv):
    if len(argv) != 3:
        sys.stderr.write("usage: translate_vmaddr.py <path/to/protocol/vmess.rs> <out.lean>\n")
        return 2
    try:
        text = translate(argv[1])
    except Unsupported as u:
        sys.stderr.write("translate_vmaddr: unsupported: %s at line %d\n" % (u.what, u.line))
        return 3
    except OSError as e:
        sys.stderr.write("translate_vmaddr: %s\n" % e)
        return 2
    try:
        with open(argv[2], "w", encoding="utf-8") as f:
            f.write(text)
    except OSError as e:
        sys.stderr.write("translate_vmaddr: %s\n" % e)
        return 2
    return 0


if __name__ == "__main__":
    sys.exit(main(sys.argv))
