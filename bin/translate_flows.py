#!/usr/bin/env python3
"""Skeleton extractor for the per-FLOW relay functions of the proxy -> Lean 4 (`Octo.FlowsGen`).

usage:  translate_flows.py <root of a checkout of octo-squirrel> <out.lean>

Second entry point of translate_loops.py (same tokenizer, bracket matching and helpers; imported from there).  For each
target function it emits one value `Octo.FlowsGen.<name> : Octo.Flows.Flow`:
  (1) its await / `?` / return / loop sites in source order, with their nesting depth,
  (2) for every `X.forward(Y)` pump: the chain of stream adaptors between the base stream (a parameter, or a half of
      `.split()`) and `forward`, how the pump's result is mapped in the `Ok` and in the `Err` arm, the future it is bound to,
      and the macro that joins the pump futures,
  (3) the terminal ("failure") arms: arms of a `match` / `if let` / `if` that do not go on to relay while a sibling arm
      does, with the number of awaits and loops inside them and of awaits after the construct.
The reading rules are the trusted part; they are written into the header of the generated file (RULES).  Shapes the rules do
not cover are refused (exit 3), never guessed.

Exit status: 0 a Lean module was written; 2 usage / IO error; 3 unsupported construct (one line on stderr, nothing written).
"""
import hashlib
import os
import sys

sys.path.insert(0, os.path.dirname(os.path.abspath(__file__)))
from translate_pw import Unsupported  # noqa: E402
from translate_loops import File, LoopWalker, OPEN, lstr, lbool, param_names  # noqa: E402

SRV = "octo-squirrel-server/src/server/template.rs"
CLI = "octo-squirrel-client/src/client/template.rs"
# (file, fn, enclosing modules, name of the generated value)
TARGETS = [
    (SRV, "relay_to", (), "relay_to"),
    (SRV, "relay_tcp_bidirectional", (), "relay_tcp_bidirectional"),
    (SRV, "relay_udp_bidirectional", (), "relay_udp_bidirectional"),
    (SRV, "relay_bidirectional", (), "relay_bidirectional"),
    (SRV, "relay", ("tcp",), "tcp_relay"),
    (SRV, "accept_websocket_then_replay", ("tcp",), "tcp_accept_websocket_then_replay"),
    (SRV, "relay", ("quic",), "quic_relay"),
    (CLI, "try_transfer_tcp", (), "try_transfer_tcp"),
    (CLI, "relay_tcp", (), "relay_tcp"),
]
# calling one of these (or `.forward(..)`) is "going on to relay"
RELAY_CALLS = {"relay_to", "relay_tcp_bidirectional", "relay_udp_bidirectional", "relay_bidirectional", "relay_tcp", "relay"}
NEUTRAL_ADAPTORS = {"fuse", "boxed", "boxed_local", "peekable", "by_ref"}

RULES = r"""
   TRUSTED READING RULES (applied by translate_flows.py; everything proved in Lean is relative to them)

   Targets are located by function name and enclosing `mod` path (exactly one match each, else refused).

   (1) Sites, in source order: `await_` (`E.await`), `question` (`E?`), `return_` (`return`, `bail!`), `loop_` (`loop`, `while`,
   `for`), `join_` (`try_join!` / `join!` / `select!`).  `E` is the postfix chain in front of the token, `op` the last
   function / method called in it, `depth` the number of `{..}` groups between the function body and the token (0 = the
   function's own straight line; a match arm, an `if` block, an `async` block, a closure block each add one), `awaitFree`
   (for `question`) says that `E` contains no `.await`.

   (2) Pumps.  Every `S.forward(K)` in the body is a pump.  `S` must be `IDENT` followed by zero or more `.method(args)`;
   IDENT is resolved backwards through the `let [mut] IDENT = EXPR;` of the same body (the last one in front of the use,
   EXPR again `IDENT'` + methods, optionally inside `Box::pin(..)`) until a name is reached that is a parameter or is
   bound by a tuple pattern (`let (a, b) = x.split()`): that is the `base`.  The methods met on the way, base first, are
   the chain.  Adaptors are classified by shape:
       filter_map(|r| [path::]ready(r.ok()))                      dropErr       `Err` items are skipped
       take_while(|r| [path::]ready(r.is_ok())) , map_while(|r| [path::]ready(r.ok()))   endOnErr   the first `Err` ends the stream
       map(Ok)                                                    wrapOk        every item becomes `Ok(item)`
       map(PATH::into) , map(|x| x.into())                        mapInfallible
       map(PATH::try_into) , map(|x| x.try_into())                mapFallible   an item that does not convert becomes `Err`
       then(|r| async { match r { Ok(p) => Ok(..), Err(e) => Err(e) } })     thenPassErr  `Ok` items are transformed (may await), `Err` stay `Err`
       fuse() boxed() boxed_local() peekable() by_ref()           (no effect on items: left out of the chain)
       anything else                                              other         (counts as able to produce `Err`)
   The pump's result: `S.forward(K).await` must be the whole scrutinee of a `match` with exactly the arms `Ok(..) => A` and
   `Err(..) => B` (`okArmErr` / `errArmErr` = A / B begin with the constructor `Err`), or be the last expression of its block
   (then `Ok` stays `Ok`: okArmErr = false, errArmErr = true); any other consumption is refused.  `future` = the `NAME` of
   the enclosing `let NAME = async {..};` ("" if there is none).  `join` = the macro whose arguments are the pump futures:
   `tokio::try_join!` / `futures::try_join!` (tryJoin), `join!` (join), `select!` (select), none; `joined` = its arguments.

   Hand-overs.  An argument of a call of one of the relay functions below that is a bare identifier resolving (as above) to a
   non-empty chain is listed in `handOvers` (callee, argument position, chain): the callee's pumps see that chain in front
   of their own.

   (3) Terminal arms.  A `match` / `if let` / `if .. else` is a fork when the body of at least one of its arms (branches)
   contains a call `f(..)` with f one of """ + ", ".join(sorted(RELAY_CALLS)) + r""" or a `.forward(..)`;
   the arms of a fork that contain none are its terminal arms: the flow ends there (connect failed, name not resolved,
   bind failed, first message not a connect, decode error, end of stream, handshake failed).  For each: `scrutinee`,
   `pattern`, `awaits` / `loops` = number of `.await` / of `loop`,`while`,`for` inside the arm (closures and nested blocks
   included), `awaitsAfter` = number of `.await` between the end of the OUTERMOST fork that contains the arm and the end of
   the function.  A missing `else` is an empty terminal arm and is not listed.

   Not covered: what the called functions do inside (each target is read on its own; `relay_to` is read where it is
   defined, not where it is called), drop order, and the behaviour of `forward` / `try_join!` themselves (modelled in
   Octo.Model.Flows from the futures-util / tokio documentation).
"""


def mods_of(f, i):
    """names of the `mod NAME {` groups that contain token i, outermost first"""
    out = []
    for o, c in f.match.items():
        if o < i < c and f.is_p(o, "{") and o >= 2 and f.is_id(o - 1) and f.is_id(o - 2, "mod"):
            out.append((o, f.toks[o - 1].text))
    return tuple(n for _, n in sorted(out))


def find_target(f, fn, mods):
    hits = [i for i in range(len(f.toks) - 1) if f.is_id(i, "fn") and f.is_id(i + 1, fn) and mods_of(f, i) == mods]
    if len(hits) != 1:
        raise Unsupported("expected exactly one `fn %s` in module path %s, found %d" % (fn, "::".join(mods) or "(top level)", len(hits)), 0)
    i = hits[0]
    k = i + 2
    if f.is_p(k, "<"):
        depth = 0
        while True:
            if f.is_p(k, "<"):
                depth += 1
            elif f.is_p(k, ">"):
                depth -= 1
            elif f.is_p(k, ">>"):
                depth -= 2
            elif f.toks[k].kind == "punct" and f.toks[k].text in OPEN:
                k = f.match[k]
            k += 1
            if depth <= 0:
                break
    if not f.is_p(k, "("):
        raise Unsupported("parameter list of `fn %s`" % fn, f.toks[i].line)
    params = (k + 1, f.match[k])
    b = f.find_top(f.match[k] + 1, len(f.toks), lambda j: f.is_p(j, "{") or f.is_p(j, ";"))
    if b < 0 or not f.is_p(b, "{"):
        raise Unsupported("body of `fn %s`" % fn, f.toks[i].line)
    return i, params, (b + 1, f.match[b])


class FlowReader:
    def __init__(self, f, fn, params, body):
        self.f, self.fn = f, fn
        self.toks, self.match = f.toks, f.match
        self.lo, self.hi = body
        self.params = set(param_names(f, params[0], params[1]))
        self.h = LoopWalker(f, fn, body[0], body[1], {}, "flow")   # helper: chain_back / last_call_name / render

    def fail(self, what, i):
        raise Unsupported("%s: %s" % (self.fn, what), self.toks[i].line)

    def depth(self, i):
        d = 0
        for o, c in self.match.items():
            if self.lo <= o < i < c <= self.hi and self.f.is_p(o, "{"):
                d += 1
        return d

    # ---- (1) sites ----------------------------------------------------------------------------------------------
    def sites(self):
        f, out = self.f, []
        for i in range(self.lo, self.hi):
            t = self.toks[i]
            if t.kind == "punct" and t.text == "?":
                s = self.h.chain_back(i - 1)
                out.append(dict(idx=i, kind="question", op=self.h.last_call_name(s, i), text=f.render(s, i),
                                awaitFree=not any(f.is_id(k, "await") for k in range(s, i))))
            elif t.kind == "ident":
                after_dot = f.is_p(i - 1, ".")
                if t.text == "await" and after_dot:
                    s = self.h.chain_back(i - 2)
                    out.append(dict(idx=i, kind="await_", op=self.h.last_call_name(s, i - 1), text=f.render(s, i - 1), awaitFree=False))
                elif after_dot:
                    continue
                elif t.text == "return":
                    out.append(dict(idx=i, kind="return_", op="return", text="return", awaitFree=True))
                elif t.text == "bail" and f.is_p(i + 1, "!"):
                    out.append(dict(idx=i, kind="return_", op="bail", text="bail!(..)", awaitFree=True))
                elif t.text in ("loop", "while", "for") and not f.is_p(i + 1, "!"):
                    if t.text == "for" and not self._is_for_loop(i):
                        continue
                    b = f.find_top(i + 1, self.hi, lambda k: f.is_p(k, "{"))
                    out.append(dict(idx=i, kind="loop_", op=t.text, text=f.render(i, b if b > 0 else i + 1), awaitFree=True))
                elif t.text in ("try_join", "join", "select") and f.is_p(i + 1, "!"):
                    out.append(dict(idx=i, kind="join_", op=t.text, text=f.render(i, self.match[i + 2] + 1), awaitFree=True))
        for s in out:
            s["line"] = self.toks[s["idx"]].line
            s["depth"] = self.depth(s["idx"])
        return out

    def _is_for_loop(self, i):
        # `for PAT in EXPR {` (not `impl X for Y`, not `for<'a>`)
        b = self.f.find_top(i + 1, self.hi, lambda k: self.f.is_p(k, "{") or self.f.is_p(k, ";"))
        return b > 0 and self.f.is_p(b, "{") and self.f.find_top(i + 1, b, lambda k: self.f.is_id(k, "in")) > 0

    # ---- (2) pumps ----------------------------------------------------------------------------------------------
    def parse_chain(self, lo, hi):
        """[lo,hi) = IDENT (.method(args))*  ->  (ident index, [(method index, args lo, args hi)])"""
        f = self.f
        if f.is_id(lo, "Box") and f.is_p(lo + 1, "::") and f.is_id(lo + 2, "pin") and f.is_p(lo + 3, "(") and self.match[lo + 3] == hi - 1:
            return self.parse_chain(lo + 4, hi - 1)
        if not f.is_id(lo):
            return None
        k, methods = lo + 1, []
        while k < hi:
            if f.is_p(k, ".") and f.is_id(k + 1) and f.is_p(k + 2, "(") and self.match[k + 2] < hi:
                methods.append((k + 1, k + 3, self.match[k + 2]))
                k = self.match[k + 2] + 1
            else:
                return None
        return lo, methods

    def classify_adaptor(self, m, alo, ahi):
        f, name = self.f, self.toks[m].text
        texts = [self.toks[k].text for k in range(alo, ahi)]

        def closure_of():   # |x| BODY  ->  (x, body texts)
            if len(texts) >= 3 and texts[0] == "|" and texts[2] == "|" and f.is_id(alo + 1):
                return texts[1], texts[3:]
            return None, None
        x, body = closure_of()

        def ready_of(inner):   # [path::]ready ( inner.. )
            if body is None:
                return False
            k = 0
            while k + 1 < len(body) and body[k + 1] == "::":
                k += 2
            return body[k:] == ["ready", "("] + inner + [")"]
        if name in NEUTRAL_ADAPTORS and not texts:
            return None
        if name == "filter_map" and x and ready_of([x, ".", "ok", "(", ")"]):
            return "dropErr"
        if name == "take_while" and x and ready_of([x, ".", "is_ok", "(", ")"]):
            return "endOnErr"
        if name == "map_while" and x and ready_of([x, ".", "ok", "(", ")"]):
            return "endOnErr"
        if name == "map":
            if texts == ["Ok"]:
                return "wrapOk"
            if len(texts) >= 3 and texts[-2] == "::" and all(t == "::" or t[0].isalpha() or t[0] == "_" for t in texts):
                if texts[-1] == "into":
                    return "mapInfallible"
                if texts[-1] == "try_into":
                    return "mapFallible"
            if x and body == [x, ".", "into", "(", ")"]:
                return "mapInfallible"
            if x and body == [x, ".", "try_into", "(", ")"]:
                return "mapFallible"
        if name == "then" and x and len(body) >= 3 and body[0] == "async":
            k = 1 if body[1] != "move" else 2
            # async { match x { Ok(p) => Ok(..), Err(e) => Err(e) [,] } }
            blk = alo + 3 + k
            if f.is_p(blk, "{") and self.match[blk] == ahi - 1 and f.is_id(blk + 1, "match") and f.is_id(blk + 2, x) and f.is_p(blk + 3, "{") \
                    and self.match[blk + 3] == ahi - 2:
                arms = self.arms_of(blk + 3)
                if len(arms) == 2:
                    (p1, b1), (p2, b2) = arms
                    t1 = [self.toks[k].text for k in range(*p1)]
                    t2 = [self.toks[k].text for k in range(*p2)]
                    bt2 = [self.toks[k].text for k in range(*b2)]
                    if t1[:2] == ["Ok", "("] and f.is_id(b1[0], "Ok") and f.is_p(b1[0] + 1, "(") and self.match[b1[0] + 1] == b1[1] - 1 \
                            and len(t2) == 4 and t2[:2] == ["Err", "("] and bt2 == ["Err", "(", t2[2], ")"]:
                        return "thenPassErr"
        return "other"

    def arms_of(self, b):
        """arms of the match whose `{` is at b: [((pat lo, pat hi), (body lo, body hi))]"""
        f, close, p, out = self.f, self.match[b], b + 1, []
        while p < close:
            arrow = f.find_top(p, close, lambda k: f.is_p(k, "=>"))
            if arrow < 0:
                self.fail("match arm without `=>`", p)
            if f.is_p(arrow + 1, "{"):
                body = (arrow + 2, self.match[arrow + 1])
                nxt = self.match[arrow + 1] + 1
            else:
                comma = self.arm_end(arrow + 1, close)
                body = (arrow + 1, comma)
                nxt = body[1]
            if nxt < close and f.is_p(nxt, ","):
                nxt += 1
            out.append(((p, arrow), body))
            p = nxt
        return out

    def arm_end(self, lo, close):
        """index of the top-level `,` that ends the brace-less arm body starting at lo (a `,` inside a turbofish `::<..>` is not one)"""
        f, k = self.f, lo
        while k < close:
            if f.toks[k].kind == "punct" and f.toks[k].text in OPEN:
                k = self.match[k] + 1
                continue
            if f.is_p(k, "::") and f.is_p(k + 1, "<"):
                depth, k = 1, k + 2
                while k < close and depth > 0:
                    if f.toks[k].kind == "punct" and f.toks[k].text in OPEN:
                        k = self.match[k] + 1
                        continue
                    if f.is_p(k, "<"):
                        depth += 1
                    elif f.is_p(k, ">"):
                        depth -= 1
                    elif f.is_p(k, ">>"):
                        depth -= 2
                    k += 1
                continue
            if f.is_p(k, ","):
                return k
            k += 1
        return close

    def resolve(self, ident_idx, use_idx, seen):
        """chain (base first) of the stream named at ident_idx as it is at token use_idx: (base text, [(kind, text)])"""
        f = self.f
        name = self.toks[ident_idx].text
        # the last `let [mut] name = ..;` in front of use_idx (simple pattern), or a tuple pattern / parameter
        best = None
        for i in range(self.lo, use_idx):
            if not f.is_id(i, "let"):
                continue
            k = i + 1
            if f.is_id(k, "mut"):
                k += 1
            if f.is_id(k, name) and (f.is_p(k + 1, "=") or f.is_p(k + 1, ":")):
                eq = f.find_top(k + 1, self.hi, lambda j: f.is_p(j, "="))
                semi = f.find_top(eq + 1, self.hi, lambda j: f.is_p(j, ";"))
                if eq > 0 and semi > 0 and semi < use_idx:
                    best = ("let", eq + 1, semi, i)
            elif f.is_p(k, "("):
                close = self.match[k]
                if any(f.is_id(j, name) for j in range(k + 1, close)) and f.is_p(close + 1, "="):
                    semi = f.find_top(close + 2, self.hi, lambda j: f.is_p(j, ";"))
                    if semi > 0 and semi < use_idx:
                        best = ("tuple", close + 2, semi, i)
        if best is None:
            if name in self.params:
                return "parameter `%s`" % name, []
            self.fail("the stream `%s` is neither a parameter nor bound by a `let` of this function" % name, ident_idx)
        kind, lo, hi, at = best
        if kind == "tuple":
            return "`%s` of `let %s`" % (name, f.render(at + 1, hi)), []
        if at in seen:
            self.fail("cyclic stream definition `%s`" % name, at)
        parsed = self.parse_chain(lo, hi)
        if parsed is None:
            self.fail("the definition of the stream `%s` is not `IDENT.method(..)..`" % name, lo)
        base_idx, methods = parsed
        base, chain = self.resolve(base_idx, at, seen | {at})
        return base, chain + self.adaptors(methods)

    def adaptors(self, methods):
        out = []
        for m, alo, ahi in methods:
            kind = self.classify_adaptor(m, alo, ahi)
            if kind is not None:
                out.append((kind, self.f.render(m, ahi + 1)))
        return out

    def pumps(self):
        f, out = self.f, []
        for i in range(self.lo, self.hi):
            if not (f.is_id(i, "forward") and f.is_p(i - 1, ".") and f.is_p(i + 1, "(")):
                continue
            close = self.match[i + 1]
            s = self.h.chain_back(i - 2)
            parsed = self.parse_chain(s, i - 1)
            if parsed is None:
                self.fail("the source of `.forward(..)` is not `IDENT.method(..)..`", i)
            base_idx, methods = parsed
            base, chain = self.resolve(base_idx, s, frozenset())
            chain = chain + self.adaptors(methods)
            # result mapping
            if not (f.is_p(close + 1, ".") and f.is_id(close + 2, "await")):
                self.fail("`.forward(..)` that is not awaited in place", i)
            after = close + 3
            ok_err = err_err = None
            ok_text = err_text = ""
            if f.is_id(s - 1, "match") and f.is_p(after, "{"):
                arms = self.arms_of(after)
                pats = [[self.toks[k].text for k in range(*p)] for p, _ in arms]
                if len(arms) != 2 or pats[0][:2] != ["Ok", "("] or pats[1][:2] != ["Err", "("]:
                    self.fail("the result of `.forward(..).await` is not matched by exactly `Ok(..) =>` and `Err(..) =>`", after)
                ok_err = f.is_id(arms[0][1][0], "Err")
                err_err = f.is_id(arms[1][1][0], "Err")
                ok_text, err_text = f.render(*arms[0][1]), f.render(*arms[1][1])
            elif f.is_p(after, "}") and (f.is_p(s - 1, "{") or f.is_p(s - 1, ";")):
                ok_err, err_err = False, True
                ok_text, err_text = "(the result of forward as it is)", "(the result of forward as it is)"
            else:
                self.fail("the result of `.forward(..).await` is consumed in a way the rules do not cover", after)
            # enclosing `let NAME = async [move] {`
            future = ""
            best = None
            for o, c in self.match.items():
                if self.lo <= o < i < c <= self.hi and f.is_p(o, "{") and (best is None or o > best):
                    k = o - 1
                    if f.is_id(k, "move"):
                        k -= 1
                    if f.is_id(k, "async") and f.is_p(k - 1, "=") and f.is_id(k - 2) and f.is_id(k - 3, "let"):
                        best = o
                        future = self.toks[k - 2].text
            out.append(dict(idx=i, line=self.toks[i].line, future=future, source=f.render(s, i - 1), sink=f.render(i + 2, close), base=base,
                            chain=chain, okArmErr=ok_err, errArmErr=err_err, okArm=ok_text, errArm=err_text))
        return out

    def hand_overs(self):
        """arguments of calls of relay functions that are adapted streams of this function: (line, callee, position, name, chain)"""
        f, out = self.f, []
        for i in range(self.lo, self.hi):
            if not (f.is_id(i) and self.toks[i].text in RELAY_CALLS and f.is_p(i + 1, "(") and not f.is_p(i - 1, ".") and not f.is_id(i - 1, "fn")):
                continue
            close, p, pos = self.match[i + 1], i + 2, 0
            while p < close:
                comma = f.find_top(p, close, lambda k: f.is_p(k, ","))
                end = comma if comma >= 0 else close
                if end - p == 1 and f.is_id(p):
                    try:
                        base, chain = self.resolve(p, i, frozenset())
                    except Unsupported:
                        chain = []
                    if chain:
                        out.append(dict(line=self.toks[i].line, callee=self.toks[i].text, pos=pos, name=self.toks[p].text, base=base, chain=chain))
                p, pos = end + 1, pos + 1
        return out

    def join(self):
        f = self.f
        found = []
        for i in range(self.lo, self.hi):
            if f.is_id(i) and self.toks[i].text in ("try_join", "join", "select") and f.is_p(i + 1, "!") and self.toks[i + 2].text in OPEN:
                args = [self.toks[k].text for k in range(i + 3, self.match[i + 2]) if f.is_id(k)]
                found.append(({"try_join": "tryJoin", "join": "join", "select": "select"}[self.toks[i].text], args))
        if len(found) > 1:
            self.fail("more than one join macro", self.lo)
        return found[0] if found else ("none", [])

    # ---- (3) terminal arms --------------------------------------------------------------------------------------
    def relays(self, lo, hi):
        f = self.f
        for k in range(lo, hi):
            if f.is_id(k) and f.is_p(k + 1, "("):
                if self.toks[k].text == "forward" and f.is_p(k - 1, "."):
                    return True
                if self.toks[k].text in RELAY_CALLS and not f.is_p(k - 1, "."):
                    return True
        return False

    def count(self, lo, hi):
        f = self.f
        awaits = sum(1 for k in range(lo, hi) if f.is_id(k, "await") and f.is_p(k - 1, "."))
        loops = sum(1 for k in range(lo, hi) if f.is_id(k) and self.toks[k].text in ("loop", "while", "for") and not f.is_p(k - 1, ".")
                    and (self.toks[k].text != "for" or self._is_for_loop(k)))
        return awaits, loops

    def forks(self, lo, hi, outer_end, out):
        """scans [lo,hi) for forks; outer_end = end of the outermost fork around (None at top level)"""
        f = self.f
        i = lo
        while i < hi:
            if f.is_id(i, "match") and not f.is_p(i - 1, "."):
                b = f.find_top(i + 1, hi, lambda k: f.is_p(k, "{"))
                if b < 0:
                    self.fail("`match` without a block", i)
                arms = self.arms_of(b)
                end = self.match[b] + 1
                o_end = outer_end if outer_end is not None else end
                scrut = f.render(i + 1, b)
                branches = [(f.render(*p), body) for p, body in arms]
                self._fork(i, scrut, branches, o_end, out)
                i = end
                continue
            if f.is_id(i, "if") and not f.is_p(i - 1, "."):
                b = f.find_top(i + 1, hi, lambda k: f.is_p(k, "{"))
                if b < 0:
                    self.fail("`if` without a block", i)
                if f.is_id(i + 1, "let"):
                    eq = f.find_top(i + 2, b, lambda k: f.is_p(k, "="))
                    scrut, pat = f.render(eq + 1, b), f.render(i + 2, eq)
                else:
                    scrut, pat = f.render(i + 1, b), "true"
                branches = [(pat, (b + 1, self.match[b]))]
                k = self.match[b] + 1
                while k < hi and f.is_id(k, "else"):
                    if f.is_id(k + 1, "if"):
                        b2 = f.find_top(k + 2, hi, lambda j: f.is_p(j, "{"))
                        branches.append(("else if " + f.render(k + 2, b2), (b2 + 1, self.match[b2])))
                        k = self.match[b2] + 1
                    elif f.is_p(k + 1, "{"):
                        branches.append(("else", (k + 2, self.match[k + 1])))
                        k = self.match[k + 1] + 1
                        break
                    else:
                        self.fail("`else` without block", k)
                o_end = outer_end if outer_end is not None else k
                self._fork(i, scrut, branches, o_end, out)
                i = k
                continue
            i += 1

    def _fork(self, at, scrut, branches, o_end, out):
        flags = [self.relays(lo, hi) for _, (lo, hi) in branches]
        is_fork = any(flags)
        for (pat, (lo, hi)), r in zip(branches, flags):
            if is_fork and not r:
                awaits, loops = self.count(lo, hi)
                after, _ = self.count(o_end, self.hi)
                out.append(dict(idx=lo, line=self.toks[lo].line if lo < hi else self.toks[at].line, scrutinee=scrut, pattern=pat,
                                awaits=awaits, loops=loops, awaitsAfter=after, text=self.f.render(lo, hi, 110)))
            # nested forks: in a fork, what follows the outermost one counts; outside any fork, start afresh
            self.forks(lo, hi, o_end if is_fork else None, out)

    def terminal_arms(self):
        out = []
        self.forks(self.lo, self.hi, None, out)
        out.sort(key=lambda a: a["idx"])
        return out


def extract(root):
    files, flows = {}, []
    for rel, fn, mods, name in TARGETS:
        if rel not in files:
            files[rel] = File(os.path.join(root, rel))
        f = files[rel]
        fn_idx, params, body = find_target(f, fn, mods)
        r = FlowReader(f, "::".join(mods + (fn,)), params, body)
        kind, joined = r.join()
        flows.append(dict(name=name, file=rel, fn="::".join(mods + (fn,)), line=f.toks[fn_idx].line, sites=r.sites(), pumps=r.pumps(),
                          join=kind, joined=joined, arms=r.terminal_arms(), hand=r.hand_overs()))
    return files, flows


def emit(root, files, flows):
    out = []
    out.append("/- GENERATED by translate_flows.py — do not edit.")
    out.append("   source: %s (root of the checkout)" % root)
    h = hashlib.sha256()
    for rel in sorted(files):
        h.update(files[rel].sha.encode())
    out.append("   sha256: %s (of the sha256 of the files below, in this order)" % h.hexdigest())
    for rel in sorted(files):
        out.append("     - %s (sha256 %s)" % (rel, files[rel].sha))
    out.append("   flows: " + ", ".join("%s (%s:%d; %d sites, %d pumps, %d terminal arms)" % (
        x["name"], x["file"].split("/")[-1], x["line"], len(x["sites"]), len(x["pumps"]), len(x["arms"])) for x in flows))
    out.append("   assumed externals: none are called - operations are named, not modelled; `forward`, `try_join!` and the adaptors are")
    out.append("   modelled in Octo.Model.Flows.")
    out.append(RULES.rstrip("\n"))
    out.append("-/")
    out.append("import Octo.Model.Flows")
    out.append("")
    out.append("namespace Octo.FlowsGen")
    out.append("open Octo.Flows")
    out.append("")
    for x in flows:
        out.append("/-- `%s` of %s, line %d -/" % (x["fn"], x["file"], x["line"]))
        out.append("def %s : Flow :=" % x["name"])
        out.append("  { name := %s, file := %s, fn := %s, line := %d," % (lstr(x["name"]), lstr(x["file"]), lstr(x["fn"]), x["line"]))
        out.append("    sites := [")
        out.append(",\n".join("      { line := %d, kind := .%s, op := %s, text := %s, depth := %d, awaitFree := %s }" % (
            s["line"], s["kind"], lstr(s["op"]), lstr(s["text"]), s["depth"], lbool(s["awaitFree"])) for s in x["sites"]))
        out.append("    ],")
        out.append("    pumps := [")
        out.append(",\n".join(
            "      { line := %d, future := %s, source := %s, sink := %s, base := %s,\n        chain := [%s],\n        chainText := [%s],\n"
            "        okArmErr := %s, errArmErr := %s, okArm := %s, errArm := %s }" % (
                p["line"], lstr(p["future"]), lstr(p["source"]), lstr(p["sink"]), lstr(p["base"]),
                ", ".join("." + k for k, _ in p["chain"]), ", ".join(lstr(t) for _, t in p["chain"]),
                lbool(p["okArmErr"]), lbool(p["errArmErr"]), lstr(p["okArm"]), lstr(p["errArm"])) for p in x["pumps"]))
        out.append("    ],")
        out.append("    join := .%s, joined := [%s]," % (x["join"], ", ".join(lstr(a) for a in x["joined"])))
        out.append("    handOvers := [")
        out.append(",\n".join("      { line := %d, callee := %s, position := %d, name := %s, base := %s, chain := [%s], chainText := [%s] }" % (
            h["line"], lstr(h["callee"]), h["pos"], lstr(h["name"]), lstr(h["base"]), ", ".join("." + k for k, _ in h["chain"]),
            ", ".join(lstr(t) for _, t in h["chain"])) for h in x["hand"]))
        out.append("    ],")
        out.append("    terminalArms := [")
        out.append(",\n".join("      { line := %d, scrutinee := %s, pattern := %s, awaits := %d, loops := %d, awaitsAfter := %d,\n        text := %s }" % (
            a["line"], lstr(a["scrutinee"]), lstr(a["pattern"]), a["awaits"], a["loops"], a["awaitsAfter"], lstr(a["text"])) for a in x["arms"]))
        out.append("    ] }")
        out.append("")
    out.append("/-- every extracted flow skeleton, in the order of the target list -/")
    out.append("def flows : List Flow := [%s]" % ", ".join(x["name"] for x in flows))
    out.append("")
    out.append("end Octo.FlowsGen")
    return "\n".join(out) + "\n"


def main(argv):
    if len(argv) != 3:
        sys.stderr.write("usage: translate_flows.py <root of a checkout> <out.lean>\n")
        return 2
    root, dst = argv[1], argv[2]
    try:
        files, flows = extract(root)
    except (IOError, OSError) as e:
        sys.stderr.write("translate_flows: %s\n" % e)
        return 2
    except Unsupported as e:
        sys.stderr.write("translate_flows: unsupported: %s (line %s)\n" % (e.what, e.line))
        return 3
    text = emit(root, files, flows)
    try:
        with open(dst, "w") as fh:
            fh.write(text)
    except (IOError, OSError) as e:
        sys.stderr.write("translate_flows: %s\n" % e)
        return 2
    return 0


if __name__ == "__main__":
    sys.exit(main(sys.argv))
