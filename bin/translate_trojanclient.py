#!/usr/bin/env python3
"""Rust-subset -> Lean 4 translator for the Trojan client codecs `octo-squirrel-client/src/client/trojan.rs`.

usage:  translate_trojanclient.py <path/to/octo-squirrel-client/src/client/trojan.rs> <out.lean>

Translated from the argument (located by name): every top-level `enum` (here `CodecState`) and, inside each of the
inline modules `mod tcp { .. }` and `mod udp { .. }`: `struct ClientCodec` (emitted as `TcpClientCodec` /
`UdpClientCodec`: the two structs have the same Rust name) and every method of `impl Encoder<..> for ClientCodec` and
`impl Decoder for ClientCodec` (`encode`, `decode`).  Everything else is skipped by balanced-bracket matching and listed
in the generated header: the inherent `impl ClientCodec { fn new }` (SHA-224 + hex of the password: `key` is just a field
of the generated structure), the free functions (`new_codec`, `new_key`, `new_*_outbound`, `to_outbound_send`,
`to_inbound_recv`), cfg-gated items.

Four more source files are read; they are found relative to the argument (`<root>` = three directories above the
argument's directory, i.e. the workspace), or - for copies kept in one directory - under the flat name:

  consts    <root>/octo-squirrel/src/protocol/trojan.rs  | <dir>/protocol_trojan.rs       `const CR_LF`
  address   <root>/octo-squirrel/src/protocol/address.rs | <dir>/address_type.rs          `enum Address`
  codec     <root>/octo-squirrel/src/protocol/socks5/address.rs | <dir>/socks5_address.rs
                                                                   signatures of `encode`, `decode`, `try_decode_at` (their bodies are
                                                                   `Octo/Gen/AddrGen.lean`, written by translate_addr.py from the same file)
  datagram  <root>/octo-squirrel/src/codec.rs | <dir>/codec.rs     `type DatagramPacket = (BytesMut, Address);` (read, not assumed)

Tokenizer of translate_nonce.py, parser / type checker / emitter of translate_addr.py as extended by translate_trojan.py
(imported, subclassed), extended here by: items nested in the inline modules `tcp` / `udp` with their own `use` items
(name binding is per module; `CodecState` must be `use super::CodecState`), `matches!(x, A | B)` on an enum without
fields, tuple field access `item.0` / `item.1`, tuple expressions `(a, b)`, a type alias read from another file, and the
local buffer `let buffer = &mut BytesMut::new();`.

Exit status:
  0  a Lean module was written
  2  usage / IO error (also: an `AddrGen.lean` next to the output that was generated from another `address.rs`)
  3  a construct outside the supported subset inside a target item (or a target item / source file is missing);
     one line on stderr; nothing is written (never a guess).
"""
import hashlib
import os
import re
import sys

sys.path.insert(0, os.path.dirname(os.path.abspath(__file__)))
import translate_pw as pw  # noqa: E402
import translate_nonce as tn  # noqa: E402
import translate_addr as ta  # noqa: E402
import translate_trojan as tt  # noqa: E402
from translate_pw import Unsupported, Node  # noqa: E402
from translate_addr import is_bytes, Var  # noqa: E402
from translate_trojan import lean_name, lean_type, type_str, SELF_NAME, KNOWN_NAMED  # noqa: E402

TARGET_STRUCT = "ClientCodec"
TARGET_MODS = ("tcp", "udp")
TARGET_TRAITS = ("Decoder", "Encoder")
ALIAS = "DatagramPacket"

tt.USE_SUFFIX[ALIAS] = ["codec", ALIAS]


def struct_name(mod):
    return mod[:1].upper() + mod[1:] + TARGET_STRUCT


# --------------------------------------------------------------------------------------------
# printing of the new expression forms (comments in the generated file, messages)
# --------------------------------------------------------------------------------------------

_tt_show_expr = tt.show_expr


def show_expr(e):
    if e.kind == "tfield":
        return "%s.%d" % (show_expr(e.base), e.idx)
    if e.kind == "tuple":
        return "(%s)" % ", ".join(show_expr(x) for x in e.elems)
    return _tt_show_expr(e)


tt.show_expr = show_expr
ta.show_expr = show_expr


# --------------------------------------------------------------------------------------------
# parser
# --------------------------------------------------------------------------------------------

class Parser(tt.Parser):
    """`role`: main | consts | address | datagram"""

    def __init__(self, toks, role):
        tt.Parser.__init__(self, toks, role)
        self.mods = {}        # name -> {"line", "uses", "structs", "impls"}
        self.cur_mod = None
        self.alias = None     # Node typealias(name, ty)

    def wanted_impl(self, trait, targs, ty):
        if self.role == "main":
            return self.cur_mod is not None and ty == TARGET_STRUCT and trait in TARGET_TRAITS
        return False

    def parse_items(self, depth, stop):
        if self.role not in ("main", "datagram"):
            return tt.Parser.parse_items(self, depth, stop)
        while not (self.tok.kind == "eof" or (stop == "}" and self.at("}"))):
            if self.at(";"):
                self.advance()
                continue
            first = self.tok
            attrs = self.parse_attrs()
            self.parse_vis()
            t = self.tok
            nxt = self.peek()
            gated = any(re.sub(r"\s+", "", text).startswith(("cfg(", "test")) for text, _ in attrs)
            kw = t.text
            name = nxt.text if nxt.kind == "ident" else ""
            where = ("%s::" % self.cur_mod) if self.cur_mod else ""
            if self.role == "datagram":
                if self.at("use") and not gated:
                    self.parse_use()
                elif self.at("type") and name == ALIAS:
                    if gated:
                        raise Unsupported("cfg-gated `type %s`" % ALIAS, t.line)
                    if self.alias is not None:
                        raise Unsupported("`type %s` defined twice" % ALIAS, t.line)
                    self.advance()
                    self.advance()
                    if self.at("<"):
                        raise Unsupported("generic `type %s`" % ALIAS, t.line)
                    self.expect("=")
                    ty = self.parse_type()
                    self.expect(";")
                    self.alias = Node("typealias", t.line, name=ALIAS, ty=ty)
                else:
                    self.skip_item()
                continue
            if gated:
                end = self.skip_item()
                self.note_skip("cfg/test-gated %s %s%s" % (kw, where, name), first.line, end)
                continue
            if self.at("use"):
                self.parse_use()
                continue
            if self.at("mod") and self.peek(2).text == "{":
                if depth == 0 and name in TARGET_MODS:
                    if name in self.mods:
                        raise Unsupported("`mod %s` defined twice" % name, t.line)
                    self.advance()
                    self.advance()
                    self.expect("{")
                    outer_uses = self.uses
                    self.uses = {}
                    self.cur_mod = name
                    self.mods[name] = {"line": t.line, "uses": self.uses, "structs": [], "impls": []}
                    self.parse_items(depth + 1, "}")
                    self.expect("}")
                    self.cur_mod = None
                    self.uses = outer_uses
                    continue
                end = self.skip_item()
                self.note_skip("mod %s%s" % (where, name), first.line, end)
                continue
            if t.kind == "ident" and kw in ("struct", "enum", "union", "trait", "type", "mod", "fn", "const", "static") \
                    and (name in tt.LIB_NAMES or name == ALIAS):
                raise Unsupported("`%s %s`: a local definition of a name the translator reads as a library name" % (kw, name), t.line)
            if self.at("enum") and depth == 0:
                self.check_attrs(attrs)
                self.enums.append(self.parse_enum())
                continue
            if t.kind == "ident" and kw in ("struct", "enum", "union", "trait", "type", "const", "static") and depth > 0 \
                    and name in [e.name for e in self.enums]:
                raise Unsupported("`%s %s` inside `mod %s` shadows the top-level enum" % (kw, name, self.cur_mod), t.line)
            if self.at("struct") and self.cur_mod is not None and name == TARGET_STRUCT:
                self.check_attrs(attrs)
                self.mods[self.cur_mod]["structs"].append(self.parse_struct())
                continue
            if self.at("impl"):
                hdr = self.impl_header()
                if hdr is not None and self.wanted_impl(*hdr[:3]):
                    self.check_attrs(attrs)
                    im = self.parse_impl(hdr)
                    self.mods[self.cur_mod]["impls"].append(im)
                    continue
                end = self.skip_item()
                self.note_skip("impl block `%s` in %s" % (self.header_text(first), ("mod " + self.cur_mod) if self.cur_mod else "the file"),
                               first.line, end)
                continue
            if self.at("macro_rules") and nxt.text == "!":
                name = self.peek(2).text
            is_async = self.at("async") and nxt.text == "fn"
            if is_async:
                name = self.peek(2).text
                kw = "async fn"
            end = self.skip_item()
            what = "%s %s%s" % (kw, where, name) if name else "item starting with `%s`" % kw
            self.note_skip(what, first.line, end)

    # -- expressions: tuple field access, tuple expressions
    def parse_postfix(self, ns):
        """the postfix loop of translate_trojan's parser, with `.0` / `.1` added"""
        e = self.parse_primary(ns)
        while True:
            if self.at("."):
                line = self.advance().line
                if self.tok.kind == "int":
                    t = self.advance()
                    if not re.fullmatch(r"[0-9]+", t.text):
                        raise Unsupported("tuple field `.%s`" % t.text, line)
                    e = Node("tfield", line, base=e, idx=int(t.text))
                    continue
                if self.tok.kind == "float":
                    raise Unsupported("nested tuple field access `.%s`" % self.tok.text, line)
                if self.at("await"):
                    raise Unsupported("`.await`", line)
                f = self.ident().text
                if self.at("::"):
                    raise Unsupported("method call with explicit type arguments `.%s::<...>`" % f, line)
                if not self.at("("):
                    e = Node("field", line, base=e, name=f)
                else:
                    e = Node("mcall", line, base=e, name=f, args=self.parse_args())
            elif self.at("["):
                line = self.advance().line
                if self.at(".."):
                    self.advance()
                    if not self.at("]"):
                        raise Unsupported("range index other than `[..]`", line)
                    self.advance()
                    e = Node("index_full", line, base=e)
                    continue
                if self.at("..="):
                    raise Unsupported("range index", line)
                idx = self.parse_expr()
                if self.at("..") or self.at("..="):
                    raise Unsupported("range index other than `[..]`", line)
                self.expect("]")
                e = Node("index", line, base=e, idx=idx)
            elif self.at("("):
                raise Unsupported("call of a computed function value", self.tok.line)
            elif self.at("?"):
                line = self.advance().line
                e = Node("try", line, expr=e)
            else:
                return e

    def parse_primary(self, ns):
        t = self.tok
        if self.at("("):
            self.advance()
            if self.at(")"):
                self.advance()
                return Node("unitval", t.line)
            e = self.parse_expr()
            if self.at(","):
                elems = [e]
                while self.accept(","):
                    if self.at(")"):
                        break
                    elems.append(self.parse_expr())
                self.expect(")")
                if len(elems) == 1:
                    raise Unsupported("one-element tuple expression", t.line)
                return Node("tuple", t.line, elems=elems)
            self.expect(")")
            return Node("paren", t.line, expr=e)
        return tt.Parser.parse_primary(self, ns)


# --------------------------------------------------------------------------------------------
# type checker + emitter
# --------------------------------------------------------------------------------------------

class Gen(tt.Gen):
    def __init__(self, all_idents):
        tt.Gen.__init__(self, all_idents, {})
        self.cur_mod = None
        self.top_enums = set()
        self.alias_ty = None        # resolved type of `DatagramPacket`
        self.struct_alias = {}      # Rust name -> generated name, inside the current module

    # -- name binding
    def require_super(self, name, line):
        self.used_names.add(name)
        got = self.uses.get(name)
        if got != ["super", name]:
            raise Unsupported("`%s` is not imported as `super::%s` in `mod %s` (found: %s)"
                              % (name, name, self.cur_mod, "::".join(got) if got else "no `use`"), line)

    def resolve_type(self, t):
        if t.kind == "tname" and not t.args and self.in_main:
            if t.segs == [ALIAS]:
                if self.alias_ty is None:
                    raise Unsupported("type `%s`" % ALIAS, t.line)
                self.require_use(ALIAS, t.line)
                return self.alias_ty, False
            if t.segs == [TARGET_STRUCT] and TARGET_STRUCT in self.struct_alias:
                return self.struct_alias[TARGET_STRUCT], False
            if t.name in self.top_enums:
                if t.segs == [t.name]:
                    self.require_super(t.name, t.line)
                elif t.segs != ["super", t.name]:
                    raise Unsupported("type `%s`" % "::".join(t.segs), t.line)
                return t.name, False
            if t.name == "Address" and t.segs == ["Address"]:
                got = self.uses.get("Address")
                if got is None or got[-3:] != ["protocol", "address", "Address"]:
                    raise Unsupported("`Address` is not imported as `..::protocol::address::Address` in `mod %s`" % self.cur_mod, t.line)
                self.used_names.add("Address")
        return tt.Gen.resolve_type(self, t)

    def ctor_of(self, segs, line):
        segs = self.norm_segs(segs, line)
        if self.in_main and len(segs) >= 2 and segs[-2] in self.top_enums:
            if len(segs) == 2:
                self.require_super(segs[-2], line)
            elif segs[:-2] != ["super"]:
                raise Unsupported("path `%s`" % "::".join(segs), line)
            return ta.Gen.ctor_of(self, segs[-2:], line)
        return tt.Gen.ctor_of(self, segs, line)

    # -- types of expressions that are determined without context
    def tuple_elems(self, ty):
        return ty[1] if isinstance(ty, tuple) and ty[0] == "tuple" else None

    def try_type(self, e):
        k = e.kind
        if k == "tfield":
            elems = self.tuple_elems(self.try_type(e.base))
            if elems is None or e.idx >= len(elems):
                return None
            return elems[e.idx]
        if k == "tuple":
            tys = [self.try_type(x) for x in e.elems]
            return ("tuple", tuple(tys)) if all(tys) else None
        if k == "macro" and e.name == "matches":
            return "bool"
        if k == "mcall":
            bt = self.try_type(e.base)
            if bt is not None and ta.method_sig(bt, e.name) is None and not (e.name == "into" and not e.args):
                m = self.method_of(e)
                return m.ret if m else None
        return tt.Gen.try_type(self, e)

    # -- expressions
    def ex(self, e, expected, pre):
        k = e.kind
        if k == "tfield":
            bty, b = self.ex(e.base, None, pre)
            elems = self.tuple_elems(bty)
            if elems is None or e.idx >= len(elems):
                raise Unsupported("tuple field `.%d` of a `%s`" % (e.idx, type_str(bty)), e.line)
            n = len(elems)
            proj = "".join(".2" for _ in range(e.idx)) + (".1" if e.idx < n - 1 else "")
            return elems[e.idx], "%s%s" % (b, proj)
        if k == "tuple":
            want = expected[1] if self.tuple_elems(expected) is not None and len(expected[1]) == len(e.elems) else [None] * len(e.elems)
            tys, ts = [], []
            for x, w in zip(e.elems, want):
                ty, t = self.ex(x, w, pre)
                if ty in ("unit", "str", "anyerr") or (isinstance(ty, tuple) and ty[0] == "result"):
                    raise Unsupported("tuple element of type `%s`" % type_str(ty), x.line)
                tys.append(ty)
                ts.append(t)
            return ("tuple", tuple(tys)), "(%s)" % ", ".join(ts)
        if k == "macro" and e.name == "matches":
            return self.ex_matches(e, pre)
        return tt.Gen.ex(self, e, expected, pre)

    def ex_matches(self, e, pre):
        """`matches!(x, A | B)` on an enum without fields: a total `match` to Bool"""
        if len(e.args) != 2:
            raise Unsupported("`matches!` with %d arguments" % len(e.args), e.line)
        sty, s = self.ex(e.args[0], None, pre)
        if sty not in self.enums or any(f for _, f in self.enums[sty]):
            raise Unsupported("`matches!` on a `%s` (only enums without fields)" % type_str(sty), e.line)
        variants = [v for v, _ in self.enums[sty]]
        pats = []

        def flat(p):
            while p.kind == "paren":
                p = p.expr
            if p.kind == "bin" and p.op == "|":
                flat(p.l)
                flat(p.r)
            elif p.kind == "path":
                c = self.ctor_of(p.segs, p.line)
                if c is None or c[0] != sty:
                    raise Unsupported("pattern `%s` for a `%s`" % (show_expr(p), type_str(sty)), p.line)
                pats.append(c[1])
            else:
                raise Unsupported("pattern `%s` in `matches!` (only `A | B` of unit variants)" % show_expr(p), p.line)
        flat(e.args[1])
        arms = " ".join("| %s.%s => %s" % (sty, lean_name(v), "true" if v in pats else "false") for v in variants)
        return "bool", "(match %s with %s)" % (s, arms)

    # -- statements
    def new_buffer(self, e):
        """`BytesMut::new()` / `&mut BytesMut::new()`: (is `&mut`) or None"""
        borrowed = False
        while e.kind in ("paren", "ref"):
            if e.kind == "ref":
                if not e.mut or borrowed:
                    return None
                borrowed = True
            e = e.expr
        if e.kind == "call" and e.segs == ["BytesMut", "new"] and not e.args:
            return borrowed
        return None

    def stmts(self, stmts, ind):
        done = False
        for s in stmts:
            if done:
                raise Unsupported("statement after `return`/`bail!`", s.line)
            nb = self.new_buffer(s.expr) if s.kind == "let" else None
            if nb is not None:
                if s.ty is not None:
                    raise Unsupported("type annotation on `let %s = BytesMut::new()`" % s.name, s.line)
                if nb and s.mut:
                    raise Unsupported("`let mut %s = &mut BytesMut::new()`" % s.name, s.line)
                self.require_use("BytesMut", s.line)
                self.emit(ind, "-- L%d: let %s%s = %s;" % (s.line, "mut " if s.mut else "", s.name, show_expr(s.expr)))
                self.declare(s.name, "BytesMut", bool(nb or s.mut), s.line)
                self.emit(ind, "let %s : %s := Cursor.new" % (lean_name(s.name), lean_type("BytesMut")))
                continue
            done = tt.Gen.stmts(self, [s], ind)
        return done


# --------------------------------------------------------------------------------------------
# driver
# --------------------------------------------------------------------------------------------

PRELUDE_MORE = r'''
/-- `BytesMut::new()`: an empty buffer -/
def Cursor.new : List UInt8 := []
'''


def find_side(main_path, role):
    here = os.path.dirname(os.path.abspath(main_path))
    root = os.path.normpath(os.path.join(here, "..", "..", ".."))
    core = os.path.join(root, "octo-squirrel", "src")
    cands = {
        "consts": [os.path.join(core, "protocol", "trojan.rs"), os.path.join(here, "protocol_trojan.rs")],
        "address": [os.path.join(core, "protocol", "address.rs"), os.path.join(here, "address_type.rs")],
        "codec": [os.path.join(core, "protocol", "socks5", "address.rs"), os.path.join(here, "socks5_address.rs")],
        "datagram": [os.path.join(core, "codec.rs"), os.path.join(here, "codec.rs")],
    }[role]
    for c in cands:
        if os.path.exists(c):
            return c
    raise Unsupported("source file for `%s` not found (looked for %s)" % (role, ", ".join(cands)), 1)


def parse_source(path, role):
    data = open(path, "rb").read()
    try:
        src = data.decode("utf-8")
    except UnicodeDecodeError:
        raise Unsupported("non-UTF-8 source %s" % path, 1)
    toks = tn.tokenize(src)
    if role == "codec":
        p = ta.Parser(toks, True)
        p.uses = {}
    else:
        p = Parser(toks, role)
    try:
        p.parse_file()
    except Unsupported as u:
        if role != "main":
            raise Unsupported("%s (in %s)" % (u.what, os.path.basename(path)), u.line)
        raise
    return data, toks, p


SIDE_NAMES = {"consts": "protocol/trojan.rs", "address": "protocol/address.rs", "codec": "protocol/socks5/address.rs", "datagram": "codec.rs"}


def header(path, digest, p, sides, g):
    lines = []
    lines.append("/- GENERATED by translate_trojanclient.py — do not edit.")
    lines.append("   source: %s" % path)
    lines.append("   sha256: %s" % digest)
    lines.append("   further sources (found relative to the first):")
    for role, (spath, sdigest, what) in sides.items():
        lines.append("     - %s: %s (sha256 %s): %s" % (role, SIDE_NAMES[role], sdigest, what))
    lines.append("")
    lines.append("   Statement-by-statement translation of the top-level enums of the source and, for each of the inline modules")
    lines.append("   %s: `struct %s` (emitted as %s) and the methods of `impl Encoder<..> for %s`, `impl Decoder for %s`"
                 % (", ".join("`%s`" % m for m in TARGET_MODS), TARGET_STRUCT, " / ".join("`%s`" % struct_name(m) for m in TARGET_MODS),
                    TARGET_STRUCT, TARGET_STRUCT))
    lines.append("   (located by name).")
    lines.append("   Conventions of translate_addr.py / translate_trojan.py (see Octo/Gen/AddrGen.lean, Octo/Gen/TrojanGen.lean):")
    lines.append("   u8/u16/usize = UIntN (usize = 64 bit), `as` = zero-extension / truncation, `+ - *` wrap and are preceded by")
    lines.append("   `Flow.arith ov (..)` (panic when overflow-checks are on), `BytesMut`/`&[u8]`/`[u8; N]` = List UInt8 (a read cursor =")
    lines.append("   the bytes that remain), `get_*`/`split_to`/`advance` panic when fewer bytes remain, `b[i]` panics out of bounds,")
    lines.append("   `Result<T>` = RResult T (error texts are not modelled), `e?` = Flow.question; a method with `&mut self` takes the")
    lines.append("   struct value first and returns (final `*self`, final `&mut` arguments.., returned value); `self.f = e` =")
    lines.append("   `{ self_ with f := e }`; a call of a translated function is `Flow.call` (the callee's panic is the caller's panic,")
    lines.append("   `&mut` arguments are rebound to their final values); `||` short-circuits.  In addition here:")
    lines.append("   * `matches!(x, A | B)` on an enum without fields = a total `match` to Bool;")
    lines.append("   * `t.0` / `t.1` = the projections of the tuple; `(a, b)` = the pair; `%s` = the type read from codec.rs;" % ALIAS)
    lines.append("   * `let buffer = &mut BytesMut::new();` = a local, initially empty, mutable buffer (`Cursor.new`).")
    lines.append("   names are bound through the `use` items of the enclosing module (checked for: %s)." % ", ".join(sorted(g.used_names)))
    lines.append("   assumed externals: none (`%s::new`, which calls Sha224 and `hex::encode`, is skipped: `key` is a field of the" % TARGET_STRUCT)
    lines.append("   generated structures, `command` likewise; theorems about the request header carry `key = hex(sha224 password)` and")
    lines.append("   the command byte as hypotheses).")
    lines.append("   skipped (not parsed, bracket matching only):")
    if p.nuse:
        lines.append("     - %d `use` items (read for name binding only)" % p.nuse)
    for s in p.skipped:
        lines.append("     - %s" % s)
    lines.append("-/")
    return lines


def translate(path, out_path):
    data, toks, p = parse_source(path, "main")
    digest = hashlib.sha256(data).hexdigest()
    idents = [t.text for t in toks if t.kind == "ident"]
    loaded = {}
    for role in ("consts", "address", "codec", "datagram"):
        spath = find_side(path, role)
        sdata, stoks, sp = parse_source(spath, role)
        loaded[role] = (spath, hashlib.sha256(sdata).hexdigest(), sp)
        idents += [t.text for t in stoks if t.kind == "ident"]
    idents += [struct_name(m) for m in TARGET_MODS]

    # AddrGen.lean next to the output must come from the same address.rs
    addr_gen = os.path.join(os.path.dirname(os.path.abspath(out_path)), "AddrGen.lean")
    if os.path.exists(addr_gen):
        m = re.search(r"sha256: (\w+)", open(addr_gen, encoding="utf-8").read())
        if m and m.group(1) != loaded["codec"][1]:
            raise OSError("%s was generated from another socks5/address.rs (sha256 %s, this one is %s): run translate_addr.py first"
                          % (addr_gen, m.group(1)[:16], loaded["codec"][1][:16]))

    for mname in TARGET_MODS:
        if mname not in p.mods:
            raise Unsupported("`mod %s { .. }` not found" % mname, 1)
        md = p.mods[mname]
        if len(md["structs"]) != 1:
            raise Unsupported("`struct %s` not found exactly once in `mod %s`" % (TARGET_STRUCT, mname), md["line"])
        traits = sorted(im.trait for im in md["impls"])
        if traits != ["Decoder", "Encoder"]:
            raise Unsupported("`mod %s`: expected one `impl Encoder<..> for %s` and one `impl Decoder for %s` (found: %s)"
                              % (mname, TARGET_STRUCT, TARGET_STRUCT, ", ".join(traits) or "none"), md["line"])
    for st in p.structs:
        raise Unsupported("top-level `struct %s`" % st.name, st.line)
    if not p.enums:
        raise Unsupported("no top-level enum (`CodecState`) found", 1)

    g = Gen(idents)
    g.in_main = False
    sides = {}
    pre_out = []
    g.out = pre_out
    pre_out.append(tt.PRELUDE.rstrip("\n"))
    pre_out.append(PRELUDE_MORE)

    # protocol/trojan.rs: CR_LF
    spath, sdig, sp = loaded["consts"]
    if len(sp.consts) != 1:
        raise Unsupported("`const CR_LF` not found exactly once in %s" % os.path.basename(spath), 1)
    sides["consts"] = (spath, sdig, "`const CR_LF`")
    pre_out.append("/-! ### constants (protocol/trojan.rs) -/")
    g.register_const(sp.consts[0], "trojan")

    # protocol/address.rs: enum Address (declared by AddrGen)
    spath, sdig, sp = loaded["address"]
    if len(sp.enums) != 1:
        raise Unsupported("`enum Address` not found exactly once in %s" % os.path.basename(spath), 1)
    g.register_enum(sp.enums[0], False, "address.rs")
    sides["address"] = (spath, sdig, "`enum Address` (declared in Octo.AddrGen)")

    # protocol/socks5/address.rs: signatures of the generated functions
    spath, sdig, sp = loaded["codec"]
    src_text = open(spath, encoding="utf-8").read()
    if re.search(r"\bfrom_utf8\b", src_text):
        raise Unsupported("socks5/address.rs uses `String::from_utf8`: the generated functions take a further parameter", 1)
    got = []
    for fn in sp.fns:
        if fn.name in tt.ADDR_FNS:
            fn.recv = None
            g.self_type = None
            sig = g.fn_sig(fn, "address", "Octo.AddrGen.%s" % lean_name(fn.name))
            g.fns[("address", fn.name)] = sig
            got.append(fn.name)
    if sorted(got) != sorted(tt.ADDR_FNS):
        raise Unsupported("socks5/address.rs: expected `encode`, `decode`, `try_decode_at` (found: %s)" % ", ".join(got), 1)
    sides["codec"] = (spath, sdig, "signatures of %s (bodies: Octo.AddrGen)" % ", ".join("`%s`" % n for n in got))

    # codec.rs: type DatagramPacket
    spath, sdig, sp = loaded["datagram"]
    if sp.alias is None:
        raise Unsupported("`type %s` not found in %s" % (ALIAS, os.path.basename(spath)), 1)
    for nm, want in (("BytesMut", ["bytes", "BytesMut"]), ("Address", ["protocol", "address", "Address"])):
        gotu = sp.uses.get(nm)
        if gotu is None or gotu[-len(want):] != want:
            raise Unsupported("`%s` is not imported as `..::%s` in %s" % (nm, "::".join(want), os.path.basename(spath)), sp.alias.line)
    g.in_main = False
    aty, amut = g.resolve_type(sp.alias.ty)
    if amut or g.tuple_elems(aty) is None:
        raise Unsupported("`type %s = %s` is not a tuple type" % (ALIAS, tt._show_type(sp.alias.ty)), sp.alias.line)
    g.alias_ty = aty
    sides["datagram"] = (spath, sdig, "`type %s = %s` (line %d)" % (ALIAS, tt._show_type(sp.alias.ty), sp.alias.line))

    # -- the source itself
    main_out = []
    g.out = main_out
    for en in p.enums:
        g.register_enum(en, True, "this file")
        g.top_enums.add(en.name)
    for mname in TARGET_MODS:
        md = p.mods[mname]
        sname = struct_name(mname)
        g.uses = md["uses"]
        g.cur_mod = mname
        g.struct_alias = {TARGET_STRUCT: sname}
        g.in_main = True
        main_out.append("/-! ## `mod %s` (line %d) -/" % (mname, md["line"]))
        main_out.append("")
        st = md["structs"][0]
        st.name = sname
        main_out.append("-- L%d: struct %s  (in `mod %s`)" % (st.line, TARGET_STRUCT, mname))
        g.register_struct(st)
        main_out.append("/-! ### methods of `%s::%s` -/" % (mname, TARGET_STRUCT))
        methods = []
        for im in md["impls"]:
            for fn in im.fns:
                methods.append((fn, im))
        for fn, im in tt.topo_methods(methods, md["line"]):
            g.in_main = True
            g.require_use(im.trait, im.line)
            g.gen_method(fn, sname, sname, im.types, "%s.%s" % (sname, lean_name(fn.name)), True,
                         "mod %s, impl %s for %s" % (mname, im.trait + (("<%s>" % ", ".join(im.targs)) if im.targs else ""), im.ty))
        # the methods of this module are not callable from the next one
        for key in [k for k in g.fns if k[0] == sname]:
            del g.fns[key]
        g.in_main = False
    g.cur_mod = None

    out = []
    out.extend(header(path, digest, p, sides, g))
    out.append("import Octo.Gen.AddrGen")
    out.append("set_option linter.unusedVariables false")
    out.append("namespace Octo.TrojanClientGen")
    out.append("open Octo.PWGen Octo.AddrGen")
    out.extend(pre_out)
    out.extend(main_out)
    out.append("end Octo.TrojanClientGen")
    return "\n".join(out) + "\n"


def main(argv):
    if len(argv) != 3:
        sys.stderr.write("usage: translate_trojanclient.py <path/to/octo-squirrel-client/src/client/trojan.rs> <out.lean>\n")
        return 2
    try:
        text = translate(argv[1], argv[2])
    except Unsupported as u:
        sys.stderr.write("translate_trojanclient: unsupported: %s at line %d\n" % (u.what, u.line))
        return 3
    except OSError as e:
        sys.stderr.write("translate_trojanclient: %s\n" % e)
        return 2
    try:
        with open(argv[2], "w", encoding="utf-8") as f:
            f.write(text)
    except OSError as e:
        sys.stderr.write("translate_trojanclient: %s\n" % e)
        return 2
    return 0


if __name__ == "__main__":
    sys.exit(main(sys.argv))
