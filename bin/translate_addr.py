#!/usr/bin/env python3
"""Rust-subset -> Lean 4 translator for the SOCKS5-style address codec `protocol/socks5/address.rs`.

usage:  translate_addr.py <path/to/address.rs> <out.lean>

The free functions `encode`, `decode`, `length`, `try_decode_at` (whichever exist) are located by name,
tokenized (tokenizer of translate_nonce.py), parsed with a recursive-descent parser, type-checked
against a fixed table of library signatures (`bytes::Buf`/`BufMut`/`BytesMut`, `std::net`, `String`,
`Socks5AddressType`) and emitted statement by statement in the `Flow`/`Res` calculus of
`Octo/Gen/PacketWindowGen.lean`.  Every other item of the file (uses, tests, trait impls, helpers) is
skipped by balanced-bracket matching and listed in the generated header.  `enum Address` is parsed
from the same file or, if it is not there, from `address_type.rs` next to it.

Exit status:
  0  a Lean module was written
  2  usage / IO error
  3  a construct outside the supported subset inside a target item; one line on stderr; nothing is
     written (never a guess).
"""
import hashlib
import os
import re
import sys

sys.path.insert(0, os.path.dirname(os.path.abspath(__file__)))
import translate_pw as pw  # noqa: E402
import translate_nonce as tn  # noqa: E402
from translate_pw import Unsupported, Tok, Node, RUST_KEYWORDS, LEAN_KEYWORDS, lean_name  # noqa: E402

TARGET_FNS = ("encode", "decode", "length", "try_decode_at")
LIB_NAMES = ("Socks5AddressType", "SocketAddr", "SocketAddrV4", "SocketAddrV6", "Ipv4Addr", "Ipv6Addr",
             "String", "BytesMut", "Bytes", "Vec", "Result", "Ok", "Err")
INTS = ("u8", "u16", "u32", "u64", "u128", "usize")
ARITH_INTS = ("u8", "u16", "u32", "u64", "usize")
BITS = {"u8": 8, "u16": 16, "u32": 32, "u64": 64, "u128": 128, "usize": 64}
LEAN_INT = {"u8": "UInt8", "u16": "UInt16", "u32": "UInt32", "u64": "UInt64", "u128": "U128", "usize": "Usize"}
PREFIX = {"u8": "U8", "u16": "U16", "u32": "U32", "u64": "U64", "usize": "Usize"}
ARITH_PREFIX = {"u8": "U8", "u16": "U16", "u32": "U32", "u64": "U64", "usize": "U64"}
OTHER_INTS = ("i8", "i16", "i32", "i64", "i128", "isize")
ALLOWED_ATTRS = ("derive", "allow", "doc", "inline", "must_use", "warn")


# --------------------------------------------------------------------------------------------
# parser
# --------------------------------------------------------------------------------------------

class Parser(pw.Parser):
    def __init__(self, toks, want_fns=True):
        pw.Parser.__init__(self, toks)
        self.want_fns = want_fns
        self.enums = []
        self.nuse = 0

    def note_skip(self, what, line, end):
        self.skipped.append("%s, lines %d-%d" % (what, line, end))

    def check_attrs(self, attrs):
        for text, line in attrs:
            head = text.split("(")[0].split("=")[0].strip()
            if head not in ALLOWED_ATTRS:
                raise Unsupported("attribute `#[%s]` on a translated item" % text, line)

    # -- items
    def parse_file(self):
        while self.tok.kind != "eof":
            if self.at(";"):
                self.advance()
                continue
            first = self.tok
            attrs = self.parse_attrs()
            self.parse_vis()
            t = self.tok
            nxt = self.peek()
            gated = any(re.sub(r"\s+", "", text).startswith(("cfg(", "test")) for text, _ in attrs)
            if self.at("fn") and nxt.kind == "ident" and nxt.text in TARGET_FNS and self.want_fns:
                if gated:
                    end = self.skip_item()
                    self.note_skip("cfg/test-gated fn %s" % nxt.text, t.line, end)
                    continue
                self.check_attrs(attrs)
                self.fns.append(self.parse_fn())
                continue
            if self.at("enum") and nxt.kind == "ident" and nxt.text == "Address":
                if gated:
                    raise Unsupported("cfg-gated `enum Address`", t.line)
                self.check_attrs(attrs)
                self.enums.append(self.parse_enum())
                continue
            kw = t.text
            name = nxt.text if nxt.kind == "ident" else ""
            if t.kind == "ident" and kw in ("struct", "enum", "union", "trait", "type", "mod", "fn", "const", "static") \
                    and (name in LIB_NAMES or (name in TARGET_FNS and self.want_fns)) and not gated:
                raise Unsupported("`%s %s`: a local definition of a name the translator reads as a library/target name" % (kw, name), t.line)
            if self.at("macro_rules") and nxt.text == "!":
                name = self.peek(2).text
                end = self.skip_item()
                self.note_skip("macro_rules! %s" % name, t.line, end)
                continue
            if self.at("impl"):
                header = []
                k = self.pos + 1
                while self.toks[k].kind != "eof" and not (self.toks[k].kind == "punct" and self.toks[k].text in ("{", ";")):
                    header.append(self.toks[k].text)
                    k += 1
                end = self.skip_item()
                self.note_skip("%s `impl %s`" % ("trait impl" if "for" in header else "impl", " ".join(header)), t.line, end)
                continue
            end = self.skip_item()
            if kw == "use":
                self.nuse += 1
            else:
                what = "%s %s" % (kw, name) if name else "item starting with `%s`" % kw
                if gated:
                    what = "test/cfg-gated " + what
                self.note_skip(what, first.line, end)

    def parse_enum(self):
        line = self.expect("enum").line
        name = self.ident().text
        if self.at("<"):
            raise Unsupported("generic enum", line)
        self.expect("{")
        variants = []
        while not self.at("}"):
            self.check_attrs(self.parse_attrs())
            vl = self.tok.line
            vname = self.ident().text
            fields = []
            if self.accept("("):
                while not self.at(")"):
                    fields.append(self.parse_type())
                    if not self.accept(","):
                        break
                self.expect(")")
            elif self.at("{"):
                raise Unsupported("struct-like enum variant", vl)
            if self.at("="):
                raise Unsupported("explicit discriminant in `enum %s`" % name, vl)
            variants.append(Node("variant", vl, name=vname, fields=fields))
            if not self.accept(","):
                break
        self.expect("}")
        return Node("enum", line, name=name, variants=variants)

    # -- types
    def parse_type(self):
        t = self.tok
        if self.at("&") or self.at("&&"):
            n = 2 if self.at("&&") else 1
            self.advance()
            if self.tok.kind == "lifetime":
                self.advance()
            mut = bool(self.accept("mut"))
            inner = self.parse_type()
            node = Node("tref", t.line, mut=mut, inner=inner)
            if n == 2:
                node = Node("tref", t.line, mut=False, inner=node)
            return node
        if self.at("["):
            self.advance()
            elem = self.parse_type()
            if self.accept(";"):
                n = self.parse_expr()
                self.expect("]")
                return Node("tarray", t.line, elem=elem, len=n)
            self.expect("]")
            return Node("tslice", t.line, elem=elem)
        if self.at("("):
            self.advance()
            self.expect(")")
            return Node("tunit", t.line)
        if self.at("*") or self.at("dyn") or self.at("impl"):
            raise Unsupported("pointer/trait-object type", t.line)
        name = self.tok
        if name.kind != "ident" or name.text in RUST_KEYWORDS:
            raise Unsupported("type starting with `%s`" % name.text, name.line)
        self.advance()
        segs = [name.text]
        while self.at("::"):
            self.advance()
            segs.append(self.ident().text)
        args = []
        if self.at("<"):
            self.advance()
            while not self.at(">"):
                args.append(self.parse_type())
                if not self.accept(","):
                    break
            self.expect(">")
        return Node("tname", t.line, name=segs[-1], segs=segs, args=args)

    def parse_fn(self):
        line = self.expect("fn").line
        name = self.ident().text
        if self.at("<"):
            raise Unsupported("generic fn", line)
        self.expect("(")
        params = []
        while not self.at(")"):
            if self.at("mut"):
                raise Unsupported("`mut` parameter binding", self.tok.line)
            if self.at("&") or self.at("self"):
                raise Unsupported("`self` receiver on a free fn", self.tok.line)
            pl = self.tok.line
            pname = self.ident().text
            self.expect(":")
            pty = self.parse_type()
            params.append(Node("param", pl, name=pname, ty=pty))
            if not self.accept(","):
                break
        self.expect(")")
        ret = Node("tunit", line)
        if self.accept("->"):
            ret = self.parse_type()
        if self.at("where"):
            raise Unsupported("where clause", self.tok.line)
        body = self.parse_block()
        return Node("fn", line, name=name, params=params, ret=ret, body=body)

    # -- statements
    def parse_block(self):
        line = self.expect("{").line
        stmts = []
        tail = None
        while not self.at("}"):
            if self.tok.kind == "eof":
                raise Unsupported("unterminated block", line)
            if tail is not None:
                raise Unsupported("expression statement without `;`", tail.line)
            if self.at("#"):
                raise Unsupported("attribute on a statement", self.tok.line)
            t = self.tok
            if self.at(";"):
                self.advance()
                continue
            if self.at("let"):
                stmts.append(self.parse_let())
                continue
            if self.at("return"):
                self.advance()
                e = None
                if not self.at(";") and not self.at("}"):
                    e = self.parse_expr()
                node = Node("return", t.line, expr=e)
                if self.at("}"):
                    tail = node
                else:
                    self.expect(";")
                    stmts.append(node)
                continue
            if t.kind == "ident" and t.text in ("while", "loop", "for", "break", "continue", "fn", "struct", "const",
                                                 "use", "static", "impl", "mod", "enum", "trait", "type", "async", "move"):
                raise Unsupported("`%s`" % t.text, t.line)
            if self.at("if") or self.at("match") or self.at("unsafe") or self.at("{"):
                e = self.parse_primary(False)
                if self.at("}"):
                    tail = e
                else:
                    self.accept(";")
                    stmts.append(Node("exprstmt", t.line, expr=e))
                continue
            e = self.parse_expr()
            if self.at("="):
                self.advance()
                rhs = self.parse_expr()
                self.expect(";")
                stmts.append(Node("assign", t.line, target=e, op=None, expr=rhs))
            elif self.tok.kind == "punct" and self.tok.text in ("+=", "-=", "*=", "&=", "|=", "<<=", ">>=", "/=", "%=", "^="):
                op = self.advance().text[:-1]
                rhs = self.parse_expr()
                self.expect(";")
                stmts.append(Node("assign", t.line, target=e, op=op, expr=rhs))
            elif self.at(";"):
                self.advance()
                stmts.append(Node("exprstmt", t.line, expr=e))
            elif self.at("}"):
                tail = e
            else:
                raise Unsupported("token `%s` after expression" % self.tok.text, self.tok.line)
        self.expect("}")
        return Node("block", line, stmts=stmts, tail=tail, unsafe=False)

    def parse_let(self):
        line = self.expect("let").line
        mut = bool(self.accept("mut"))
        if not (self.tok.kind == "ident" and self.tok.text not in RUST_KEYWORDS) or self.peek().text in ("(", "::", "{"):
            raise Unsupported("pattern in `let`", line)
        name = self.advance().text
        ty = None
        if self.accept(":"):
            ty = self.parse_type()
        if not self.at("="):
            raise Unsupported("`let` without initializer (or with a pattern)", line)
        self.advance()
        e = self.parse_expr()
        if self.at("else"):
            raise Unsupported("let-else", line)
        self.expect(";")
        return Node("let", line, name=name, mut=mut, ty=ty, expr=e)

    def parse_if(self):
        line = self.expect("if").line
        if self.at("let"):
            raise Unsupported("if-let", line)
        cond = self.parse_expr(no_struct=True)
        then = self.parse_block()
        els = None
        if self.accept("else"):
            if self.at("if"):
                els = self.parse_if()
            else:
                els = self.parse_block()
        return Node("if", line, cond=cond, then=then, els=els)

    def parse_match(self):
        line = self.expect("match").line
        scrut = self.parse_expr(no_struct=True)
        self.expect("{")
        arms = []
        while not self.at("}"):
            if self.at("#"):
                raise Unsupported("attribute on a match arm", self.tok.line)
            al = self.tok.line
            self.accept("|")
            pat = self.parse_pattern()
            if self.at("|"):
                raise Unsupported("or-pattern", al)
            guard = None
            if self.accept("if"):
                if self.at("let"):
                    raise Unsupported("if-let guard", al)
                guard = self.parse_expr(no_struct=True)
            self.expect("=>")
            if self.at("{"):
                body = self.parse_block()
                self.accept(",")
            else:
                body = self.parse_expr()
                if not self.at("}"):
                    self.expect(",")
            arms.append(Node("arm", al, pat=pat, guard=guard, body=body))
        self.expect("}")
        return Node("match", line, scrut=scrut, arms=arms)

    def parse_pattern(self):
        t = self.tok
        if t.kind == "punct" and t.text in ("&", "&&", "(", "[", "..", "-"):
            raise Unsupported("pattern starting with `%s`" % t.text, t.line)
        if t.kind in ("int", "str", "char", "float"):
            raise Unsupported("literal pattern", t.line)
        if t.kind != "ident":
            raise Unsupported("pattern starting with `%s`" % t.text, t.line)
        if t.text in ("ref", "mut", "box"):
            raise Unsupported("`%s` pattern" % t.text, t.line)
        if t.text == "_":
            self.advance()
            return Node("pwild", t.line)
        if t.text in RUST_KEYWORDS and t.text != "Self":
            raise Unsupported("pattern starting with `%s`" % t.text, t.line)
        self.advance()
        segs = [t.text]
        while self.accept("::"):
            segs.append(self.ident().text)
        if self.at("@"):
            raise Unsupported("`@` pattern", t.line)
        if self.at("{"):
            raise Unsupported("struct pattern", t.line)
        if self.at("(") :
            self.advance()
            subs = []
            while not self.at(")"):
                if self.at(".."):
                    raise Unsupported("rest pattern `..`", self.tok.line)
                subs.append(self.parse_pattern())
                if not self.accept(","):
                    break
            self.expect(")")
            return Node("pctor", t.line, segs=segs, subs=subs)
        if len(segs) == 1 and (segs[0][0].islower() or segs[0][0] == "_"):
            return Node("pbind", t.line, name=segs[0])
        return Node("pctor", t.line, segs=segs, subs=[])

    # -- expressions
    def parse_unary(self, ns):
        t = self.tok
        if t.kind == "punct" and t.text in ("&", "&&"):
            self.advance()
            mut = bool(self.accept("mut"))
            inner = self.parse_unary(ns)
            node = Node("ref", t.line, mut=mut, expr=inner)
            if t.text == "&&":
                node = Node("ref", t.line, mut=False, expr=node)
            return node
        if t.kind == "punct" and t.text == "*":
            self.advance()
            return Node("deref", t.line, expr=self.parse_unary(ns))
        if t.kind == "punct" and t.text == "!":
            self.advance()
            return Node("not", t.line, expr=self.parse_unary(ns))
        if t.kind == "punct" and t.text == "-":
            raise Unsupported("unary operator `-`", t.line)
        return self.parse_postfix(ns)

    def parse_args(self):
        self.expect("(")
        args = []
        while not self.at(")"):
            args.append(self.parse_expr())
            if not self.accept(","):
                break
        self.expect(")")
        return args

    def parse_postfix(self, ns):
        e = self.parse_primary(ns)
        while True:
            if self.at("."):
                line = self.advance().line
                if self.tok.kind in ("int", "float"):
                    raise Unsupported("tuple field access", line)
                if self.at("await"):
                    raise Unsupported("`.await`", line)
                f = self.ident().text
                if self.at("::"):
                    raise Unsupported("method call with explicit type arguments `.%s::<...>`" % f, line)
                if not self.at("("):
                    raise Unsupported("field access `.%s`" % f, line)
                e = Node("mcall", line, base=e, name=f, args=self.parse_args())
            elif self.at("["):
                line = self.advance().line
                if self.at("..") or self.at("..="):
                    raise Unsupported("range index", line)
                idx = self.parse_expr()
                if self.at("..") or self.at("..="):
                    raise Unsupported("range index", line)
                self.expect("]")
                e = Node("index", line, base=e, idx=idx)
            elif self.at("("):
                raise Unsupported("call of a computed function value", self.tok.line)
            elif self.at("?"):
                line = self.advance().line
                e = Node("try", line, expr=e)
            else:
                return e

    def parse_primary(self, ns):
        t = self.tok
        if t.kind in ("float", "rawident", "other"):
            raise Unsupported("%s token `%s`" % (t.kind, t.text), t.line)
        if t.kind == "int":
            self.advance()
            return Node("lit", t.line, **parse_int(t))
        if t.kind == "str":
            self.advance()
            return Node("str", t.line, text=t.text)
        if t.kind in ("char", "lifetime"):
            raise Unsupported("%s literal" % t.kind, t.line)
        if self.at("("):
            self.advance()
            if self.at(")"):
                self.advance()
                return Node("unitval", t.line)
            e = self.parse_expr()
            if self.at(","):
                raise Unsupported("tuple expression", t.line)
            self.expect(")")
            return Node("paren", t.line, expr=e)
        if self.at("["):
            raise Unsupported("array literal", t.line)
        if self.at("|") or self.at("||") or self.at("move"):
            raise Unsupported("closure", t.line)
        if self.at("if"):
            return self.parse_if()
        if self.at("match"):
            return self.parse_match()
        if self.at("unsafe"):
            self.advance()
            b = self.parse_block()
            b.unsafe = True
            return b
        if self.at("{"):
            return self.parse_block()
        if t.kind == "ident":
            if t.text in ("true", "false"):
                self.advance()
                return Node("bool", t.line, value=(t.text == "true"))
            if t.text in RUST_KEYWORDS and t.text != "Self":
                raise Unsupported("`%s` in expression position" % t.text, t.line)
            self.advance()
            segs = [t.text]
            while self.at("::"):
                self.advance()
                if self.at("<"):
                    raise Unsupported("explicit type arguments in a path", t.line)
                segs.append(self.ident().text)
            if self.at("!"):
                if len(segs) != 1 and segs[:-1] != ["anyhow"]:
                    raise Unsupported("macro path `%s!`" % "::".join(segs), t.line)
                self.advance()
                if not self.at("("):
                    raise Unsupported("macro `%s!` with `%s` delimiter" % (segs[-1], self.tok.text), t.line)
                return Node("macro", t.line, name=segs[-1], args=self.parse_args())
            if self.at("{") and not ns and len(segs) == 1 and segs[0][0].isupper():
                raise Unsupported("struct literal", t.line)
            if self.at("("):
                return Node("call", t.line, segs=segs, args=self.parse_args())
            if len(segs) == 1:
                return Node("var", t.line, name=segs[0])
            return Node("path", t.line, segs=segs)
        raise Unsupported("token `%s` in expression position" % (t.text or "end of file"), t.line)


def parse_int(t):
    text = t.text.replace("_", "")
    suffix = None
    for s in INTS + OTHER_INTS:
        if text.endswith(s) and (not text.lower().startswith("0x") or s[0] in "ui"):
            suffix = s
            text = text[:-len(s)]
            break
    try:
        low = text.lower()
        if low.startswith("0x"):
            v = int(text[2:], 16)
        elif low.startswith("0o"):
            v = int(text[2:], 8)
        elif low.startswith("0b"):
            v = int(text[2:], 2)
        else:
            v = int(text, 10)
    except ValueError:
        raise Unsupported("integer literal `%s`" % t.text, t.line)
    if suffix in OTHER_INTS:
        raise Unsupported("integer type `%s`" % suffix, t.line)
    return {"value": v, "suffix": suffix}


# --------------------------------------------------------------------------------------------
# pretty printer of the parsed Rust (only for the comments in the generated file)
# --------------------------------------------------------------------------------------------

def show_type(t):
    k = t.kind
    if k == "tname":
        s = "::".join(t.segs)
        if t.args:
            s += "<%s>" % ", ".join(show_type(a) for a in t.args)
        return s
    if k == "tunit":
        return "()"
    if k == "tref":
        return "&%s%s" % ("mut " if t.mut else "", show_type(t.inner))
    if k == "tslice":
        return "[%s]" % show_type(t.elem)
    return "[%s; %s]" % (show_type(t.elem), show_expr(t.len))


def show_pat(p):
    if p.kind == "pwild":
        return "_"
    if p.kind == "pbind":
        return p.name
    s = "::".join(p.segs)
    if p.subs:
        s += "(%s)" % ", ".join(show_pat(x) for x in p.subs)
    return s


def show_expr(e):
    k = e.kind
    if k == "lit":
        return "%d%s" % (e.value, e.suffix or "")
    if k == "str":
        return "\"…\""
    if k == "bool":
        return "true" if e.value else "false"
    if k == "unitval":
        return "()"
    if k == "var":
        return e.name
    if k == "path":
        return "::".join(e.segs)
    if k == "call":
        return "%s(%s)" % ("::".join(e.segs), ", ".join(show_expr(a) for a in e.args))
    if k == "macro":
        return "%s!(%s)" % (e.name, ", ".join(show_expr(a) for a in e.args))
    if k == "paren":
        return "(%s)" % show_expr(e.expr)
    if k == "bin":
        return "%s %s %s" % (show_expr(e.l), e.op, show_expr(e.r))
    if k == "cast":
        return "%s as %s" % (show_expr(e.expr), show_type(e.ty))
    if k == "index":
        return "%s[%s]" % (show_expr(e.base), show_expr(e.idx))
    if k == "ref":
        return "&%s%s" % ("mut " if e.mut else "", show_expr(e.expr))
    if k == "deref":
        return "*%s" % show_expr(e.expr)
    if k == "not":
        return "!%s" % show_expr(e.expr)
    if k == "try":
        return "%s?" % show_expr(e.expr)
    if k == "mcall":
        return "%s.%s(%s)" % (show_expr(e.base), e.name, ", ".join(show_expr(a) for a in e.args))
    if k == "match":
        return "match %s { ... }" % show_expr(e.scrut)
    if k == "if":
        return "if %s { ... }%s" % (show_expr(e.cond), " else { ... }" if e.els else "")
    if k == "block":
        return "unsafe { ... }" if e.unsafe else "{ ... }"
    if k == "return":
        return "return%s" % ((" " + show_expr(e.expr)) if e.expr else "")
    return "?"


# --------------------------------------------------------------------------------------------
# types and the fixed library tables
# --------------------------------------------------------------------------------------------
# types: 'u8'..'usize' | 'bool' | 'unit' | 'str' | 'anyerr' | 'BytesMut' | 'Bytes' | 'VecU8' | 'SliceU8'
#        | 'String' | 'Ipv4Addr' | 'Ipv6Addr' | 'SocketAddrV4' | 'SocketAddrV6' | 'SocketAddr'
#        | 'Socks5AddressType' | 'Address' | ('array', n) (of u8) | ('result', t)
# references are transparent (`&T`, `&mut T` = the referenced value); a `&mut` parameter is returned
# next to the result.

BUF_TYPES = ("BytesMut", "Bytes")
STRUCT_TYPES = ("String", "Ipv4Addr", "Ipv6Addr", "SocketAddrV4", "SocketAddrV6")
LEAN_STRUCT = {"String": "RString", "Ipv4Addr": "Ipv4Addr", "Ipv6Addr": "Ipv6Addr",
               "SocketAddrV4": "SocketAddrV4", "SocketAddrV6": "SocketAddrV6"}

# enums whose definition is fixed (std / `protocol/socks5.rs`); `Address` is added from the source
BUILTIN_ENUMS = {
    "SocketAddr": [("V4", ["SocketAddrV4"]), ("V6", ["SocketAddrV6"])],
    "Socks5AddressType": [("Ipv4", []), ("Domain", []), ("Ipv6", [])],
}

# associated functions: (type, name) -> (argument types, result type, lean function, needs unsafe)
ASSOC = {
    ("Socks5AddressType", "try_from"): (["u8"], ("result", "Socks5AddressType"), "Socks5AddressType.try_from", False),
    ("Ipv4Addr", "from"): (["u32"], "Ipv4Addr", "Ipv4Addr.from_u32", False),
    ("Ipv6Addr", "from"): (["u128"], "Ipv6Addr", "Ipv6Addr.from_u128", False),
    ("Ipv4Addr", "from_bits"): (["u32"], "Ipv4Addr", "Ipv4Addr.from_u32", False),
    ("Ipv6Addr", "from_bits"): (["u128"], "Ipv6Addr", "Ipv6Addr.from_u128", False),
    ("SocketAddrV4", "new"): (["Ipv4Addr", "u16"], "SocketAddrV4", "SocketAddrV4.new", False),
    ("SocketAddrV6", "new"): (["Ipv6Addr", "u16", "u32", "u32"], "SocketAddrV6", "SocketAddrV6.new", False),
    ("String", "from_utf8_unchecked"): (["VecU8"], "String", "RString.from_utf8_unchecked", True),
    ("String", "from_utf8"): (["VecU8"], ("result", "String"), "RString.from_utf8 utf8Ok", False),
}


def is_bytes(t):
    return t in ("BytesMut", "Bytes", "VecU8", "SliceU8") or (isinstance(t, tuple) and t[0] == "array")


def type_str(t):
    if isinstance(t, str):
        return t
    if t[0] == "array":
        return "[u8; %d]" % t[1]
    if t[0] == "result":
        return "Result<%s>" % type_str(t[1])
    return str(t)


def lean_type(t):
    if t in INTS:
        return LEAN_INT[t]
    if t == "bool":
        return "Bool"
    if t == "unit":
        return "Unit"
    if t in BUF_TYPES:
        return "Cursor"
    if is_bytes(t):
        return "List UInt8"
    if t in LEAN_STRUCT:
        return LEAN_STRUCT[t]
    if t in ("SocketAddr", "Socks5AddressType", "Address"):
        return t
    if isinstance(t, tuple) and t[0] == "result":
        return "RResult %s" % lean_atom(t[1])
    raise AssertionError(t)


def lean_atom(t):
    s = lean_type(t)
    return "(%s)" % s if " " in s else s


def method_sig(rty, name):
    """(argument types, result type, kind, lean function) of `recv.name(..)`, or None.
    kinds: pure | read (advances the receiver, may panic, yields a value) | adv (advances, may panic)
           | write (appends to the receiver)"""
    m = re.fullmatch(r"(get|put)_(u8|u16|u32|u64|u128)(_le)?", name)
    if m and m.group(2) == "u8" and m.group(3):
        return None
    if rty in ("BytesMut", "Bytes", "SliceU8"):
        if name == "has_remaining":
            return ([], "bool", "pure", "Cursor.has_remaining")
        if name == "remaining":
            return ([], "usize", "pure", "Cursor.remaining")
        if m and m.group(1) == "get":
            return ([], m.group(2), "read", "Flow." + name)
        if name == "copy_to_bytes":
            return (["usize"], "Bytes", "read", "Flow.copy_to_bytes")
        if name == "advance":
            return (["usize"], "unit", "adv", "Flow.advance")
    if rty in ("BytesMut", "Bytes") and name == "split_to":
        return (["usize"], rty, "read", "Flow.split_to")
    if rty in ("BytesMut", "VecU8"):
        if m and m.group(1) == "put":
            return ([m.group(2)], "unit", "write", "Cursor." + name)
        if name in ("put_slice", "extend_from_slice"):
            return (["bytes"], "unit", "write", "Cursor." + name)
    if is_bytes(rty):
        if name == "len":
            return ([], "usize", "pure", "Cursor.len")
        if name == "is_empty":
            return ([], "bool", "pure", "Cursor.is_empty")
        if name == "to_vec":
            return ([], "VecU8", "pure", "Cursor.to_vec")
    if rty == "String":
        if name == "len":
            return ([], "usize", "pure", "RString.len")
        if name == "is_empty":
            return ([], "bool", "pure", "RString.is_empty")
        if name == "as_bytes":
            return ([], "SliceU8", "pure", "RString.as_bytes")
    if rty in ("SocketAddrV4", "SocketAddrV6"):
        if name == "ip":
            return ([], "Ipv4Addr" if rty == "SocketAddrV4" else "Ipv6Addr", "pure", rty + ".ip")
        if name == "port":
            return ([], "u16", "pure", rty + ".port")
    if rty == "Ipv4Addr" and name == "octets":
        return ([], ("array", 4), "pure", "Ipv4Addr.octets")
    if rty == "Ipv6Addr" and name == "octets":
        return ([], ("array", 16), "pure", "Ipv6Addr.octets")
    if rty == "Ipv4Addr" and name == "to_bits":
        return ([], "u32", "pure", "Ipv4Addr.bits")
    if rty == "Ipv6Addr" and name == "to_bits":
        return ([], "u128", "pure", "Ipv6Addr.bits")
    return None


MUTATING = re.compile(r"(get|put)_(u8|u16|u32|u64|u128)(_le)?|copy_to_bytes|split_to|advance|put_slice|extend_from_slice")


class Var:
    def __init__(self, name, ty, mut, order):
        self.name, self.ty, self.mut, self.order = name, ty, mut, order


# --------------------------------------------------------------------------------------------
# type checker + emitter: expressions
# --------------------------------------------------------------------------------------------

class Gen:
    def __init__(self, all_idents):
        self.idents = set(all_idents)
        self.enums = dict(BUILTIN_ENUMS)
        self.out = []
        self.lines = []
        self.fresh_n = 0
        self.ov = self.fresh_fixed("ov")
        self.scopes = []
        self.order = 0
        self.unsafe_depth = 0
        self.uses_utf8 = False

    def fresh_fixed(self, base):
        n = base
        while n in self.idents or n in LEAN_KEYWORDS:
            n += "_"
        self.idents.add(n)
        return n

    def fresh(self):
        while True:
            self.fresh_n += 1
            n = "v%d" % self.fresh_n
            if n not in self.idents:
                return n

    # -- types
    def resolve_type(self, t):
        """(type, is `&mut`)"""
        k = t.kind
        if k == "tunit":
            return "unit", False
        if k == "tref":
            inner, _ = self.resolve_type(t.inner)
            return inner, t.mut
        if k == "tslice":
            e, _ = self.resolve_type(t.elem)
            if e != "u8":
                raise Unsupported("slice of `%s`" % show_type(t.elem), t.line)
            return "SliceU8", False
        if k == "tarray":
            e, _ = self.resolve_type(t.elem)
            n = t.len
            while n.kind == "paren":
                n = n.expr
            if e != "u8" or n.kind != "lit":
                raise Unsupported("array type `%s`" % show_type(t), t.line)
            return ("array", n.value), False
        if k == "tname":
            name = t.name
            if name == "Result" and t.segs in (["Result"], ["anyhow", "Result"]) and len(t.args) == 1:
                inner, _ = self.resolve_type(t.args[0])
                return ("result", inner), False
            if name == "Vec" and len(t.args) == 1:
                e, _ = self.resolve_type(t.args[0])
                if e != "u8":
                    raise Unsupported("type `%s`" % show_type(t), t.line)
                return "VecU8", False
            if t.args:
                raise Unsupported("generic type `%s`" % show_type(t), t.line)
            if name in OTHER_INTS:
                raise Unsupported("integer type `%s`" % name, t.line)
            if name in INTS or name == "bool" or name in BUF_TYPES or name in STRUCT_TYPES or name in self.enums:
                return name, False
            raise Unsupported("type `%s`" % show_type(t), t.line)
        raise Unsupported("type", t.line)

    # -- names
    def lookup(self, name, line):
        for scope in reversed(self.scopes):
            if name in scope:
                return scope[name]
        raise Unsupported("unknown name `%s`" % name, line)

    def declare(self, name, ty, mut, line):
        for scope in self.scopes:
            if name in scope:
                raise Unsupported("shadowing of `%s`" % name, line)
        if name in (self.ov, "utf8Ok"):
            raise Unsupported("local name `%s` clashes with a generated name" % name, line)
        self.order += 1
        self.scopes[-1][name] = Var(name, ty, mut, self.order)

    def strip(self, e):
        while e.kind in ("paren", "ref", "deref"):
            e = e.expr
        return e

    def is_bare_literal(self, e):
        while e.kind == "paren":
            e = e.expr
        return e.kind == "lit" and e.suffix is None

    # -- paths
    def ctor_of(self, segs, line):
        """(enum name, variant name, field types) for a path naming an enum variant, else None"""
        if len(segs) >= 2 and segs[-2] in self.enums:
            for vname, fields in self.enums[segs[-2]]:
                if vname == segs[-1]:
                    return segs[-2], vname, fields
            if (segs[-2], segs[-1]) in ASSOC:
                return None
            raise Unsupported("unknown variant `%s`" % "::".join(segs), line)
        return None

    def call_sig(self, e, check=True):
        """(argument types, result type, lean function) of a path call"""
        segs = e.segs
        c = self.ctor_of(segs, e.line)
        if c:
            if not c[2]:
                raise Unsupported("call of unit variant `%s`" % "::".join(segs), e.line)
            return c[2], c[0], "%s.%s" % (c[0], c[1])
        if len(segs) >= 2 and (segs[-2], segs[-1]) in ASSOC:
            args, ret, fn, needs_unsafe = ASSOC[(segs[-2], segs[-1])]
            if not check:
                return args, ret, fn
            if needs_unsafe and self.unsafe_depth == 0:
                raise Unsupported("call of unsafe fn `%s` outside an `unsafe` block (rustc would reject)" % "::".join(segs), e.line)
            if "utf8Ok" in fn:
                self.uses_utf8 = True
            return args, ret, fn
        raise Unsupported("call of `%s`" % "::".join(segs), e.line)

    # -- types of expressions that are determined without context
    def try_type(self, e):
        k = e.kind
        if k in ("paren", "ref", "deref"):
            return self.try_type(e.expr)
        if k == "lit":
            return e.suffix
        if k == "bool" or k == "not":
            return "bool" if k == "bool" else self.try_type(e.expr)
        if k == "unitval":
            return "unit"
        if k == "str":
            return "str"
        if k == "var":
            return self.lookup(e.name, e.line).ty
        if k == "path":
            c = self.ctor_of(e.segs, e.line)
            return c[0] if c else None
        if k == "call":
            if e.segs == ["Ok"] or e.segs == ["Err"]:
                if e.segs == ["Ok"] and len(e.args) == 1:
                    t = self.try_type(e.args[0])
                    return ("result", t) if t else None
                return None
            return self.call_sig(e, check=False)[1]
        if k == "cast":
            return self.resolve_type(e.ty)[0]
        if k == "bin":
            if e.op in ("==", "!=", "<", ">", "<=", ">=", "&&", "||"):
                return "bool"
            return self.try_type(e.l) or self.try_type(e.r)
        if k == "index":
            return "u8" if is_bytes(self.try_type(e.base)) else None
        if k == "try":
            t = self.try_type(e.expr)
            return t[1] if isinstance(t, tuple) and t[0] == "result" else None
        if k == "mcall":
            rt = self.try_type(e.base)
            sig = method_sig(rt, e.name) if rt else None
            return sig[1] if sig else None
        if k == "block":
            if e.tail is None:
                return "unit"
            self.scopes.append({})
            try:
                for s in e.stmts:
                    if s.kind == "let":
                        ty = self.resolve_type(s.ty)[0] if s.ty else self.try_type(s.expr)
                        if ty is None:
                            return None
                        self.scopes[-1][s.name] = Var(s.name, ty, s.mut, 0)
                return self.try_type(e.tail)
            except Unsupported:
                return None
            finally:
                self.scopes.pop()
        if k == "if":
            return self.try_type(e.then) or (self.try_type(e.els) if e.els else "unit")
        if k == "match":
            for a in e.arms:
                if self.diverges(a.body):
                    continue
                try:
                    t = self.try_type_arm(e, a)
                except Unsupported:
                    t = None
                if t:
                    return t
            return None
        return None

    def try_type_arm(self, m, a):
        st = self.try_type(m.scrut)
        self.scopes.append({})
        try:
            if st:
                self.bind_pattern_types(a.pat, st)
            return self.try_type(a.body)
        finally:
            self.scopes.pop()

    def bind_pattern_types(self, p, ty):
        if p.kind == "pbind":
            self.scopes[-1][p.name] = Var(p.name, ty, False, 0)
        elif p.kind == "pctor":
            c = self.ctor_of(p.segs, p.line)
            if c and len(c[2]) == len(p.subs):
                for sp, ft in zip(p.subs, c[2]):
                    self.bind_pattern_types(sp, ft)

    def diverges(self, e):
        if e.kind == "macro" and e.name == "bail":
            return True
        if e.kind == "return":
            return True
        if e.kind == "block":
            if e.tail is not None:
                return self.diverges(e.tail)
            return bool(e.stmts) and (e.stmts[-1].kind == "return" or
                                      (e.stmts[-1].kind == "exprstmt" and self.diverges(e.stmts[-1].expr)))
        return False

    # -- expressions
    def lit(self, v, ty):
        return "(%d : %s)" % (v, LEAN_INT[ty])

    def compatible(self, ty, want):
        if want == "bytes":
            return is_bytes(ty)
        if want == "VecU8":
            return ty == "VecU8"
        return ty == want

    def args(self, e, argtys, pre, what):
        if len(e.args) != len(argtys):
            raise Unsupported("%s takes %d argument(s), %d given (rustc would reject)" % (what, len(argtys), len(e.args)), e.line)
        terms = []
        for a, want in zip(e.args, argtys):
            ty, t = self.ex(a, None if want == "bytes" else want, pre)
            if not self.compatible(ty, want):
                raise Unsupported("argument of %s has type `%s`, expected `%s` (rustc would reject)" % (what, type_str(ty), want), a.line)
            terms.append(t)
        return terms

    def ex(self, e, expected, pre):
        """type-check `e` against `expected` (None = must be self-determined) and return (type, lean term).
        Reads, panic conditions and buffer updates are appended to `pre` in evaluation order."""
        k = e.kind
        if k in ("paren", "ref", "deref"):
            return self.ex(e.expr, expected, pre)
        if k == "lit":
            ty = e.suffix or expected
            if ty not in INTS:
                raise Unsupported("cannot determine the type of literal `%d`" % e.value, e.line)
            if e.value >= 1 << BITS[ty]:
                raise Unsupported("literal out of range (rustc would reject)", e.line)
            return ty, self.lit(e.value, ty)
        if k == "bool":
            return "bool", ("true" if e.value else "false")
        if k == "unitval":
            return "unit", "()"
        if k == "str":
            return "str", "()"
        if k == "var":
            v = self.lookup(e.name, e.line)
            return v.ty, lean_name(e.name)
        if k == "not":
            ty, t = self.ex(e.expr, "bool", pre)
            if ty != "bool":
                raise Unsupported("`!` on a `%s`" % type_str(ty), e.line)
            return "bool", "(!%s)" % t
        if k == "path":
            c = self.ctor_of(e.segs, e.line)
            if not c:
                raise Unsupported("path expression `%s`" % show_expr(e), e.line)
            if c[2]:
                raise Unsupported("tuple variant `%s` used as a value" % show_expr(e), e.line)
            return c[0], "%s.%s" % (c[0], c[1])
        if k == "call":
            return self.ex_call(e, expected, pre)
        if k == "macro":
            if e.name in ("anyhow", "format"):
                self.pure_args(e)
                return ("anyerr" if e.name == "anyhow" else "str"), "()"
            raise Unsupported("macro `%s!` in expression position" % e.name, e.line)
        if k == "cast":
            return self.ex_cast(e, pre)
        if k == "index":
            bty, b = self.ex(e.base, None, pre)
            if not is_bytes(bty):
                raise Unsupported("indexing into a `%s`" % type_str(bty), e.line)
            ity, i = self.ex(e.idx, "usize", pre)
            if ity != "usize":
                raise Unsupported("index of type `%s` (rustc would reject)" % type_str(ity), e.line)
            v = self.fresh()
            pre.append("Flow.bind (Flow.byteAt %s %s) fun %s =>" % (b, i, v))
            return "u8", v
        if k == "try":
            ty, t = self.ex(e.expr, ("result", expected) if expected else None, pre)
            if not (isinstance(ty, tuple) and ty[0] == "result"):
                raise Unsupported("`?` on a `%s`" % type_str(ty), e.line)
            if not (isinstance(self.ret_ty, tuple) and self.ret_ty[0] == "result"):
                raise Unsupported("`?` in a function that does not return a `Result` (rustc would reject)", e.line)
            v = self.fresh()
            pre.append("Flow.bind (Flow.question %s %s) fun %s =>" % (t, self.ret_term("RResult.err"), v))
            return ty[1], v
        if k == "mcall":
            return self.ex_mcall(e, expected, pre)
        if k == "bin":
            return self.ex_bin(e, expected, pre)
        if k in ("match", "if", "block"):
            return self.ex_cf(e, expected, pre)
        raise Unsupported("expression `%s`" % show_expr(e), e.line)

    def pure_args(self, e):
        """format arguments of `bail!`/`anyhow!`/`format!`: evaluated for their text only, so they must be free of
        panics and of effects; nothing is emitted for them"""
        for a in e.args:
            scratch = []
            saved = self.fresh_n
            self.ex(a, self.try_type(a), scratch)
            self.fresh_n = saved
            if scratch:
                raise Unsupported("argument `%s` of `%s!` can panic or has an effect" % (show_expr(a), e.name), a.line)

    def ex_call(self, e, expected, pre):
        if e.segs == ["Ok"]:
            want = expected[1] if isinstance(expected, tuple) and expected[0] == "result" else None
            if len(e.args) != 1:
                raise Unsupported("`Ok` with %d arguments" % len(e.args), e.line)
            ty, t = self.ex(e.args[0], want, pre)
            return ("result", ty), "(RResult.ok %s)" % t
        if e.segs == ["Err"]:
            if not (isinstance(expected, tuple) and expected[0] == "result"):
                raise Unsupported("cannot determine the type of `Err(..)`", e.line)
            if len(e.args) != 1:
                raise Unsupported("`Err` with %d arguments" % len(e.args), e.line)
            ty, _ = self.ex(e.args[0], None, pre)
            if ty != "anyerr":
                raise Unsupported("`Err` of a `%s` (only `anyhow!(..)` is supported)" % type_str(ty), e.line)
            return expected, "RResult.err"
        argtys, ret, fn = self.call_sig(e)
        terms = self.args(e, argtys, pre, "`%s`" % "::".join(e.segs))
        return ret, "(%s %s)" % (fn, " ".join(terms))

    def ex_cast(self, e, pre):
        target, _ = self.resolve_type(e.ty)
        if target not in ARITH_INTS:
            raise Unsupported("cast to `%s`" % show_type(e.ty), e.line)
        if self.is_bare_literal(e.expr):
            raise Unsupported("cast of an unsuffixed literal", e.line)
        sty, s = self.ex(e.expr, None, pre)
        if sty == "Socks5AddressType":
            s = "(Socks5AddressType.as_u8 %s)" % s
            sty = "u8"
        if sty not in ARITH_INTS:
            raise Unsupported("cast from `%s`" % type_str(sty), e.line)
        if sty == target:
            return target, s
        return target, "(%s.as_%s %s)" % (PREFIX[sty], target, s)

    def place(self, e, what):
        b = self.strip(e)
        if b.kind != "var":
            raise Unsupported("%s on `%s` (only on a variable)" % (what, show_expr(e)), e.line)
        v = self.lookup(b.name, b.line)
        if not v.mut:
            raise Unsupported("%s on immutable `%s` (rustc would reject)" % (what, b.name), e.line)
        return v

    def ex_mcall(self, e, expected, pre):
        rty = self.try_type(e.base)
        if rty is None:
            raise Unsupported("cannot determine the receiver type of `.%s(..)`" % e.name, e.line)
        sig = method_sig(rty, e.name)
        if sig is None:
            raise Unsupported("method `.%s(..)` on a `%s`" % (e.name, type_str(rty)), e.line)
        argtys, ret, kind, fn = sig
        what = "`.%s(..)`" % e.name
        if kind == "pure":
            _, r = self.ex(e.base, None, pre)
            terms = self.args(e, argtys, pre, what)
            return ret, "(%s)" % " ".join([fn, r] + terms)
        v = self.place(e.base, what)
        terms = self.args(e, argtys, pre, what)
        name = lean_name(v.name)
        if kind == "read":
            x = self.fresh()
            pre.append("Flow.bind (%s) fun (%s, %s) =>" % (" ".join([fn, name] + terms), name, x))
            return ret, x
        if kind == "adv":
            pre.append("Flow.bind (%s) fun %s =>" % (" ".join([fn, name] + terms), name))
            return "unit", "()"
        pre.append("let %s : %s := %s" % (name, lean_type(v.ty), " ".join([fn, name] + terms)))
        return "unit", "()"

    def arith(self, pre, cond):
        pre.append("Flow.bind (Flow.arith %s (%s)) fun () =>" % (self.ov, cond))

    def ex_bin(self, e, expected, pre):
        op = e.op
        if op in ("&&", "||"):
            lt, l = self.ex(e.l, "bool", pre)
            rpre = []
            rt, r = self.ex(e.r, "bool", rpre)
            if rpre:
                raise Unsupported("right operand of `%s` can panic or has an effect" % op, e.line)
            if lt != "bool" or rt != "bool":
                raise Unsupported("`%s` on non-bool operands (rustc would reject)" % op, e.line)
            return "bool", "(%s %s %s)" % (l, op, r)
        if op in ("/", "%", "^", "<<", ">>", "&", "|"):
            raise Unsupported("operator `%s`" % op, e.line)
        if op in ("+", "-", "*"):
            ty = self.try_type(e.l) or self.try_type(e.r) or expected
            if ty not in ARITH_INTS:
                raise Unsupported("cannot determine the operand type of `%s`" % op, e.line)
            lt, l = self.ex(e.l, ty, pre)
            rt, r = self.ex(e.r, ty, pre)
            if lt != ty or rt != ty:
                raise Unsupported("mismatched operand types for `%s` (rustc would reject)" % op, e.line)
            okfn = {"+": "addOk", "-": "subOk", "*": "mulOk"}[op]
            self.arith(pre, "%s.%s %s %s" % (ARITH_PREFIX[ty], okfn, l, r))
            return ty, "(%s %s %s)" % (l, op, r)
        if op in ("==", "!=", "<", ">", "<=", ">="):
            ty = self.try_type(e.l) or self.try_type(e.r)
            if ty is None:
                raise Unsupported("cannot determine the operand type of `%s`" % op, e.line)
            if ty not in ARITH_INTS and not (ty in ("bool", "Socks5AddressType") and op in ("==", "!=")):
                raise Unsupported("comparison of `%s` values" % type_str(ty), e.line)
            lt, l = self.ex(e.l, ty, pre)
            rt, r = self.ex(e.r, ty, pre)
            if lt != ty or rt != ty:
                raise Unsupported("mismatched operand types for `%s` (rustc would reject)" % op, e.line)
            if op in ("==", "!="):
                return "bool", "(%s %s %s)" % (l, op, r)
            sym = {"<": "<", ">": ">", "<=": "≤", ">=": "≥"}[op]
            return "bool", "(decide (%s %s %s))" % (l, sym, r)
        raise Unsupported("operator `%s`" % op, e.line)

    def ex_cf(self, e, expected, pre):
        """`match` / `if` / block in value position"""
        ty = expected or self.try_type(e)
        if ty is None:
            raise Unsupported("cannot determine the type of `%s`" % show_expr(e), e.line)
        names = self.outer_mutated([e])
        v = self.fresh()
        saved = self.lines
        self.lines = []
        self.emit(0, "Flow.bind (")
        self.cf(e, 1, ("value", names, ty, v))
        self.emit(0, ") fun %s =>" % self.pat(names + [v]))
        pre.extend(self.lines)
        self.lines = saved
        return ty, v

    # ------------------------------------------------------------------------------------
    # statements and control flow
    # ------------------------------------------------------------------------------------
    def emit(self, ind, text):
        self.lines.append("  " * ind + text)

    def emit_pre(self, ind, pre):
        for p in pre:
            self.emit(ind, p)

    def pat(self, names):
        ns = [lean_name(n) for n in names]
        if len(ns) == 0:
            return "()"
        if len(ns) == 1:
            return ns[0]
        return "(%s)" % ", ".join(ns)

    def ret_term(self, val):
        if self.mut_params:
            return "(%s)" % ", ".join([lean_name(n) for n in self.mut_params] + [val])
        return val

    def outer_mutated(self, nodes):
        """outer variables that may be assigned / advanced / appended to inside `nodes` (syntactic
        over-approximation: every receiver of a `get_*`/`put_*`/`split_to`/`advance`/... call)"""
        found, declared = [], set()

        def add(e):
            b = self.strip(e)
            while b.kind == "index":
                b = self.strip(b.base)
            if b.kind == "var" and b.name not in found:
                found.append(b.name)

        def walk(n):
            if isinstance(n, list):
                for x in n:
                    walk(x)
                return
            if not isinstance(n, Node):
                return
            if n.kind == "let":
                declared.add(n.name)
            if n.kind == "pbind":
                declared.add(n.name)
            if n.kind == "assign":
                add(n.target)
            if n.kind == "mcall" and MUTATING.fullmatch(n.name):
                add(n.base)
            for key, val in n.__dict__.items():
                if key in ("kind", "line", "ty"):
                    continue
                if isinstance(val, (Node, list)):
                    walk(val)
        walk(nodes)
        names = []
        for n in found:
            if n in declared:
                continue
            for scope in self.scopes:
                if n in scope:
                    names.append(n)
                    break
        names.sort(key=lambda n: self.lookup(n, 0).order)
        return names

    def emit_return_value(self, ty, t, line, ind):
        if ty != self.ret_ty:
            raise Unsupported("returned value has type `%s`, function returns `%s` (rustc would reject)" % (type_str(ty), type_str(self.ret_ty)), line)
        self.emit(ind, "Flow.ret %s" % self.ret_term(t))

    def emit_bail(self, e, ind):
        if not (isinstance(self.ret_ty, tuple) and self.ret_ty[0] == "result"):
            raise Unsupported("`bail!` in a function that does not return a `Result` (rustc would reject)", e.line)
        self.pure_args(e)
        self.emit(ind, "Flow.ret %s" % self.ret_term("RResult.err"))

    def leaf(self, e, ind, mode):
        """a plain expression at the end of a control-flow path"""
        if e.kind == "macro" and e.name == "bail":
            self.emit_bail(e, ind)
            return
        if e.kind == "return":
            self.stmt_return(e, ind)
            return
        pre = []
        self.emit(ind, "-- L%d: %s   (%s)" % (e.line, show_expr(e), "value of the function body" if mode[0] == "tail" else
                                             "value" if mode[0] == "value" else "statement"))
        if mode[0] == "tail":
            ty, t = self.ex(e, self.ret_ty, pre)
            self.emit_pre(ind, pre)
            self.emit_return_value(ty, t, e.line, ind)
        elif mode[0] == "value":
            ty, t = self.ex(e, mode[2], pre)
            if ty != mode[2]:
                raise Unsupported("value of type `%s` where `%s` is expected (rustc would reject)" % (type_str(ty), type_str(mode[2])), e.line)
            self.emit_pre(ind, pre)
            self.emit(ind, "Flow.next %s" % self.tuple_term(mode[1], t))
        else:
            ty, t = self.ex(e, "unit", pre)
            if ty != "unit":
                raise Unsupported("expression of type `%s` used as a statement" % type_str(ty), e.line)
            self.emit_pre(ind, pre)
            self.emit(ind, "Flow.next %s" % self.pat(mode[1]))

    def tuple_term(self, names, t):
        if not names:
            return t
        return "(%s)" % ", ".join([lean_name(n) for n in names] + [t])

    def fallthrough(self, ind, mode, line):
        """end of a block that has no value"""
        if mode[0] == "tail":
            if self.ret_ty != "unit":
                raise Unsupported("function body path without a final value", line)
            self.emit(ind, "Flow.ret %s" % self.ret_term("()"))
        elif mode[0] == "value":
            if mode[2] != "unit":
                raise Unsupported("block without a value where `%s` is expected (rustc would reject)" % type_str(mode[2]), line)
            self.emit(ind, "Flow.next %s" % self.tuple_term(mode[1], "()"))
        else:
            self.emit(ind, "Flow.next %s" % self.pat(mode[1]))

    def cf(self, e, ind, mode):
        """emit `e` as a control-flow tree whose paths end according to `mode`:
        ('tail',) return from the function | ('value', names, type, v) `Flow.next (names.., value)`
        | ('stmt', names) `Flow.next names`"""
        k = e.kind
        if k == "paren":
            self.cf(e.expr, ind, mode)
        elif k == "block":
            if e.unsafe:
                self.emit(ind, "-- L%d: unsafe { ... }" % e.line)
                self.unsafe_depth += 1
            self.scopes.append({})
            done = self.stmts(e.stmts, ind)
            if e.tail is not None:
                if done:
                    raise Unsupported("expression after `return`", e.tail.line)
                self.cf(e.tail, ind, mode)
            elif not done:
                self.fallthrough(ind, mode, e.line)
            self.scopes.pop()
            if e.unsafe:
                self.unsafe_depth -= 1
        elif k == "if":
            pre = []
            ty, c = self.ex(e.cond, "bool", pre)
            if ty != "bool":
                raise Unsupported("`if` condition of type `%s` (rustc would reject)" % type_str(ty), e.line)
            self.emit_pre(ind, pre)
            self.emit(ind, "if %s then" % c)
            self.cf(e.then, ind + 1, mode)
            self.emit(ind, "else")
            if e.els is not None:
                self.cf(e.els, ind + 1, mode)
            else:
                self.fallthrough(ind + 1, mode, e.line)
        elif k == "match":
            self.cf_match(e, ind, mode)
        else:
            self.leaf(e, ind, mode)

    def stmts(self, stmts, ind):
        """emit statements; True when the last one leaves the function (nothing may follow)"""
        done = False
        for s in stmts:
            if done:
                raise Unsupported("statement after `return`/`bail!`", s.line)
            k = s.kind
            if k == "let":
                self.emit(ind, "-- L%d: let %s%s = %s;" % (s.line, "mut " if s.mut else "", s.name, show_expr(s.expr)))
                pre = []
                want = self.resolve_type(s.ty)[0] if s.ty else None
                ty, t = self.ex(s.expr, want or self.try_type(s.expr), pre)
                if want and want != ty:
                    raise Unsupported("`let %s` type annotation mismatch (rustc would reject)" % s.name, s.line)
                if ty in ("unit", "str", "anyerr"):
                    raise Unsupported("`let` of a `%s` value" % type_str(ty), s.line)
                self.emit_pre(ind, pre)
                self.declare(s.name, ty, s.mut, s.line)
                self.emit(ind, "let %s : %s := %s" % (lean_name(s.name), lean_type(ty), t))
            elif k == "assign":
                self.stmt_assign(s, ind)
            elif k == "return":
                self.emit(ind, "-- L%d: %s;" % (s.line, show_expr(s)))
                self.stmt_return(s, ind)
                done = True
            elif k == "exprstmt":
                e = s.expr
                if e.kind == "macro" and e.name == "bail":
                    self.emit(ind, "-- L%d: %s;" % (s.line, show_expr(e)))
                    self.emit_bail(e, ind)
                    done = True
                elif e.kind in ("if", "match", "block"):
                    names = self.outer_mutated([e])
                    self.emit(ind, "-- L%d: %s   (assigns: %s)" % (s.line, show_expr(e), ", ".join(names) if names else "nothing"))
                    self.emit(ind, "Flow.bind (")
                    self.cf(e, ind + 1, ("stmt", names))
                    self.emit(ind, ") fun %s =>" % self.pat(names))
                else:
                    self.emit(ind, "-- L%d: %s;" % (s.line, show_expr(e)))
                    if e.kind not in ("mcall", "try"):
                        raise Unsupported("expression statement `%s`" % show_expr(e), s.line)
                    pre = []
                    self.ex(e, None, pre)
                    self.emit_pre(ind, pre)
            else:
                raise Unsupported("statement", s.line)
        return done

    def stmt_return(self, s, ind):
        if s.expr is None:
            if self.ret_ty != "unit":
                raise Unsupported("`return;` in a function returning a value (rustc would reject)", s.line)
            self.emit(ind, "Flow.ret %s" % self.ret_term("()"))
        else:
            self.cf(s.expr, ind, ("tail",))

    def stmt_assign(self, s, ind):
        tgt = self.strip(s.target) if s.target.kind == "paren" else s.target
        self.emit(ind, "-- L%d: %s %s= %s;" % (s.line, show_expr(tgt), s.op or "", show_expr(s.expr)))
        if tgt.kind != "var":
            raise Unsupported("assignment target `%s`" % show_expr(tgt), s.line)
        v = self.lookup(tgt.name, tgt.line)
        if not v.mut or tgt.name in self.mut_params:
            raise Unsupported("assignment to `%s` (immutable, or a `&mut` parameter)" % tgt.name, s.line)
        value = s.expr
        if s.op is not None:
            value = Node("bin", s.line, op=s.op, l=tgt, r=Node("paren", s.line, expr=s.expr))
        pre = []
        ty, t = self.ex(value, v.ty, pre)
        if ty != v.ty:
            raise Unsupported("assignment of `%s` to `%s: %s` (rustc would reject)" % (type_str(ty), tgt.name, type_str(v.ty)), s.line)
        self.emit_pre(ind, pre)
        self.emit(ind, "let %s : %s := %s" % (lean_name(tgt.name), lean_type(ty), t))

    # -- match: compiled to a case tree over the constructors (in declaration order), so that guards,
    #    nested patterns and wildcards have their Rust first-match semantics
    def cf_match(self, e, ind, mode):
        pre = []
        sty, st = self.ex(e.scrut, None, pre)
        if sty not in self.enums:
            raise Unsupported("`match` on a `%s`" % type_str(sty), e.line)
        self.emit(ind, "-- L%d: match %s { ... }" % (e.line, show_expr(e.scrut)))
        self.emit_pre(ind, pre)
        rows = [([a.pat], [], a) for a in e.arms]
        self.case_tree([(st, sty)], rows, ind, mode, e.line)

    def case_tree(self, cols, rows, ind, mode, line):
        if not rows:
            raise Unsupported("non-exhaustive `match` (rustc would reject)", line)
        idx = None
        for i in range(len(cols)):
            if any(r[0][i].kind == "pctor" for r in rows):
                idx = i
                break
        if idx is None:
            pats, binds, arm = rows[0]
            binds = list(binds)
            for p, (term, ty) in zip(pats, cols):
                if p.kind == "pbind":
                    binds.append((p.name, term, ty, p.line))
            self.scopes.append({})
            self.emit(ind, "-- L%d: %s%s => ..." % (arm.line, show_pat(arm.pat), (" if " + show_expr(arm.guard)) if arm.guard else ""))
            for name, term, ty, bl in binds:
                self.declare(name, ty, False, bl)
                self.emit(ind, "let %s : %s := %s" % (lean_name(name), lean_type(ty), term))
            if arm.guard is not None:
                if self.outer_mutated([arm.guard]):
                    raise Unsupported("match guard with an effect", arm.line)
                pre = []
                ty, g = self.ex(arm.guard, "bool", pre)
                if ty != "bool":
                    raise Unsupported("guard of type `%s` (rustc would reject)" % type_str(ty), arm.line)
                self.emit_pre(ind, pre)
                self.emit(ind, "if %s then" % g)
                self.cf(arm.body, ind + 1, mode)
                self.emit(ind, "else")
                self.scopes.pop()
                self.case_tree(cols, rows[1:], ind + 1, mode, line)
                return
            self.cf(arm.body, ind, mode)
            self.scopes.pop()
            return
        term, ty = cols[idx]
        if ty not in self.enums:
            raise Unsupported("constructor pattern for a `%s`" % type_str(ty), line)
        for r in rows:
            p = r[0][idx]
            if p.kind == "pctor":
                c = self.ctor_of(p.segs, p.line) if len(p.segs) >= 2 else None
                if c is None or c[0] != ty:
                    raise Unsupported("pattern `%s` for a `%s`" % (show_pat(p), type_str(ty)), p.line)
                if len(p.subs) != len(c[2]):
                    raise Unsupported("pattern `%s` has the wrong number of fields (rustc would reject)" % show_pat(p), p.line)
        self.emit(ind, "(match %s with" % term)
        for vname, ftys in self.enums[ty]:
            fields = [self.fresh() for _ in ftys]
            self.emit(ind, "| %s.%s%s =>" % (ty, vname, "".join(" " + f for f in fields)))
            newcols = cols[:idx] + list(zip(fields, ftys)) + cols[idx + 1:]
            newrows = []
            for pats, binds, arm in rows:
                p = pats[idx]
                if p.kind == "pctor":
                    if p.segs[-1] != vname:
                        continue
                    newrows.append((pats[:idx] + p.subs + pats[idx + 1:], binds, arm))
                else:
                    nb = binds + [(p.name, term, ty, p.line)] if p.kind == "pbind" else binds
                    wild = [Node("pwild", p.line) for _ in ftys]
                    newrows.append((pats[:idx] + wild + pats[idx + 1:], nb, arm))
            self.case_tree(newcols, newrows, ind + 1, mode, line)
        self.lines[-1] += ")"

    # ------------------------------------------------------------------------------------
    # items
    # ------------------------------------------------------------------------------------
    def gen_enum(self, en, origin):
        out = self.out
        variants = []
        for v in en.variants:
            ftys = []
            for f in v.fields:
                ty, _ = self.resolve_type(f)
                if ty in ("unit", "Address") or isinstance(ty, tuple):
                    raise Unsupported("field of type `%s` in `enum %s`" % (show_type(f), en.name), f.line)
                ftys.append(ty)
            if any(v.name == w[0] for w in variants):
                raise Unsupported("duplicate variant `%s`" % v.name, v.line)
            variants.append((v.name, ftys))
        if not variants:
            raise Unsupported("`enum %s` without variants" % en.name, en.line)
        out.append("/-! ### enum %s (parsed from %s) -/" % (en.name, origin))
        out.append("inductive %s where" % en.name)
        for v, (vname, ftys) in zip(en.variants, variants):
            out.append("  -- L%d: %s%s" % (v.line, vname, ("(%s)" % ", ".join(show_type(f) for f in v.fields)) if v.fields else ""))
            out.append("  | %s%s" % (lean_name(vname), "".join(" (a%d : %s)" % (i, lean_type(t)) for i, t in enumerate(ftys))))
        out.append("deriving DecidableEq, Repr")
        out.append("")
        self.enums[en.name] = variants

    def gen_fn(self, fn):
        out = self.out
        self.scopes = [{}]
        self.order = 0
        self.lines = []
        self.unsafe_depth = 0
        self.uses_utf8 = False
        self.ret_ty, _ = self.resolve_type(fn.ret)
        if self.ret_ty in ("str", "anyerr") or self.ret_ty == ("result", "unit") and False:
            raise Unsupported("return type `%s`" % show_type(fn.ret), fn.line)
        params = []
        sig = []
        self.mut_params = []
        for prm in fn.params:
            ty, mut = self.resolve_type(prm.ty)
            if ty == "unit" or isinstance(ty, tuple) and ty[0] == "result":
                raise Unsupported("parameter of type `%s`" % show_type(prm.ty), prm.line)
            if mut and not (ty in ("BytesMut", "Bytes", "VecU8", "SliceU8")):
                raise Unsupported("`&mut %s` parameter" % type_str(ty), prm.line)
            if mut and ty == "SliceU8" and not (prm.ty.inner.kind == "tref"):
                raise Unsupported("`&mut [u8]` parameter (only the cursor `&mut &[u8]` is supported)", prm.line)
            self.declare(prm.name, ty, mut, prm.line)
            if mut:
                self.mut_params.append(prm.name)
            params.append("(%s : %s)" % (lean_name(prm.name), lean_type(ty)))
            sig.append("%s: %s" % (prm.name, show_type(prm.ty)))
        self.cf(fn.body, 1, ("tail",))
        rty = lean_type(self.ret_ty)
        if self.mut_params:
            rty = " × ".join([lean_type(self.lookup(n, fn.line).ty) for n in self.mut_params] + [rty])
        head = ["(%s : Bool)" % self.ov]
        if self.uses_utf8:
            head.append("(utf8Ok : List UInt8 → Bool)")
        out.append("-- L%d: fn %s(%s) -> %s" % (fn.line, fn.name, ", ".join(sig), show_type(fn.ret)))
        if self.mut_params:
            out.append("/-- `%s`; the result is the tuple (%s, returned value) -/" % (fn.name, ", ".join("final `*%s`" % n for n in self.mut_params)))
        else:
            out.append("/-- `%s` -/" % fn.name)
        out.append("def %s %s : Res (%s) :=" % (lean_name(fn.name), " ".join(head + params), rty))
        out.append("  Flow.run (")
        out.extend(self.lines)
        out.append("  )")
        out.append("")


# --------------------------------------------------------------------------------------------
# fixed run-time support (library semantics), written into every generated file
# --------------------------------------------------------------------------------------------

def int_support():
    parts = []
    for ty in ("u8", "u16", "u32"):
        P, L, B = PREFIX[ty], LEAN_INT[ty], BITS[ty]
        parts.append("/-- `a + b` / `a - b` / `a * b` on `%s` do not overflow (checked only when overflow-checks are on) -/" % ty)
        parts.append("def %s.addOk (a b : %s) : Bool := decide (a.toNat + b.toNat < 2 ^ %d)" % (P, L, B))
        parts.append("def %s.subOk (a b : %s) : Bool := decide (b.toNat ≤ a.toNat)" % (P, L))
        parts.append("def %s.mulOk (a b : %s) : Bool := decide (a.toNat * b.toNat < 2 ^ %d)" % (P, L, B))
    parts.append("")
    parts.append("/-! `x as T` between unsigned integer types: zero-extension / truncation modulo `2^bits(T)` -/")
    for s in ARITH_INTS:
        for d in ARITH_INTS:
            if s == d or (s, d) in (("u64", "usize"), ("usize", "u64")):
                continue   # u64 <-> usize: `U64.as_usize` / `Usize.as_u64` of Octo.PWGen
            parts.append("def %s.as_%s (x : %s) : %s := %s.ofNat x.toNat" % (PREFIX[s], d, LEAN_INT[s], LEAN_INT[d],
                                                                           "UInt64" if d == "usize" else LEAN_INT[d]))
    parts.append("")
    for ty in ("u16", "u32", "u64", "u128"):
        L, n = LEAN_INT[ty], BITS[ty] // 8
        of = "BitVec.ofNat 128" if ty == "u128" else "%s.ofNat" % L
        for le in ("", "_le"):
            rev = ".reverse" if le else ""
            parts.append("/-- `Buf::get_%s%s`: %d bytes, %s-endian; panics when fewer remain -/" % (ty, le, n, "little" if le else "big"))
            parts.append("def Flow.get_%s%s {ρ : Type} (b : Cursor) : Flow (Cursor × %s) ρ :=" % (ty, le, L))
            parts.append("  if %d ≤ b.length then .next (b.drop %d, %s (beNat (b.take %d)%s)) else .panic" % (n, n, of, n, rev))
            parts.append("/-- `BufMut::put_%s%s` -/" % (ty, le))
            parts.append("def Cursor.put_%s%s (b : List UInt8) (x : %s) : List UInt8 := b ++ (beBytes %d x.toNat)%s" % (ty, le, L, n, rev))
    return "\n".join(parts)


PRELUDE = r'''
/-! ### fixed run-time support (not derived from the source): library semantics

`Res`, `Flow`, `Flow.bind/run/arith`, `Usize`, `U64.addOk/subOk/mulOk`, `U64.as_usize`, `Usize.as_u64` are those of
`Octo.PWGen` (the fixed prelude of `Octo/Gen/PacketWindowGen.lean`). -/

/-- `anyhow::Result<T>`: the error value itself is not modelled (error texts are never compared) -/
inductive RResult (α : Type) where
  | ok (a : α)
  | err
deriving DecidableEq, Repr

/-- `r?`: the value of `Ok`, or return from the function with `onErr` (= its `Err` result) -/
def Flow.question {τ ρ : Type} (r : RResult τ) (onErr : ρ) : Flow τ ρ :=
  match r with
  | .ok v => .next v
  | .err => .ret onErr

/-- `BytesMut` / `Bytes` / `&[u8]` used through `Buf`: the bytes from the read position to the end -/
abbrev Cursor := List UInt8
/-- `u128` -/
abbrev U128 := BitVec 128

/-- big-endian value of a byte string -/
def beNat (b : List UInt8) : Nat := b.foldl (fun acc x => acc * 256 + x.toNat) 0
/-- the `n` low bytes of `x`, big-endian -/
def beBytes : Nat → Nat → List UInt8
  | 0, _ => []
  | n + 1, x => beBytes n (x / 256) ++ [UInt8.ofNat (x % 256)]

/-- `Buf::has_remaining` -/
def Cursor.has_remaining (b : List UInt8) : Bool := !b.isEmpty
/-- `Buf::remaining` (lengths fit a `usize`) -/
def Cursor.remaining (b : List UInt8) : Usize := UInt64.ofNat b.length
/-- `len()` of a buffer / slice / vector -/
def Cursor.len (b : List UInt8) : Usize := UInt64.ofNat b.length
def Cursor.is_empty (b : List UInt8) : Bool := b.isEmpty
/-- `to_vec()` -/
def Cursor.to_vec (b : List UInt8) : List UInt8 := b

/-- `b[i]` on a buffer or slice: panics out of bounds (every profile) -/
def Flow.byteAt {ρ : Type} (b : List UInt8) (i : Usize) : Flow UInt8 ρ :=
  match b[i.toNat]? with
  | some v => .next v
  | none => .panic

/-- `Buf::get_u8`: panics when nothing remains; yields (advanced cursor, value) -/
def Flow.get_u8 {ρ : Type} (b : Cursor) : Flow (Cursor × UInt8) ρ :=
  match b with
  | [] => .panic
  | x :: r => .next (r, x)

/-- `BytesMut::split_to(n)` / `Bytes::split_to(n)`: panics when `n > len`; yields (rest, first `n` bytes) -/
def Flow.split_to {ρ : Type} (b : Cursor) (n : Usize) : Flow (Cursor × Cursor) ρ :=
  if n.toNat ≤ b.length then .next (b.drop n.toNat, b.take n.toNat) else .panic
/-- `Buf::copy_to_bytes(n)`: panics when `n > remaining` -/
def Flow.copy_to_bytes {ρ : Type} (b : Cursor) (n : Usize) : Flow (Cursor × Cursor) ρ :=
  if n.toNat ≤ b.length then .next (b.drop n.toNat, b.take n.toNat) else .panic
/-- `Buf::advance(n)`: panics when `n > remaining` -/
def Flow.advance {ρ : Type} (b : Cursor) (n : Usize) : Flow Cursor ρ :=
  if n.toNat ≤ b.length then .next (b.drop n.toNat) else .panic

/-- `BufMut::put_u8` -/
def Cursor.put_u8 (b : List UInt8) (x : UInt8) : List UInt8 := b ++ [x]
/-- `BufMut::put_slice` -/
def Cursor.put_slice (b s : List UInt8) : List UInt8 := b ++ s
/-- `BytesMut::extend_from_slice` / `Vec::extend_from_slice` -/
def Cursor.extend_from_slice (b s : List UInt8) : List UInt8 := b ++ s

@INTS@

/-- `String`: its UTF-8 bytes -/
structure RString where
  bytes : List UInt8
deriving DecidableEq, Repr
/-- `String::len` = number of bytes -/
def RString.len (s : RString) : Usize := UInt64.ofNat s.bytes.length
def RString.is_empty (s : RString) : Bool := s.bytes.isEmpty
def RString.as_bytes (s : RString) : List UInt8 := s.bytes
/-- `unsafe String::from_utf8_unchecked(v)`: no validity check, the string *is* the given bytes -/
def RString.from_utf8_unchecked (v : List UInt8) : RString := ⟨v⟩
/-- `String::from_utf8(v)`: validity is decided by the caller-supplied predicate `utf8Ok` -/
def RString.from_utf8 (utf8Ok : List UInt8 → Bool) (v : List UInt8) : RResult RString :=
  if utf8Ok v then .ok ⟨v⟩ else .err

/-- `std::net::Ipv4Addr` = its 32 bits (`Ipv4Addr::from(u32)`, `octets()` = big-endian bytes) -/
structure Ipv4Addr where
  bits : UInt32
deriving DecidableEq, Repr
def Ipv4Addr.from_u32 (x : UInt32) : Ipv4Addr := ⟨x⟩
def Ipv4Addr.octets (a : Ipv4Addr) : List UInt8 := beBytes 4 a.bits.toNat
/-- `std::net::Ipv6Addr` = its 128 bits -/
structure Ipv6Addr where
  bits : U128
deriving DecidableEq, Repr
def Ipv6Addr.from_u128 (x : U128) : Ipv6Addr := ⟨x⟩
def Ipv6Addr.octets (a : Ipv6Addr) : List UInt8 := beBytes 16 a.bits.toNat
/-- `std::net::SocketAddrV4`; `ip()` / `port()` are the projections -/
structure SocketAddrV4 where
  ip : Ipv4Addr
  port : UInt16
deriving DecidableEq, Repr
def SocketAddrV4.new (ip : Ipv4Addr) (port : UInt16) : SocketAddrV4 := ⟨ip, port⟩
/-- `std::net::SocketAddrV6` (with `flowinfo` and `scope_id`, which `==` compares) -/
structure SocketAddrV6 where
  ip : Ipv6Addr
  port : UInt16
  flowinfo : UInt32
  scope_id : UInt32
deriving DecidableEq, Repr
def SocketAddrV6.new (ip : Ipv6Addr) (port : UInt16) (flowinfo scope_id : UInt32) : SocketAddrV6 := ⟨ip, port, flowinfo, scope_id⟩
/-- `std::net::SocketAddr` -/
inductive SocketAddr where
  | V4 (a : SocketAddrV4)
  | V6 (a : SocketAddrV6)
deriving DecidableEq, Repr

/-- `protocol::socks5::Socks5AddressType` (`Ipv4 = 1, Domain = 3, Ipv6 = 4`) -/
inductive Socks5AddressType where
  | Ipv4
  | Domain
  | Ipv6
deriving DecidableEq, Repr
/-- `t as u8`: the discriminant -/
def Socks5AddressType.as_u8 : Socks5AddressType → UInt8
  | .Ipv4 => 1
  | .Domain => 3
  | .Ipv6 => 4
/-- `Socks5AddressType::try_from(u8)`: `Err` for every other byte -/
def Socks5AddressType.try_from (x : UInt8) : RResult Socks5AddressType :=
  if Socks5AddressType.as_u8 .Ipv4 == x then .ok .Ipv4
  else if Socks5AddressType.as_u8 .Domain == x then .ok .Domain
  else if Socks5AddressType.as_u8 .Ipv6 == x then .ok .Ipv6
  else .err
'''


def header(path, digest, p, origin):
    lines = []
    lines.append("/- GENERATED by translate_addr.py — do not edit.")
    lines.append("   source: %s" % path)
    lines.append("   sha256: %s" % digest)
    lines.append("")
    lines.append("   Statement-by-statement translation of the free functions %s" % ", ".join("`%s`" % f.name for f in p.fns))
    lines.append("   (located by name); `enum Address` is parsed from %s; nothing else is translated." % origin)
    lines.append("   * u8/u16/u32/u64 = UIntN, usize = UInt64 (64-bit target), u128 = BitVec 128; `as` = zero-extension / truncation;")
    lines.append("     `+ - *` wrap and are preceded by `Flow.arith ov (...)` (panic when overflow-checks are on, `ov = true`).")
    lines.append("   * `BytesMut`/`Bytes`/`&[u8]`/`Vec<u8>` = List UInt8 (a read cursor = the bytes that remain); `&`/`&mut`/`*` are")
    lines.append("     transparent; a `&mut` parameter is returned next to the result (its final content, also on `Err`).")
    lines.append("   * `get_*`, `split_to`, `copy_to_bytes`, `advance` panic when fewer bytes remain; `b[i]` panics out of bounds;")
    lines.append("     `put_*`, `put_slice`, `extend_from_slice` append; `get_u16`/`put_u16` are big-endian, `_le` little-endian.")
    lines.append("   * `Result<T>` = RResult T (`Ok(x)` = ok x; `bail!`/`Err(anyhow!(..))` = err, texts not modelled; `e?` = Flow.question);")
    lines.append("     format arguments of `bail!` must be free of panics/effects (checked) and are dropped.")
    lines.append("   * `String` = its bytes; `unsafe String::from_utf8_unchecked(v)` = those bytes unchecked; `String::from_utf8(v)` asks")
    lines.append("     the parameter `utf8Ok`.  `Socks5AddressType` (defined in protocol/socks5.rs): Ipv4 = 1, Domain = 3, Ipv6 = 4,")
    lines.append("     `try_from` = Err on every other byte.  std::net types: see the support section.")
    lines.append("   * `match` is compiled to a case tree over the constructors in declaration order (first matching arm, guards")
    lines.append("     tried in source order); `Flow`: next | ret (return) | panic.  Lines `-- Ln:` quote the parsed Rust of line n.")
    lines.append("   skipped (not parsed, bracket matching only):")
    if p.nuse:
        lines.append("     - %d `use` items" % p.nuse)
    for s in p.skipped:
        lines.append("     - %s" % s)
    lines.append("-/")
    return lines


def parse_source(path, want_fns):
    data = open(path, "rb").read()
    try:
        src = data.decode("utf-8")
    except UnicodeDecodeError:
        raise Unsupported("non-UTF-8 source", 1)
    toks = tn.tokenize(src)
    p = Parser(toks, want_fns)
    p.parse_file()
    return data, toks, p


def translate(path):
    data, toks, p = parse_source(path, True)
    digest = hashlib.sha256(data).hexdigest()
    if not p.fns:
        raise Unsupported("none of the functions %s found" % ", ".join(TARGET_FNS), 1)
    seen = set()
    for f in p.fns:
        if f.name in seen:
            raise Unsupported("duplicate fn `%s`" % f.name, f.line)
        seen.add(f.name)
    idents = [t.text for t in toks if t.kind == "ident"]
    if len(p.enums) > 1:
        raise Unsupported("more than one `enum Address`", p.enums[1].line)
    if p.enums:
        en, origin = p.enums[0], "this file"
    else:
        # the enum lives in `protocol/address.rs`, one directory above `protocol/socks5/address.rs` in the real tree
        here = os.path.dirname(os.path.abspath(path))
        side = next((c for c in (os.path.join(here, "address_type.rs"), os.path.join(here, "..", "address.rs")) if os.path.exists(c)), None)
        if side is None:
            raise Unsupported("`enum Address` is neither in this file nor in address_type.rs / ../address.rs next to it", 1)
        sdata, stoks, sp = parse_source(side, False)
        if len(sp.enums) != 1:
            raise Unsupported("address_type.rs does not define exactly one `enum Address`", 1)
        en = sp.enums[0]
        origin = "%s (sha256 %s)" % (os.path.basename(side), hashlib.sha256(sdata).hexdigest())
        idents += [t.text for t in stoks if t.kind == "ident"]
    g = Gen(idents)
    g.out.extend(header(path, digest, p, origin))
    g.out.append("import Octo.Gen.PacketWindowGen")
    g.out.append("set_option linter.unusedVariables false")
    g.out.append("namespace Octo.AddrGen")
    g.out.append("open Octo.PWGen")
    g.out.append(PRELUDE.replace("@INTS@", int_support()))
    g.gen_enum(en, origin.split(" ")[0] if origin != "this file" else origin)
    g.out.append("/-! ### functions -/")
    for f in p.fns:
        g.gen_fn(f)
    g.out.append("end Octo.AddrGen")
    return "\n".join(g.out) + "\n"


def main(argv):
    if len(argv) != 3:
        sys.stderr.write("usage: translate_addr.py <path/to/address.rs> <out.lean>\n")
        return 2
    try:
        text = translate(argv[1])
    except Unsupported as u:
        sys.stderr.write("translate_addr: unsupported: %s at line %d\n" % (u.what, u.line))
        return 3
    except OSError as e:
        sys.stderr.write("translate_addr: %s\n" % e)
        return 2
    try:
        with open(argv[2], "w", encoding="utf-8") as f:
            f.write(text)
    except OSError as e:
        sys.stderr.write("translate_addr: %s\n" % e)
        return 2
    return 0


if __name__ == "__main__":
    sys.exit(main(sys.argv))
