#!/usr/bin/env python3
"""Rust-subset -> Lean 4 translator for the poll-based adapters of `octo-squirrel/src/codec.rs`.

usage:  translate_wsframed.py <path/to/octo-squirrel/src/codec.rs> <out.lean>

Translated from the argument (located by name): `struct WebSocketFramed<T, C, E, D>` with `fn new`,
`impl Stream for WebSocketFramed { fn poll_next }`, `impl Sink<E> for WebSocketFramed { fn poll_ready, start_send,
poll_flush, poll_close }`, and `struct QuicStream` with `impl AsyncWrite for QuicStream { fn poll_shutdown }`.
Every other top-level item (`mod`, `use`, `type`, `BytesCodec` and its impls, `impl Unpin`, the inherent impl of
`QuicStream`, `impl AsyncRead`, the other methods of `impl AsyncWrite`) is skipped by balanced-bracket matching and
listed in the generated header.

Tokenizer of translate_nonce.py (the one of translate_pw.py, tolerant of literals in skipped items), token helpers of
the translate_pw.py parser; the grammar (generic impl headers with `where` clauses, `Pin<&mut Self>` receivers, `loop`
/ `continue` / `return`, `match` with nested patterns, `if let`, `ready!`, `anyhow!`, closures of two fixed shapes,
struct literals), the type checker and the emitter for this file's subset are new here.  The generated code uses the
`Res` / `Flow` run-time support of `Octo/Gen/PacketWindowGen.lean` and `RResult` / `Cursor` of `Octo/Gen/AddrGen.lean`.

What is NOT translated becomes an explicit field of the record `Ext` (WebSocketFramed) / `QExt` (QuicStream) of
assumed externals: the inner `WebSocketStream` (its `Stream` / `Sink` poll functions), the codec `C` (`Decoder::decode`,
`Encoder::encode`; their panic is the caller's panic), `quinn::SendStream::{finish, stopped}` and the poll function of
the boxed `stopped()` future.  The task context `cx` (waker registration) is not modelled: a poll function is a
function of the polled object's state alone.

Exit status:
  0  a Lean module was written
  2  usage / IO error
  3  a construct outside the supported subset inside a target item (or a target item is missing); one line on
     stderr; nothing is written (never a guess).
"""
import hashlib
import os
import sys

sys.path.insert(0, os.path.dirname(os.path.abspath(__file__)))
import translate_pw as pw  # noqa: E402
from translate_pw import Unsupported, Node, RUST_KEYWORDS  # noqa: E402
from translate_nonce import tokenize  # noqa: E402

LEAN_RESERVED = {"at", "from", "fun", "end", "open", "by", "do", "then", "have", "show", "with", "where", "instance",
                 "namespace", "section", "variable", "theorem", "def", "structure", "inductive", "class", "macro",
                 "syntax", "universe", "example", "deriving", "extends", "export", "local", "private", "protected",
                 "mutual", "partial", "noncomputable", "prefix", "infix", "notation", "import", "using", "calc",
                 "nomatch", "Type", "Prop", "Sort", "some", "none", "this", "X", "ov", "fuel"}
LOG_MACROS = ("trace", "debug", "info", "warn", "error")

# name -> suffix its `use` path must end with, for the translator to read it the way it does
USE_SUFFIX = {
    "Poll": ["std", "task", "Poll"], "ready": ["std", "task", "ready"], "Context": ["std", "task", "Context"],
    "Pin": ["std", "pin", "Pin"], "PhantomData": ["std", "marker", "PhantomData"],
    "anyhow": ["anyhow", "anyhow"], "Result": ["anyhow", "Result"],
    "Stream": ["futures", "Stream"], "Sink": ["futures", "Sink"], "StreamExt": ["futures", "StreamExt"],
    "SinkExt": ["futures", "SinkExt"], "BytesMut": ["bytes", "BytesMut"],
    "Decoder": ["codec", "Decoder"], "Encoder": ["codec", "Encoder"],
    "WebSocketStream": ["tokio_websockets", "WebSocketStream"], "AsyncWrite": ["tokio", "io", "AsyncWrite"],
}


# --------------------------------------------------------------------------------------------
# parser
# --------------------------------------------------------------------------------------------

class Parser(pw.Parser):
    def __init__(self, toks):
        pw.Parser.__init__(self, toks)
        self.uses = {}        # bound name -> path segments
        self.skipped = []
        self.structs = {}     # name -> Node(struct)
        self.impls = []       # Node(impl)
        self.aliases = {}     # type alias name -> (line, end)

    # ---- helpers
    def note_skip(self, what, line, end):
        self.skipped.append("%s, line%s" % (what, " %d" % line if line == end else "s %d-%d" % (line, end)))

    def split_gt(self):
        """a `>>` / `>=` / `>>=` token where one `>` is expected: split it"""
        t = self.tok
        if t.kind == "punct" and t.text in (">>", ">=", ">>=") :
            rest = t.text[1:]
            self.toks[self.pos] = pw.Tok("punct", ">", t.line)
            self.toks.insert(self.pos + 1, pw.Tok("punct", rest, t.line))

    def expect_gt(self):
        self.split_gt()
        return self.expect(">")

    def skip_balanced_until(self, stops):
        """advance over tokens (brackets balanced) until one of `stops` at depth 0; returns it (not consumed)"""
        depth = 0
        while True:
            t = self.tok
            if t.kind == "eof":
                raise Unsupported("unexpected end of file", t.line)
            if depth == 0 and t.kind == "punct" and t.text in stops:
                return t
            if t.kind == "punct" and t.text in "([{":
                depth += 1
            elif t.kind == "punct" and t.text in ")]}":
                depth -= 1
                if depth < 0:
                    raise Unsupported("unbalanced `%s`" % t.text, t.line)
            self.advance()

    def skip_braces(self):
        self.expect("{")
        depth = 1
        while depth:
            t = self.advance()
            if t.kind == "eof":
                raise Unsupported("unexpected end of file", t.line)
            if t.kind == "punct" and t.text == "{":
                depth += 1
            elif t.kind == "punct" and t.text == "}":
                depth -= 1
        return self.toks[self.pos - 1].line

    def skip_generics(self):
        """`<...>` with nesting; returns the list of plain identifiers declared at depth 1 (type parameters)"""
        names = []
        if not self.at("<"):
            return names
        self.advance()
        depth = 1
        expect_name = True
        while depth:
            self.split_gt()
            t = self.advance()
            if t.kind == "eof":
                raise Unsupported("unexpected end of file in generics", t.line)
            if t.kind == "punct" and t.text == "<":
                depth += 1
            elif t.kind == "punct" and t.text == ">":
                depth -= 1
            elif depth == 1 and t.kind == "punct" and t.text == ",":
                expect_name = True
                continue
            elif depth == 1 and expect_name and t.kind == "ident":
                names.append(t.text)
            elif depth == 1 and expect_name and t.kind == "lifetime":
                raise Unsupported("lifetime parameter", t.line)
            expect_name = False
        return names

    # ---- types
    def parse_type(self):
        t = self.tok
        if self.accept("&"):
            if self.tok.kind == "lifetime":
                self.advance()
            mut = bool(self.accept("mut"))
            return ("ref", mut, self.parse_type())
        if self.accept("("):
            if self.accept(")"):
                return ("unit",)
            raise Unsupported("tuple type", t.line)
        if self.accept("["):
            el = self.parse_type()
            self.expect("]")
            return ("slice", el)
        if self.at("dyn") or self.at("impl") or self.at("fn"):
            raise Unsupported("`%s` type" % t.text, t.line)
        segs, args = [], []
        while True:
            if self.tok.kind != "ident":
                raise Unsupported("expected a type, found `%s`" % self.tok.text, self.tok.line)
            segs.append(self.advance().text)
            if self.at("<"):
                self.advance()
                while True:
                    self.split_gt()
                    if self.at(">"):
                        break
                    if self.tok.kind == "lifetime":
                        self.advance()
                    else:
                        args.append(self.parse_type())
                    if not self.accept(","):
                        break
                self.expect_gt()
            if self.at("::"):
                self.advance()
                continue
            break
        return ("path", tuple(segs), tuple(args))

    def parse_bounds(self):
        """`Bound + Bound ..` -> {last segment: (type args, {assoc: type})}"""
        out = {}
        while True:
            segs = [self.ident().text]
            while self.accept("::"):
                segs.append(self.ident().text)
            targs, assoc = [], {}
            if self.accept("<"):
                while True:
                    self.split_gt()
                    if self.at(">"):
                        break
                    if self.tok.kind == "ident" and self.peek().text == "=":
                        n = self.advance().text
                        self.advance()
                        assoc[n] = self.parse_type()
                    else:
                        targs.append(self.parse_type())
                    if not self.accept(","):
                        break
                self.expect_gt()
            out[segs[-1]] = (tuple(targs), assoc)
            if not self.accept("+"):
                return out

    def parse_where(self):
        bounds = {}
        if not self.accept("where"):
            return bounds
        while not self.at("{"):
            name = self.ident().text
            self.expect(":")
            bounds.setdefault(name, {}).update(self.parse_bounds())
            if not self.accept(","):
                break
        return bounds

    # ---- items
    def parse_file(self):
        while self.tok.kind != "eof":
            self.parse_item()

    def parse_use(self, line):
        # use a::b::c;  (no groups / globs / renames in this file: anything else is refused)
        segs = []
        while True:
            if self.tok.kind != "ident":
                raise Unsupported("`use` item of an unsupported shape", line)
            segs.append(self.advance().text)
            if self.accept("::"):
                continue
            break
        self.expect(";")
        self.uses[segs[-1]] = segs

    def parse_item(self):
        t = self.tok
        line = t.line
        while self.at("#"):
            raise Unsupported("attribute on a top-level item", line)
        self.accept("pub")
        if self.at("("):
            raise Unsupported("restricted visibility", line)
        if self.accept("mod"):
            name = self.ident().text
            if self.at("{"):
                end = self.skip_braces()
                self.note_skip("mod %s { .. }" % name, line, end)
            else:
                self.expect(";")
                self.note_skip("mod %s;" % name, line, line)
            return
        if self.accept("use"):
            self.parse_use(line)
            return
        if self.accept("type"):
            name = self.ident().text
            self.skip_balanced_until([";"])
            end = self.advance().line
            self.aliases[name] = (line, end)
            self.note_skip("type %s" % name, line, end)
            return
        if self.accept("struct"):
            name = self.ident().text
            tparams = self.skip_generics()
            if self.accept(";"):
                self.note_skip("struct %s;" % name, line, line)
                return
            self.expect("{")
            fields = []
            while not self.at("}"):
                self.accept("pub")
                fl = self.tok.line
                fname = self.ident().text
                self.expect(":")
                fty = self.parse_type()
                fields.append((fname, fty, fl))
                if not self.accept(","):
                    break
            self.expect("}")
            self.structs[name] = Node("struct", line, name=name, tparams=tparams, fields=fields)
            return
        if self.accept("impl"):
            self.parse_impl(line)
            return
        raise Unsupported("top-level item starting with `%s`" % t.text, line)

    def parse_impl(self, line):
        tparams = self.skip_generics()
        first = self.parse_type()
        trait = None
        if self.accept("for"):
            trait = first
            ty = self.parse_type()
        else:
            ty = first
        bounds = self.parse_where()
        if ty[0] != "path":
            raise Unsupported("impl for a non-path type", line)
        tyname = ty[1][-1]
        traitname = trait[1][-1] if trait else None
        if self.at("{") and self.peek().text == "}":
            self.advance()
            self.advance()
            self.note_skip("impl %s for %s {}" % (traitname, tyname), line, line)
            return
        wanted = (tyname, traitname) in WANTED_IMPLS
        if not wanted:
            end = self.skip_braces()
            self.note_skip("impl %s%s" % (traitname + " for " if traitname else "", tyname), line, end)
            return
        self.expect("{")
        im = Node("impl", line, tparams=tparams, trait=trait, ty=ty, bounds=bounds, assoc={}, fns=[])
        want_fns = WANTED_IMPLS[(tyname, traitname)]
        while not self.at("}"):
            il = self.tok.line
            if self.at("#"):
                raise Unsupported("attribute inside a target impl", il)
            self.accept("pub")
            if self.accept("type"):
                n = self.ident().text
                self.expect("=")
                im.assoc[n] = self.parse_type()
                self.expect(";")
                continue
            if self.at("async"):
                raise Unsupported("async fn in a target impl", il)
            self.expect("fn")
            name = self.ident().text
            if name not in want_fns:
                self.skip_balanced_until(["{"])
                end = self.skip_braces()
                self.note_skip("fn %s of impl %s%s" % (name, traitname + " for " if traitname else "", tyname), il, end)
                continue
            im.fns.append(self.parse_fn(name, il))
        self.expect("}")
        self.impls.append(im)

    def parse_fn(self, name, line):
        if self.at("<"):
            raise Unsupported("generic fn", line)
        self.expect("(")
        recv = None
        params = []
        first = True
        while not self.at(")"):
            pl = self.tok.line
            if first and (self.at("self") or (self.at("mut") and self.peek().text == "self") or self.at("&")):
                # self | mut self | &self | &mut self | [mut] self: Pin<&mut Self>
                if self.accept("&"):
                    m = bool(self.accept("mut"))
                    self.expect("self")
                    recv = "refmut" if m else "ref"
                else:
                    self.accept("mut")
                    self.expect("self")
                    if self.accept(":"):
                        ty = self.parse_type()
                        if ty != ("path", ("Pin",), (("ref", True, ("path", ("Self",), ())),)):
                            raise Unsupported("receiver type other than Pin<&mut Self>", pl)
                        recv = "pinmut"
                    else:
                        recv = "value"
            else:
                self.accept("mut")
                pname = self.ident().text
                self.expect(":")
                params.append((pname, self.parse_type(), pl))
            first = False
            if not self.accept(","):
                break
        self.expect(")")
        ret = ("unit",)
        if self.accept("->"):
            ret = self.parse_type()
        if self.at("where"):
            raise Unsupported("where clause on a fn", line)
        body = self.parse_block()
        return Node("fn", line, name=name, recv=recv, params=params, ret=ret, body=body)

    # ---- statements
    def parse_block(self):
        line = self.expect("{").line
        stmts = []
        tail = None
        while not self.at("}"):
            sl = self.tok.line
            if self.at("let"):
                self.advance()
                pat = self.parse_pattern()
                ty = None
                if self.accept(":"):
                    ty = self.parse_type()
                self.expect("=")
                init = self.parse_expr()
                if self.at("else"):
                    raise Unsupported("let .. else", sl)
                self.expect(";")
                stmts.append(Node("let", sl, pat=pat, ty=ty, init=init))
                continue
            if self.tok.kind == "ident" and self.tok.text in ("fn", "struct", "impl", "enum", "use", "const", "static", "mod",
                                                             "unsafe", "while", "for", "async", "break"):
                raise Unsupported("`%s` inside a function body" % self.tok.text, sl)
            if self.tok.kind == "lifetime":
                raise Unsupported("labelled block / loop", sl)
            e = self.parse_expr(stmt=True)
            if self.accept("="):
                rhs = self.parse_expr()
                self.expect(";")
                stmts.append(Node("assign", sl, place=e, value=rhs))
                continue
            if self.tok.kind == "punct" and self.tok.text in ("+=", "-=", "*=", "/=", "%=", "&=", "|=", "^=", "<<=", ">>="):
                raise Unsupported("compound assignment", sl)
            if self.accept(";"):
                stmts.append(Node("expr", sl, e=e))
                continue
            if self.at("}"):
                tail = e
                break
            if e.kind in ("if", "iflet", "match", "loop", "block"):
                stmts.append(Node("expr", sl, e=e))
                continue
            raise Unsupported("expected `;` or `}`, found `%s`" % self.tok.text, self.tok.line)
        end = self.expect("}").line
        return Node("block", line, stmts=stmts, tail=tail, end=end)

    def parse_pattern(self):
        t = self.tok
        if self.accept("_"):
            return Node("pwild", t.line)
        if self.at("("):
            self.advance()
            if self.accept(")"):
                return Node("punit", t.line)
            raise Unsupported("tuple pattern", t.line)
        if self.at("ref") or self.at("&") or t.kind in ("int", "str", "char"):
            raise Unsupported("pattern starting with `%s`" % t.text, t.line)
        mut = bool(self.accept("mut"))
        segs = [self.ident().text]
        while self.accept("::"):
            segs.append(self.ident().text)
        if self.at("{") and len(segs) > 1:
            raise Unsupported("struct pattern", t.line)
        if self.accept("("):
            if mut:
                raise Unsupported("`mut` before a constructor pattern", t.line)
            subs = []
            while not self.at(")"):
                subs.append(self.parse_pattern())
                if not self.accept(","):
                    break
            self.expect(")")
            return Node("pctor", t.line, segs=segs, subs=subs)
        if self.at("@") or self.at("|"):
            raise Unsupported("`%s` in a pattern" % self.tok.text, t.line)
        if len(segs) > 1 or segs[0][0].isupper():
            if mut:
                raise Unsupported("`mut` before a constructor pattern", t.line)
            return Node("pctor", t.line, segs=segs, subs=[])
        return Node("pbind", t.line, name=segs[0], mut=mut)

    # ---- expressions
    BIN_LEVELS = [["||"], ["&&"], ["==", "!=", "<", ">", "<=", ">="], ["|"], ["^"], ["&"], ["<<", ">>"], ["+", "-"],
                  ["*", "/", "%"]]

    def parse_expr(self, stmt=False, no_struct=False):
        return self.parse_level(0, stmt, no_struct)

    def parse_level(self, lvl, stmt, ns):
        if lvl == len(self.BIN_LEVELS):
            return self.parse_unary(stmt, ns)
        left = self.parse_level(lvl + 1, stmt, ns)
        if stmt and left.kind in ("if", "iflet", "match", "loop", "block"):
            return left    # a block-like expression statement ends at its `}`
        while self.tok.kind == "punct" and self.tok.text in self.BIN_LEVELS[lvl]:
            op = self.advance()
            if op.text not in ("||", "&&", "+", "==", "!="):
                raise Unsupported("operator `%s`" % op.text, op.line)
            right = self.parse_level(lvl + 1, False, ns)
            left = Node("bin", op.line, op=op.text, l=left, r=right)
        if self.at("as"):
            raise Unsupported("`as` cast", self.tok.line)
        if self.at("..") or self.at("..="):
            raise Unsupported("range expression", self.tok.line)
        return left

    def parse_unary(self, stmt, ns):
        t = self.tok
        if self.accept("!"):
            return Node("not", t.line, e=self.parse_unary(False, ns))
        if self.accept("&"):
            mut = bool(self.accept("mut"))
            return Node("ref", t.line, mut=mut, e=self.parse_unary(False, ns))
        if self.at("&&"):
            raise Unsupported("`&&` reference", t.line)
        if self.at("-") or self.at("*"):
            raise Unsupported("unary `%s`" % t.text, t.line)
        return self.parse_postfix(stmt, ns)

    def parse_args(self):
        self.expect("(")
        args = []
        while not self.at(")"):
            args.append(self.parse_expr())
            if not self.accept(","):
                break
        self.expect(")")
        return args

    def parse_postfix(self, stmt, ns):
        e = self.parse_primary(ns)
        if stmt and e.kind in ("if", "iflet", "match", "loop", "block") and not self.at("."):
            return e
        while True:
            t = self.tok
            if self.accept("?"):
                e = Node("try", t.line, e=e)
            elif self.at("."):
                self.advance()
                if self.at("await"):
                    raise Unsupported("`.await`", t.line)
                if self.tok.kind == "int":
                    raise Unsupported("tuple field", t.line)
                name = self.ident().text
                if self.at("::"):
                    raise Unsupported("turbofish", t.line)
                if self.at("("):
                    e = Node("mcall", t.line, recv=e, name=name, args=self.parse_args())
                else:
                    e = Node("field", t.line, recv=e, name=name)
            elif self.at("("):
                if e.kind != "path":
                    raise Unsupported("call of a non-path expression", t.line)
                e = Node("call", t.line, segs=e.segs, args=self.parse_args())
            elif self.at("["):
                raise Unsupported("index expression", t.line)
            else:
                return e

    def parse_primary(self, ns):
        t = self.tok
        if t.kind == "int":
            raise Unsupported("integer literal", t.line)
        if t.kind in ("str", "char", "lifetime"):
            raise Unsupported("literal / label `%s`" % t.text, t.line)
        if self.at("("):
            self.advance()
            if self.accept(")"):
                return Node("unit", t.line)
            e = self.parse_expr()
            if self.at(","):
                raise Unsupported("tuple expression", t.line)
            self.expect(")")
            return Node("paren", t.line, e=e)
        if self.at("{"):
            return self.parse_block()
        if self.at("|") or self.at("||") or self.at("move"):
            if self.at("||") or self.at("move"):
                raise Unsupported("closure of an unsupported shape", t.line)
            self.advance()
            p = self.ident().text
            self.expect("|")
            body = self.parse_expr()
            return Node("closure", t.line, param=p, body=body)
        if self.accept("if"):
            if self.accept("let"):
                pat = self.parse_pattern()
                self.expect("=")
                scrut = self.parse_expr(no_struct=True)
                if self.at("&&"):
                    raise Unsupported("let chain", t.line)
                then = self.parse_block()
                els = None
                if self.accept("else"):
                    els = self.parse_block() if self.at("{") else self.parse_else_if()
                return Node("iflet", t.line, pat=pat, scrut=scrut, then=then, els=els)
            cond = self.parse_expr(no_struct=True)
            then = self.parse_block()
            els = None
            if self.accept("else"):
                els = self.parse_block() if self.at("{") else self.parse_else_if()
            return Node("if", t.line, cond=cond, then=then, els=els)
        if self.accept("match"):
            scrut = self.parse_expr(no_struct=True)
            self.expect("{")
            arms = []
            while not self.at("}"):
                al = self.tok.line
                pat = self.parse_pattern()
                if self.at("if"):
                    raise Unsupported("match guard", al)
                self.expect("=>")
                body = self.parse_expr(stmt=True)
                if not self.accept(","):
                    if body.kind != "block" and not self.at("}"):
                        raise Unsupported("expected `,` after a match arm", self.tok.line)
                arms.append(Node("arm", al, pat=pat, body=body))
            end = self.expect("}").line
            return Node("match", t.line, scrut=scrut, arms=arms, end=end)
        if self.accept("loop"):
            return Node("loop", t.line, body=self.parse_block())
        if self.accept("return"):
            if self.at(";") or self.at("}") or self.at(","):
                return Node("return", t.line, e=None)
            return Node("return", t.line, e=self.parse_expr())
        if self.accept("continue"):
            if self.tok.kind == "lifetime":
                raise Unsupported("labelled continue", t.line)
            return Node("continue", t.line)
        if t.kind == "ident" and t.text in ("break", "while", "for", "unsafe", "async", "await", "move", "let"):
            raise Unsupported("`%s`" % t.text, t.line)
        if t.kind != "ident":
            raise Unsupported("expected an expression, found `%s`" % (t.text or "end of file"), t.line)
        segs = [self.advance().text]
        while self.at("::"):
            self.advance()
            if self.at("<"):
                raise Unsupported("turbofish", t.line)
            segs.append(self.ident().text)
        if self.at("!"):
            if self.peek().text in ("(", "[", "{") and self.peek().kind == "punct" and self.peek().text == "(":
                self.advance()
                return Node("macro", t.line, name="::".join(segs), args=self.parse_macro_args())
            raise Unsupported("macro `%s!` with non-parenthesis delimiters" % "::".join(segs), t.line)
        if self.at("{") and not ns and (segs[-1][0].isupper()):
            self.advance()
            fields = []
            while not self.at("}"):
                if self.at(".."):
                    raise Unsupported("struct update syntax", t.line)
                fl = self.tok.line
                fname = self.ident().text
                if self.accept(":"):
                    fields.append((fname, self.parse_expr(), fl))
                else:
                    fields.append((fname, Node("path", fl, segs=[fname]), fl))
                if not self.accept(","):
                    break
            self.expect("}")
            return Node("structlit", t.line, segs=segs, fields=fields)
        return Node("path", t.line, segs=segs)

    def parse_else_if(self):
        e = self.parse_primary(False)
        if e.kind not in ("if", "iflet"):
            raise Unsupported("expected `if` or a block after `else`", e.line)
        return Node("block", e.line, stmts=[], tail=e, end=e.line)

    def parse_macro_args(self):
        """`(` expr, expr.. `)`; a leading string literal (format string) is kept as a `str` node"""
        self.expect("(")
        args = []
        while not self.at(")"):
            if self.tok.kind == "str":
                t = self.advance()
                args.append(Node("str", t.line, text=t.text))
            else:
                args.append(self.parse_expr())
            if not self.accept(","):
                break
        self.expect(")")
        return args


# (type name, trait name or None) -> the fns translated from that impl
WANTED_IMPLS = {
    ("WebSocketFramed", None): ("new",),
    ("WebSocketFramed", "Stream"): ("poll_next",),
    ("WebSocketFramed", "Sink"): ("poll_ready", "start_send", "poll_flush", "poll_close"),
    ("QuicStream", "AsyncWrite"): ("poll_shutdown",),
}


# --------------------------------------------------------------------------------------------
# types
# --------------------------------------------------------------------------------------------

def lean_type(t):
    if t == "bool":
        return "Bool"
    if t == "unit":
        return "Unit"
    if t == "bytes":
        return "Cursor"
    if t == "usize":
        return "Usize"
    if t == "msg":
        return "Message"
    if t == "error":
        return "Unit"
    if isinstance(t, tuple):
        if t[0] == "option":
            return "Option %s" % lean_atom(t[1])
        if t[0] == "result":
            return "RResult %s" % lean_atom(t[1])
        if t[0] == "poll":
            return "Poll %s" % lean_atom(t[1])
        if t[0] in ("tparam", "ext"):
            return t[1]
        if t[0] == "struct":
            return t[2]
    raise Unsupported("type %r has no Lean counterpart" % (t,), 0)


def lean_atom(t):
    s = lean_type(t)
    return "(%s)" % s if " " in s else s


def show_type(t):
    if t[0] == "unit":
        return "()"
    if t[0] == "ref":
        return "&%s%s" % ("mut " if t[1] else "", show_type(t[2]))
    if t[0] == "slice":
        return "[%s]" % show_type(t[1])
    s = "::".join(t[1])
    if t[2]:
        s += "<%s>" % ", ".join(show_type(a) for a in t[2])
    return s


def show_pat(p):
    if p.kind == "pwild":
        return "_"
    if p.kind == "punit":
        return "()"
    if p.kind == "pbind":
        return ("mut " if p.mut else "") + p.name
    s = "::".join(p.segs)
    if p.subs:
        s += "(%s)" % ", ".join(show_pat(x) for x in p.subs)
    return s


def show_expr(e):
    k = e.kind
    if k == "path":
        return "::".join(e.segs)
    if k == "unit":
        return "()"
    if k == "paren":
        return "(%s)" % show_expr(e.e)
    if k == "field":
        return "%s.%s" % (show_expr(e.recv), e.name)
    if k == "mcall":
        return "%s.%s(%s)" % (show_expr(e.recv), e.name, ", ".join(show_expr(a) for a in e.args))
    if k == "call":
        return "%s(%s)" % ("::".join(e.segs), ", ".join(show_expr(a) for a in e.args))
    if k == "macro":
        return "%s!(%s)" % (e.name, ", ".join(show_expr(a) for a in e.args))
    if k == "str":
        return '"…"'
    if k == "not":
        return "!" + show_expr(e.e)
    if k == "ref":
        return "&" + ("mut " if e.mut else "") + show_expr(e.e)
    if k == "try":
        return show_expr(e.e) + "?"
    if k == "bin":
        return "%s %s %s" % (show_expr(e.l), e.op, show_expr(e.r))
    if k == "closure":
        return "|%s| %s" % (e.param, show_expr(e.body))
    if k == "return":
        return "return" + (" " + show_expr(e.e) if e.e is not None else "")
    if k == "continue":
        return "continue"
    if k == "structlit":
        return "%s { %s }" % ("::".join(e.segs), ", ".join("%s: %s" % (f, show_expr(v)) for f, v, _ in e.fields))
    if k == "match":
        return "match %s { ... }" % show_expr(e.scrut)
    if k == "if":
        return "if %s { ... }" % show_expr(e.cond)
    if k == "iflet":
        return "if let %s = %s { ... }" % (show_pat(e.pat), show_expr(e.scrut))
    if k == "loop":
        return "loop { ... }"
    if k == "block":
        return "{ ... }"
    return "<%s>" % k


CF_KINDS = ("if", "iflet", "match", "block", "loop")


def indent(lines, n):
    return [(" " * n) + ln if ln else ln for ln in lines]


# --------------------------------------------------------------------------------------------
# emitter
# --------------------------------------------------------------------------------------------

class Var:
    def __init__(self, lean, ty, mut):
        self.lean, self.ty, self.mut = lean, ty, mut


class Gen:
    def __init__(self, parser, all_idents):
        self.p = parser
        self.all_idents = all_idents
        self.counter = 0
        self.scopes = []
        self.impl = None
        self.fn = None
        self.struct = None       # Node(struct) of the impl'd type
        self.in_loop = None      # list of loop-state variable names while inside the loop
        self.uses_needed = set()
        self.ext_used = []       # (record, field) in order of first use

    # ---- names
    def fresh(self):
        while True:
            self.counter += 1
            n = "v%d" % self.counter
            if n not in self.all_idents:
                return n

    def lean_ident(self, n):
        if n in LEAN_RESERVED or n in ("self_",) or (n[0] == "v" and n[1:].isdigit()):
            return n + "_"
        return n

    def need_use(self, name, line):
        want = USE_SUFFIX[name]
        got = self.p.uses.get(name)
        if got is None or got[-len(want):] != want and not (len(got) >= 2 and got[0] == want[0] and got[-1] == want[-1]):
            raise Unsupported("`%s` is not imported from `..%s` (needed to read it the way the translator does)"
                              % (name, "::".join(want)), line)
        self.uses_needed.add(name)

    # ---- scopes
    def push(self):
        self.scopes.append({})

    def pop(self):
        self.scopes.pop()

    def declare(self, name, ty, mut, line):
        if name in ("X", "ov", "fuel"):
            raise Unsupported("local named `%s` (reserved by the translation)" % name, line)
        v = Var(self.lean_ident(name), ty, mut)
        self.scopes[-1][name] = v
        return v

    def lookup(self, name, line):
        for sc in reversed(self.scopes):
            if name in sc:
                return sc[name]
        raise Unsupported("unknown name `%s`" % name, line)

    def is_declared_inside(self, name, depth):
        return any(name in sc for sc in self.scopes[depth:])

    # ---- types
    def resolve(self, t, line):
        if t[0] == "unit":
            return "unit"
        if t[0] == "ref":
            return self.resolve(t[2], line)
        if t[0] == "slice":
            raise Unsupported("slice type", line)
        segs, args = t[1], t[2]
        last = segs[-1]
        if segs == ("bool",):
            return "bool"
        if segs == ("usize",):
            return "usize"
        if segs in (("BytesMut",), ("Bytes",)) and not args:
            self.need_use("BytesMut", line)
            return "bytes"
        if segs == ("Option",) and len(args) == 1:
            return ("option", self.resolve(args[0], line))
        if segs == ("Poll",) and len(args) == 1:
            self.need_use("Poll", line)
            return ("poll", self.resolve(args[0], line))
        if segs == ("Pin",) and len(args) == 1:
            return self.resolve(args[0], line)
        if segs == ("Result",) and len(args) == 1:
            self.need_use("Result", line)
            return ("result", self.resolve(args[0], line))
        if segs in (("Result",), ("std", "result", "Result")) and len(args) == 2:
            if self.resolve(args[1], line) != "error":
                raise Unsupported("Result with an error type that is not an opaque error", line)
            return ("result", self.resolve(args[0], line))
        if segs in (("anyhow", "Error"), ("std", "io", "Error")) and not args:
            return "error"
        if segs == ("Self",):
            return self.self_type()
        if len(segs) == 2 and segs[0] == "Self" and not args:
            if segs[1] not in self.impl.assoc:
                raise Unsupported("associated type Self::%s is not defined in this impl" % segs[1], line)
            return self.resolve(self.impl.assoc[segs[1]], line)
        if segs == ("PhantomData",) and len(args) == 1:
            self.need_use("PhantomData", line)
            return "unit"
        if segs == ("Context",):
            self.need_use("Context", line)
            return "cx"
        if segs == ("WebSocketStream",) and len(args) == 1:
            self.need_use("WebSocketStream", line)
            if args[0] != ("path", ("T",), ()):
                raise Unsupported("WebSocketStream over something other than the type parameter T", line)
            return ("ext", "WS")
        if segs == ("quinn", "SendStream"):
            return ("ext", "Snd")
        if segs == ("quinn", "RecvStream"):
            return ("ext", "Rcv")
        if segs == ("Delivered",) and "Delivered" in self.p.aliases:
            return ("ext", "Fut")
        if len(segs) == 1 and not args and self.impl is not None and last in self.impl.tparams and last != "T":
            return ("tparam", last)
        if len(segs) == 1 and not args and self.struct is not None and last in self.struct.tparams and last != "T":
            return ("tparam", last)
        raise Unsupported("type `%s`" % show_type(t), line)

    def self_type(self):
        return ("struct", self.struct.name, self.struct_lean())

    def struct_lean(self):
        return "%s %s" % (self.struct.name, " ".join(self.struct_params()))

    def struct_params(self):
        return STRUCT_PARAMS[self.struct.name]

    def field_type(self, name, line):
        for f, ty, fl in self.struct.fields:
            if f == name:
                return self.resolve(ty, fl)
        raise Unsupported("unknown field `%s`" % name, line)

    def bounds_of(self, tparam, trait, line):
        b = self.impl.bounds.get(tparam, {})
        if trait not in b:
            raise Unsupported("type parameter %s is not bounded by %s in this impl" % (tparam, trait), line)
        self.need_use(trait, line)
        return b[trait]

    # ---- mutation analysis: outer variables (by Rust name) assigned inside a node
    def mutated(self, node):
        out = []
        declared = [set()]

        def root_of(e):
            while e.kind in ("field", "paren", "ref"):
                e = e.recv if e.kind == "field" else e.e
            if e.kind == "path" and len(e.segs) == 1:
                return e.segs[0]
            return None

        def hit(name):
            if name is None:
                return
            if any(name in d for d in declared):
                return
            try:
                v = self.lookup(name, 0)
            except Unsupported:
                return
            key = [n for sc in self.scopes for n, vv in sc.items() if vv is v][0]
            if key not in out:
                out.append(key)

        def pat_names(p):
            if p.kind == "pbind":
                declared[-1].add(p.name)
            elif p.kind == "pctor":
                for s in p.subs:
                    pat_names(s)

        def walk(n):
            k = n.kind
            if k == "block":
                declared.append(set())
                for s in n.stmts:
                    walk(s)
                if n.tail is not None:
                    walk(n.tail)
                declared.pop()
            elif k == "let":
                walk(n.init)
                pat_names(n.pat)
            elif k == "assign":
                walk(n.value)
                hit(root_of(n.place))
            elif k == "expr":
                walk(n.e)
            elif k in ("if",):
                walk(n.cond)
                walk(n.then)
                if n.els is not None:
                    walk(n.els)
            elif k == "iflet":
                walk(n.scrut)
                declared.append(set())
                pat_names(n.pat)
                walk(n.then)
                declared.pop()
                if n.els is not None:
                    walk(n.els)
            elif k == "match":
                walk(n.scrut)
                for a in n.arms:
                    declared.append(set())
                    pat_names(a.pat)
                    walk(a.body)
                    declared.pop()
            elif k == "loop":
                walk(n.body)
            elif k == "mcall":
                walk(n.recv)
                for a in n.args:
                    walk(a)
                if n.name in MUTATING_METHODS:
                    hit(root_of(n.recv))
            elif k in ("call", "macro"):
                for a in n.args:
                    walk(a)
            elif k == "ref":
                walk(n.e)
                if n.mut:
                    hit(root_of(n.e))
            elif k in ("paren", "not", "try"):
                walk(n.e)
            elif k == "field":
                walk(n.recv)
            elif k == "bin":
                walk(n.l)
                walk(n.r)
            elif k == "return":
                if n.e is not None:
                    walk(n.e)
            elif k == "structlit":
                for _, v, _ in n.fields:
                    walk(v)
            elif k == "closure":
                walk(n.body)
        walk(node)
        # order: declaration order in the environment
        order = [n for sc in self.scopes for n in sc]
        return sorted(out, key=order.index)

    def tup(self, names, extra=None):
        items = [self.lookup(n, 0).lean for n in names]
        if extra is not None:
            items.append(extra)
        if not items:
            return "()"
        if len(items) == 1:
            return items[0]
        return "(%s)" % ", ".join(items)

    # ---- return terms
    def ret_term(self, val):
        t = val
        if self.fn.recv in ("refmut", "pinmut"):
            t = "(self_, %s)" % val
        if self.in_loop is not None:
            return "(LoopCtl.return_ %s)" % t
        return t

    # ---- places
    def place(self, e, line):
        """-> (root Var, root rust name, field or None, type)"""
        while e.kind == "paren":
            e = e.e
        if e.kind == "path" and len(e.segs) == 1:
            v = self.lookup(e.segs[0], line)
            return v, e.segs[0], None, v.ty
        if e.kind == "field" and e.recv.kind == "path" and len(e.recv.segs) == 1:
            v = self.lookup(e.recv.segs[0], line)
            if not (isinstance(v.ty, tuple) and v.ty[0] == "struct"):
                raise Unsupported("field of a value that is not the impl'd struct", line)
            return v, e.recv.segs[0], e.name, self.field_type(e.name, line)
        raise Unsupported("place expression `%s`" % show_expr(e), line)

    def set_place(self, e, term, pre, line):
        v, _, fld, ty = self.place(e, line)
        if fld is None:
            if not v.mut:
                raise Unsupported("assignment to the immutable binding `%s`" % show_expr(e), line)
            pre.append("let %s : %s := %s" % (v.lean, lean_type(ty), term))
        else:
            pre.append("let %s : %s := { %s with %s := %s }" % (v.lean, lean_type(v.ty), v.lean, fld, term))

    # ---- expressions
    def ext(self, record, field):
        if (record, field) not in self.ext_used:
            self.ext_used.append((record, field))
        return "X.%s" % field

    def ex(self, e, pre, expected=None):
        """-> (Lean term, type); effects (binds, rebinding lets) are appended to `pre`"""
        k = e.kind
        line = e.line
        if k == "paren":
            return self.ex(e.e, pre, expected)
        if k == "unit":
            return "()", "unit"
        if k == "ref":
            return self.ex(e.e, pre, expected)
        if k == "path":
            segs = e.segs
            if len(segs) == 1 and segs[0] == "None":
                if not (isinstance(expected, tuple) and expected[0] == "option"):
                    raise Unsupported("`None` whose type is not known from the context", line)
                return "(none : %s)" % lean_type(expected), expected
            if len(segs) == 1 and segs[0] == "PhantomData":
                self.need_use("PhantomData", line)
                return "()", "unit"
            if segs == ["Poll", "Pending"]:
                self.need_use("Poll", line)
                if not (isinstance(expected, tuple) and expected[0] == "poll"):
                    raise Unsupported("`Poll::Pending` whose type is not known from the context", line)
                return "(Poll.Pending : %s)" % lean_type(expected), expected
            if len(segs) == 1 and segs[0] in ("true", "false"):
                return segs[0], "bool"
            if len(segs) == 1:
                v = self.lookup(segs[0], line)
                return v.lean, v.ty
            raise Unsupported("path `%s`" % "::".join(segs), line)
        if k == "field":
            v, _, fld, ty = self.place(e, line)
            return "%s.%s" % (v.lean, fld), ty
        if k == "not":
            t, ty = self.ex(e.e, pre, "bool")
            if ty != "bool":
                raise Unsupported("`!` on a non-bool", line)
            return "(!%s)" % t, "bool"
        if k == "bin":
            l, lt = self.ex(e.l, pre)
            pre_r = []
            r, rt = self.ex(e.r, pre_r)
            if e.op in ("||", "&&"):
                if pre_r:
                    raise Unsupported("`%s` whose right operand has effects" % e.op, line)
                if lt != "bool" or rt != "bool":
                    raise Unsupported("`%s` on non-bools" % e.op, line)
                return "(%s %s %s)" % (l, e.op, r), "bool"
            pre.extend(pre_r)
            if e.op == "+":
                if lt != "usize" or rt != "usize":
                    raise Unsupported("`+` on operands that are not usize", line)
                pre.append("Flow.bind (Flow.arith ov (U64.addOk %s %s)) fun () =>" % (l, r))
                return "(%s + %s)" % (l, r), "usize"
            raise Unsupported("operator `%s`" % e.op, line)
        if k == "try":
            t, ty = self.ex(e.e, pre)
            if not (isinstance(ty, tuple) and ty[0] == "result"):
                raise Unsupported("`?` on a non-Result", line)
            fret = self.fn_ret
            if not (isinstance(fret, tuple) and fret[0] == "result"):
                raise Unsupported("`?` in a fn that does not return a Result", line)
            v = self.fresh()
            pre.append("Flow.bind (Flow.question %s %s) fun %s =>" % (t, self.ret_term("RResult.err"), v))
            return v, ty[1]
        if k == "macro":
            return self.ex_macro(e, pre, expected)
        if k == "call":
            return self.ex_call(e, pre, expected)
        if k == "mcall":
            return self.ex_mcall(e, pre, expected)
        if k == "structlit":
            if e.segs != ["Self"] and e.segs != [self.struct.name]:
                raise Unsupported("struct literal of another type", line)
            want = [f for f, _, _ in self.struct.fields]
            got = [f for f, _, _ in e.fields]
            if sorted(want) != sorted(got):
                raise Unsupported("struct literal does not list exactly the fields of %s" % self.struct.name, line)
            parts = []
            for f, v, fl in e.fields:       # evaluation order = source order
                fty = self.field_type(f, fl)
                t, ty = self.ex(v, pre, fty)
                if ty != fty:
                    raise Unsupported("field `%s` initialised with a value of another type" % f, fl)
                parts.append("%s := %s" % (f, t))
            return "({ %s } : %s)" % (", ".join(parts), self.struct_lean()), self.self_type()
        if k in CF_KINDS and k != "loop":
            M = self.mutated(e)
            v = self.fresh()
            lines, ty = self.cf(e, M, True, expected)
            pre.append("\n".join(["Flow.bind ("] + indent(lines, 2) + [") fun %s =>" % self.tup(M, v)]))
            return v, ty
        if k == "closure":
            raise Unsupported("closure outside the two supported shapes", line)
        if k in ("return", "continue", "loop"):
            raise Unsupported("`%s` in value position" % k, line)
        raise Unsupported("expression `%s`" % show_expr(e), line)

    def ex_macro(self, e, pre, expected):
        line = e.line
        if e.name == "anyhow":
            self.need_use("anyhow", line)
            if len(e.args) == 1 and e.args[0].kind == "str":
                if "{" in e.args[0].text:
                    raise Unsupported("anyhow!(\"..\") with interpolation", line)
                return "()", "error"       # a fresh error from a literal text (texts are not modelled)
            if len(e.args) != 1:
                raise Unsupported("anyhow!(..) with other than one argument", line)
            t, ty = self.ex(e.args[0], pre)
            if ty != "error":
                raise Unsupported("anyhow!(e) where e is not an error value", line)
            return "()", "error"
        if e.name == "ready":
            self.need_use("ready", line)
            if len(e.args) != 1:
                raise Unsupported("ready!(..) with other than one argument", line)
            t, ty = self.ex(e.args[0], pre)
            if not (isinstance(ty, tuple) and ty[0] == "poll"):
                raise Unsupported("ready!(e) where e is not a Poll", line)
            fret = self.fn_ret
            if not (isinstance(fret, tuple) and fret[0] == "poll"):
                raise Unsupported("ready!(..) in a fn that does not return a Poll", line)
            v = self.fresh()
            pre.append("Flow.bind (Flow.ready %s %s) fun %s =>" % (t, self.ret_term("Poll.Pending"), v))
            return v, ty[1]
        raise Unsupported("macro `%s!`" % e.name, line)

    def ex_call(self, e, pre, expected):
        line = e.line
        segs = e.segs
        name = "::".join(segs)

        def one(exp=None):
            if len(e.args) != 1:
                raise Unsupported("`%s` with other than one argument" % name, line)
            return self.ex(e.args[0], pre, exp)
        sub = expected[1] if isinstance(expected, tuple) and len(expected) == 2 else None
        if segs == ["Some"]:
            t, ty = one(sub if isinstance(expected, tuple) and expected[0] == "option" else None)
            return "(some %s)" % t, ("option", ty)
        if segs == ["Ok"]:
            t, ty = one(sub if isinstance(expected, tuple) and expected[0] == "result" else None)
            return "(RResult.ok %s)" % t, ("result", ty)
        if segs == ["Err"]:
            t, ty = one()
            if ty != "error":
                raise Unsupported("Err(e) where e is not an error value", line)
            if not (isinstance(expected, tuple) and expected[0] == "result"):
                raise Unsupported("`Err(..)` whose type is not known from the context", line)
            return "(RResult.err : %s)" % lean_type(expected), expected
        if segs == ["Poll", "Ready"]:
            self.need_use("Poll", line)
            t, ty = one(sub if isinstance(expected, tuple) and expected[0] == "poll" else None)
            return "(Poll.Ready %s)" % t, ("poll", ty)
        if segs == ["BytesMut", "new"]:
            self.need_use("BytesMut", line)
            if e.args:
                raise Unsupported("BytesMut::new with arguments", line)
            return "([] : Cursor)", "bytes"
        if segs == ["BytesMut", "with_capacity"]:
            self.need_use("BytesMut", line)
            t, ty = one()
            if ty != "usize":
                raise Unsupported("BytesMut::with_capacity of a non-usize", line)
            v = self.fresh()
            pre.append("Flow.bind (Flow.with_capacity %s) fun %s =>" % (t, v))
            return v, "bytes"
        if segs == ["BytesMut", "from"]:
            self.need_use("BytesMut", line)
            t, ty = one()
            if ty != "bytes":
                raise Unsupported("BytesMut::from of something that is not a byte string", line)
            return t, "bytes"
        if segs in (["tokio_websockets", "Message", "binary"], ["Message", "binary"]):
            t, ty = one()
            if ty != "bytes":
                raise Unsupported("Message::binary of something that is not a byte string", line)
            return "(Message.binary %s)" % t, "msg"
        if segs == ["std", "io", "Error", "other"]:
            t, ty = one()
            if ty != "error":
                raise Unsupported("io::Error::other(e) where e is not an error value", line)
            return "()", "error"
        if segs == ["Box", "pin"]:
            t, ty = one()
            if ty != ("ext", "Fut"):
                raise Unsupported("Box::pin of something that is not the `stopped()` future", line)
            return t, ty
        raise Unsupported("call of `%s`" % name, line)

    def ex_mcall(self, e, pre, expected):
        line = e.line
        name = e.name
        # the fixed shape  OPT.as_mut().map(|f| f.as_mut().poll(cx))
        if name == "map" and e.recv.kind == "mcall" and e.recv.name == "as_mut" and not e.recv.args \
                and len(e.args) == 1 and e.args[0].kind == "closure":
            c = e.args[0]
            b = c.body
            ok = (b.kind == "mcall" and b.name == "poll" and len(b.args) == 1 and b.recv.kind == "mcall"
                  and b.recv.name == "as_mut" and not b.recv.args and b.recv.recv.kind == "path"
                  and b.recv.recv.segs == [c.param])
            if not ok:
                raise Unsupported("closure outside the two supported shapes", c.line)
            _, cxt = self.ex(b.args[0], [])
            if cxt != "cx":
                raise Unsupported("`poll` with an argument that is not the task context", line)
            v, _, fld, ty = self.place(e.recv.recv, line)
            if ty != ("option", ("ext", "Fut")):
                raise Unsupported("`.as_mut().map(|f| f.as_mut().poll(cx))` on something other than Option<Delivered>", line)
            r = self.fresh()
            pre.append("let %s := Option.as_mut_map_poll %s %s.%s" % (r, self.ext("QExt", "delivered_poll"), v.lean, fld))
            self.set_place(e.recv.recv, "%s.1" % r, pre, line)
            return "%s.2" % r, ("option", ("poll", ("result", ("option", ("tparam", "V")))))
        if name == "map_err":
            if len(e.args) != 1 or e.args[0].kind != "closure":
                raise Unsupported("map_err with something other than a closure", line)
            c = e.args[0]
            b = c.body
            if not (b.kind == "macro" and b.name == "anyhow" and len(b.args) == 1 and b.args[0].kind == "path"
                    and b.args[0].segs == [c.param]):
                raise Unsupported("closure outside the two supported shapes", c.line)
            self.need_use("anyhow", line)
            t, ty = self.ex(e.recv, pre)
            if isinstance(ty, tuple) and ty[0] == "poll" and isinstance(ty[1], tuple) and ty[1][0] == "result":
                return "(Poll.map_err %s)" % t, ty
            if isinstance(ty, tuple) and ty[0] == "result":
                return "(RResult.map_err %s)" % t, ty
            raise Unsupported("map_err on something that is neither Result nor Poll<Result>", line)
        # receiver: a place (variable or field of self)
        v, rname, fld, rty = self.place(e.recv, line)
        rterm = v.lean if fld is None else "%s.%s" % (v.lean, fld)

        def noargs():
            if e.args:
                raise Unsupported("`%s` with arguments" % name, line)

        def cx_arg():
            if len(e.args) != 1 or self.ex(e.args[0], [])[1] != "cx":
                raise Unsupported("`%s` with arguments other than the task context" % name, line)
        if isinstance(rty, tuple) and rty[0] == "option":
            if name == "take":
                noargs()
                t = self.fresh()
                pre.append("let %s : %s := %s" % (t, lean_type(rty), rterm))
                self.set_place(e.recv, "(none : %s)" % lean_type(rty), pre, line)
                return t, rty
            if name == "is_some":
                noargs()
                return "(Option.isSome %s)" % rterm, "bool"
            if name == "is_none":
                noargs()
                return "(Option.isNone %s)" % rterm, "bool"
        if rty == "bytes":
            if name == "is_empty":
                noargs()
                return "(Cursor.is_empty %s)" % rterm, "bool"
            if name == "len":
                noargs()
                return "(Cursor.len %s)" % rterm, "usize"
            if name == "extend_from_slice":
                if len(e.args) != 1:
                    raise Unsupported("extend_from_slice with other than one argument", line)
                a, aty = self.ex(e.args[0], pre)
                if aty != "bytes":
                    raise Unsupported("extend_from_slice of something that is not a byte string", line)
                self.set_place(e.recv, "Cursor.extend_from_slice %s %s" % (rterm, a), pre, line)
                return "()", "unit"
        if rty == "msg":
            if name in ("is_binary", "is_text"):
                noargs()
                return "(Message.%s %s)" % (name, rterm), "bool"
            if name in ("as_payload", "into_payload"):
                noargs()
                return "(Message.%s %s)" % (name, rterm), "bytes"
        if isinstance(rty, tuple) and rty[0] == "struct" and name == "get_mut":
            raise Unsupported("`get_mut()` outside `let x = self.get_mut();`", line)
        if rty == ("ext", "WS") and fld is not None:
            table = {"poll_next_unpin": ("stream_poll_next", "StreamExt", ("poll", ("option", ("result", "msg")))),
                     "poll_ready_unpin": ("stream_poll_ready", "SinkExt", ("poll", ("result", "unit"))),
                     "poll_flush_unpin": ("stream_poll_flush", "SinkExt", ("poll", ("result", "unit"))),
                     "poll_close_unpin": ("stream_poll_close", "SinkExt", ("poll", ("result", "unit")))}
            if name in table:
                f, tr, ty = table[name]
                self.need_use(tr, line)
                cx_arg()
                r = self.fresh()
                pre.append("let %s := %s %s" % (r, self.ext("Ext", f), rterm))
                self.set_place(e.recv, "%s.1" % r, pre, line)
                return "%s.2" % r, ty
            if name == "start_send_unpin":
                self.need_use("SinkExt", line)
                if len(e.args) != 1:
                    raise Unsupported("start_send_unpin with other than one argument", line)
                a, aty = self.ex(e.args[0], pre)
                if aty != "msg":
                    raise Unsupported("start_send_unpin of something that is not a Message", line)
                r = self.fresh()
                pre.append("let %s := %s %s %s" % (r, self.ext("Ext", "stream_start_send"), rterm, a))
                self.set_place(e.recv, "%s.1" % r, pre, line)
                return "%s.2" % r, ("result", "unit")
        if isinstance(rty, tuple) and rty[0] == "tparam" and fld is not None:
            if name == "decode":
                targs, assoc = self.bounds_of(rty[1], "Decoder", line)
                if "Item" not in assoc or self.resolve(assoc.get("Error", ("unit",)), line) != "error":
                    raise Unsupported("Decoder bound without `Item = ..` / with an error type that is not anyhow::Error", line)
                item = self.resolve(assoc["Item"], line)
                if len(e.args) != 1 or not (e.args[0].kind == "ref" and e.args[0].mut):
                    raise Unsupported("decode(..) whose argument is not `&mut <buffer>`", line)
                a, aty = self.ex(e.args[0].e, pre)
                if aty != "bytes":
                    raise Unsupported("decode(..) of something that is not a BytesMut", line)
                r = self.fresh()
                pre.append("Flow.bind (Flow.call (%s %s %s)) fun %s =>" % (self.ext("Ext", "codec_decode"), rterm, a, r))
                self.set_place(e.recv, "%s.1" % r, pre, line)
                self.set_place(e.args[0].e, "%s.2.1" % r, pre, line)
                return "%s.2.2" % r, ("result", ("option", item))
            if name == "encode":
                targs, assoc = self.bounds_of(rty[1], "Encoder", line)
                if len(targs) != 1 or self.resolve(assoc.get("Error", ("unit",)), line) != "error":
                    raise Unsupported("Encoder bound of an unexpected shape", line)
                item = self.resolve(targs[0], line)
                if len(e.args) != 2 or not (e.args[1].kind == "ref" and e.args[1].mut):
                    raise Unsupported("encode(..) whose arguments are not `item, &mut <buffer>`", line)
                i, ity = self.ex(e.args[0], pre)
                if ity != item:
                    raise Unsupported("encode(..) of an item of another type", line)
                a, aty = self.ex(e.args[1].e, pre)
                if aty != "bytes":
                    raise Unsupported("encode(..) into something that is not a BytesMut", line)
                r = self.fresh()
                pre.append("Flow.bind (Flow.call (%s %s %s %s)) fun %s =>" % (self.ext("Ext", "codec_encode"), rterm, i, a, r))
                self.set_place(e.recv, "%s.1" % r, pre, line)
                self.set_place(e.args[1].e, "%s.2.1" % r, pre, line)
                return "%s.2.2" % r, ("result", "unit")
        if rty == ("ext", "Snd") and fld is not None:
            if name == "finish":
                noargs()
                r = self.fresh()
                pre.append("let %s := %s %s" % (r, self.ext("QExt", "send_finish"), rterm))
                self.set_place(e.recv, "%s.1" % r, pre, line)
                return "%s.2" % r, ("result", "unit")
            if name == "stopped":
                noargs()
                return "(%s %s)" % (self.ext("QExt", "send_stopped"), rterm), ("ext", "Fut")
        raise Unsupported("method `%s` on a value of type %s" % (name, rty if isinstance(rty, str) else rty[0]), line)

    # ---- patterns
    def pattern(self, p, ty):
        """-> Lean pattern; declares the bound names in the current scope"""
        if p.kind == "pwild":
            return "_"
        if p.kind == "punit":
            if ty != "unit":
                raise Unsupported("`()` pattern against a non-unit", p.line)
            return "()"
        if p.kind == "pbind":
            v = self.declare(p.name, ty, p.mut, p.line)
            if ty == "error":
                return "_"
            return v.lean
        segs = p.segs
        tk = ty[0] if isinstance(ty, tuple) else ty

        def sub1(inner):
            if len(p.subs) != 1:
                raise Unsupported("constructor pattern `%s` with other than one argument" % "::".join(segs), p.line)
            return self.pattern(p.subs[0], inner)
        if segs == ["Some"] and tk == "option":
            return "(some %s)" % sub1(ty[1])
        if segs == ["None"] and tk == "option" and not p.subs:
            return "none"
        if segs == ["Ok"] and tk == "result":
            return "(RResult.ok %s)" % sub1(ty[1])
        if segs == ["Err"] and tk == "result":
            s = sub1("error")
            if s != "_":
                raise Unsupported("pattern inside Err(..) other than a binding or `_`", p.line)
            return "RResult.err"
        if segs == ["Poll", "Ready"] and tk == "poll":
            return "(Poll.Ready %s)" % sub1(ty[1])
        if segs == ["Poll", "Pending"] and tk == "poll" and not p.subs:
            return "Poll.Pending"
        raise Unsupported("pattern `%s` against a value of type %s" % (show_pat(p), tk), p.line)

    # ---- control flow
    def diverge_or_value(self, e, M, want_value, expected):
        """a leaf in arm / branch position -> (lines, type or 'never')"""
        if e.kind == "continue":
            if self.in_loop is None:
                raise Unsupported("`continue` outside a loop", e.line)
            return ["-- L%d: continue" % e.line, "Flow.ret (LoopCtl.continue_ %s)" % self.tup(self.in_loop)], "never"
        if e.kind == "return":
            pre = []
            if e.e is None:
                t, ty = "()", "unit"
            else:
                t, ty = self.ex(e.e, pre, self.fn_ret)
            self.check_ret(ty, e.line)
            return ["-- L%d: %s" % (e.line, show_expr(e))] + self.flat(pre) + ["Flow.ret %s" % self.ret_term(t)], "never"
        pre = []
        t, ty = self.ex(e, pre, expected)
        if want_value:
            return self.flat(pre) + ["Flow.next %s" % self.tup(M, t)], ty
        return self.flat(pre) + ["Flow.next %s" % self.tup(M)], ty

    def check_ret(self, ty, line):
        if ty != self.fn_ret:
            raise Unsupported("returned value of type %r where the fn returns %r" % (ty, self.fn_ret), line)

    def flat(self, pre):
        out = []
        for p in pre:
            out.extend(p.split("\n"))
        return out

    def join_type(self, a, b, line):
        if a == "never" or a is None:
            return b
        if b == "never" or b is None:
            return a
        if a != b:
            raise Unsupported("branches of different types (%r, %r)" % (a, b), line)
        return a

    def cf(self, e, M, want_value, expected=None):
        """Flow term (lines) whose `.next` carries tuple(M [+ value]) -> (lines, value type)"""
        k = e.kind
        if k == "paren":
            return self.cf(e.e, M, want_value, expected)
        if k == "block":
            self.push()
            res = [None]

            def kk(val, ty):
                res[0] = ty
                if want_value:
                    if val is None:
                        val, ty = "()", "unit"
                        res[0] = "unit"
                    return ["Flow.next %s" % self.tup(M, val)]
                return ["Flow.next %s" % self.tup(M)]
            lines = self.seq(e, kk, expected if want_value else None, want_value)
            self.pop()
            return lines, (res[0] if res[0] is not None else "never")
        if k == "if":
            pre = []
            c, cty = self.ex(e.cond, pre, "bool")
            if cty != "bool":
                raise Unsupported("`if` on a non-bool", e.line)
            tl, tty = self.cf(e.then, M, want_value, expected)
            if e.els is not None:
                el, ety = self.cf(e.els, M, want_value, expected)
            else:
                if want_value and tty not in ("unit", "never"):
                    raise Unsupported("`if` without `else` in value position", e.line)
                el, ety = ["Flow.next %s" % self.tup(M, "()" if want_value else None)], "unit"
            ty = self.join_type(tty, ety, e.line) if want_value else "unit"
            return self.flat(pre) + ["if %s then" % c] + indent(tl, 2) + ["else"] + indent(el, 2), ty
        if k == "iflet":
            arms = [Node("arm", e.line, pat=e.pat, body=e.then)]
            els = e.els if e.els is not None else Node("unit", e.line)
            arms.append(Node("arm", e.line, pat=Node("pwild", e.line), body=els))
            return self.cf_match(e, e.scrut, arms, M, want_value, expected)
        if k == "match":
            return self.cf_match(e, e.scrut, e.arms, M, want_value, expected)
        return self.diverge_or_value(e, M, want_value, expected)

    def cf_match(self, e, scrut, arms, M, want_value, expected):
        pre = []
        s, sty = self.ex(scrut, pre)
        out = self.flat(pre) + ["(match %s with" % s]
        ty = None
        for a in arms:
            self.push()
            pat = self.pattern(a.pat, sty)
            out.append("| %s =>" % pat.strip("()") if pat.startswith("(") and pat.endswith(")") and pat.count("(") == 1 else "| %s =>" % pat)
            out.append("  -- L%d: %s => ..." % (a.line, show_pat(a.pat)))
            bl, bty = self.cf(a.body, M, want_value, expected)
            out.extend(indent(bl, 2))
            self.pop()
            ty = self.join_type(ty, bty, a.line) if want_value else "unit"
        out[-1] = out[-1] + ")"
        return out, ty

    def seq(self, blk, k, expected=None, want_value=True):
        """statements of a block, then `k(tail value term or None, type)` for the fall-through"""
        out = []
        stmts = list(blk.stmts)
        tail = blk.tail
        if tail is not None and not want_value and tail.kind in CF_KINDS and tail.kind != "loop":
            stmts.append(Node("expr", tail.line, e=tail))      # a block-like tail whose value is not used: a statement
            tail = None
        blk = Node("block", blk.line, stmts=stmts, tail=tail, end=blk.end)
        n = len(blk.stmts)
        for i, s in enumerate(blk.stmts):
            last = i == n - 1 and blk.tail is None
            if s.kind == "let":
                out.extend(self.stmt_let(s))
                continue
            if s.kind == "assign":
                pre = []
                _, _, _, pty = self.place(s.place, s.line)
                t, ty = self.ex(s.value, pre, pty)
                if ty != pty:
                    raise Unsupported("assignment of a value of another type", s.line)
                out.append("-- L%d: %s = %s;" % (s.line, show_expr(s.place), show_expr(s.value)))
                self.set_place(s.place, t, pre, s.line)
                out.extend(self.flat(pre))
                continue
            e = s.e
            if e.kind in ("return", "continue"):
                if not last:
                    raise Unsupported("statements after `%s`" % e.kind, e.line)
                lines, _ = self.diverge_or_value(e, [], False, None)
                out.extend(lines)
                return out
            if e.kind == "macro" and e.name in LOG_MACROS:
                for a in e.args:
                    if a.kind not in ("str", "path", "field"):
                        raise Unsupported("logging macro whose arguments may have effects", e.line)
                out.append("-- L%d: %s!(..)   (logging: skipped, arguments are free of effects)" % (e.line, e.name))
                continue
            if e.kind == "loop":
                raise Unsupported("`loop` that is not the whole body of the fn", e.line)
            if e.kind in CF_KINDS:
                M = self.mutated(e)
                lines, _ = self.cf(e, M, False)
                out.append("-- L%d: %s   (assigns: %s)" % (e.line, show_expr(e), ", ".join(M) if M else "nothing"))
                out.append("Flow.bind (")
                out.extend(indent(lines, 2))
                out.append(") fun %s =>" % self.tup(M))
                continue
            pre = []
            out.append("-- L%d: %s;" % (e.line, show_expr(e)))
            self.ex(e, pre)
            out.extend(self.flat(pre))
        if blk.tail is not None:
            e = blk.tail
            if e.kind in ("return", "continue"):
                lines, _ = self.diverge_or_value(e, [], False, None)
                out.extend(lines)
                return out
            if e.kind == "loop":
                raise Unsupported("`loop` that is not the whole body of the fn", e.line)
            pre = []
            out.append("-- L%d: %s   (value of the block)" % (e.line, show_expr(e)))
            t, ty = self.ex(e, pre, expected)
            out.extend(self.flat(pre))
            out.extend(k(t, ty))
        else:
            out.extend(k(None, "unit"))
        return out

    def stmt_let(self, s):
        out = []
        pre = []
        p = s.pat
        if s.ty is not None:
            raise Unsupported("let with a type annotation", s.line)
        out.append("-- L%d: let %s = %s;" % (s.line, show_pat(p), show_expr(s.init)))
        # let this = self.get_mut();
        i = s.init
        if p.kind == "pbind" and i.kind == "mcall" and i.name == "get_mut" and not i.args and i.recv.kind == "path" \
                and i.recv.segs == ["self"]:
            if self.fn.recv != "pinmut":
                raise Unsupported("self.get_mut() on a receiver that is not Pin<&mut Self>", s.line)
            self.scopes[-1][p.name] = self.lookup("self", s.line)
            out[-1] += "   (`%s` is `*self`)" % p.name
            return out
        t, ty = self.ex(i, pre)
        out.extend(self.flat(pre))
        if p.kind == "pwild":
            return out
        if p.kind != "pbind":
            raise Unsupported("let with a refutable / structured pattern", s.line)
        if ty in ("error", "cx", "never"):
            raise Unsupported("let binding of a value of type %s" % ty, s.line)
        v = self.declare(p.name, ty, p.mut, s.line)
        out.append("let %s : %s := %s" % (v.lean, lean_type(ty), t))
        return out

    # ---- functions
    def gen_fn(self, im, fn):
        self.impl = im
        self.fn = fn
        self.scopes = []
        self.push()
        self.in_loop = None
        sname = self.struct.name
        params = []
        if fn.recv is not None:
            if fn.recv not in ("refmut", "pinmut"):
                raise Unsupported("receiver of fn %s is not `&mut self` / `Pin<&mut Self>`" % fn.name, fn.line)
            self.scopes[-1]["self"] = Var("self_", self.self_type(), True)
            params.append("(self_ : %s)" % self.struct_lean())
        for pname, pty, pl in fn.params:
            ty = self.resolve(pty, pl)
            v = self.declare(pname, ty, False, pl)
            if ty != "cx":
                params.append("(%s : %s)" % (v.lean, lean_type(ty)))
        self.fn_ret = self.resolve(fn.ret, fn.line)
        ret_l = lean_type(self.fn_ret)
        if fn.recv is not None:
            ret_l = "%s × %s" % (self.struct_lean(), ret_l)
        body = fn.body
        is_loop = (not body.stmts and body.tail is not None and body.tail.kind == "loop") or \
                  (len(body.stmts) == 1 and body.tail is None and body.stmts[0].kind == "expr" and body.stmts[0].e.kind == "loop")
        lines = []
        if is_loop:
            lp = body.tail if body.tail is not None else body.stmts[0].e
            M = self.mutated(lp.body)
            if M != ["self"]:
                raise Unsupported("loop whose carried state is not exactly `self`", lp.line)
            self.in_loop = M
            self.push()

            def kk(val, ty):
                if val is not None and ty != "unit":
                    raise Unsupported("loop body with a value", lp.line)
                return ["-- L%d: end of the loop body: go round again" % lp.body.end, "Flow.next %s" % self.tup(M)]
            inner = self.seq(lp.body, kk, None, False)
            self.pop()
            lines.append("-- L%d: loop { ... }   (carried: %s; `fuel` rounds, `none` = still running)" % (lp.line, ", ".join(M)))
            lines.append("Flow.loop (fun %s =>" % self.tup(M))
            lines.extend(indent(inner, 2))
            lines.append(") fuel %s" % self.tup(M))
            ret_l = "Option (%s)" % ret_l
            fuel = " (fuel : Nat)"
        else:
            fuel = ""

            def kk(val, ty):
                if val is None:
                    val, ty = "()", "unit"
                self.check_ret(ty, fn.line)
                return ["Flow.ret %s" % self.ret_term(val)]
            lines = self.seq(body, kk, self.fn_ret)
        rec = RECORD_OF[sname]
        tps = " ".join(self.struct_params())
        etps = " ".join(EXT_PARAMS[rec])
        allp = []
        for x in self.struct_params() + EXT_PARAMS[rec]:
            if x not in allp:
                allp.append(x)
        hdr = "def %s.%s {%s : Type} (X : %s %s) (ov : Bool)%s %s: Res (%s) :=" % (
            sname, fn.name, " ".join(allp), rec, etps, fuel, " ".join(params) + (" " if params else ""), ret_l)
        trait = im.trait[1][-1] if im.trait else None
        recv_s = {"refmut": "&mut self", "pinmut": "self: Pin<&mut Self>", None: ""}[fn.recv]
        ps = ", ".join(([recv_s] if recv_s else []) + ["%s: %s" % (n, show_type(t)) for n, t, _ in fn.params])
        out = ["-- impl %s%s L%d: fn %s(%s) -> %s" % (trait + " for " if trait else "", sname, fn.line, fn.name, ps, show_type(fn.ret)),
               "/-- `%s::%s`%s -/" % (sname, fn.name,
                                     "; the result is the pair (final `*self`, returned value)" if fn.recv else ""),
               hdr, "  Flow.run ("]
        out.extend(indent(lines, 2))
        out.append("  )")
        self.pop()
        return out


MUTATING_METHODS = {"take", "extend_from_slice", "poll_next_unpin", "poll_ready_unpin", "poll_flush_unpin", "poll_close_unpin",
                    "start_send_unpin", "decode", "encode", "finish", "as_mut", "get_mut", "poll"}
STRUCT_PARAMS = {"WebSocketFramed": ["WS", "C", "E", "D"], "QuicStream": ["Snd", "Rcv", "Fut"]}
RECORD_OF = {"WebSocketFramed": "Ext", "QuicStream": "QExt"}
EXT_PARAMS = {"Ext": ["WS", "C", "E", "D"], "QExt": ["Snd", "Fut", "V"]}


# --------------------------------------------------------------------------------------------
# fixed run-time support
# --------------------------------------------------------------------------------------------

SUPPORT = r"""
/-! ### fixed run-time support (not derived from the source): library semantics

`Res`, `Flow`, `Flow.bind/run/arith`, `U64.addOk` are those of `Octo.PWGen`; `RResult`, `Flow.question`, `Cursor` and its
operations are those of `Octo.AddrGen`. -/

/-- call of a function that can panic (a translated one, or an assumed external): its value, or its panic -/
def Flow.call {α ρ : Type} : Res α → Flow α ρ
  | .ok a => .next a
  | .panic => .panic

/-- `std::task::Poll<T>` -/
inductive Poll (α : Type) where
  | Ready (a : α)
  | Pending
deriving DecidableEq, Repr

/-- `ready!(e)`: the value of `Poll::Ready`, or return `Poll::Pending` from the function (`onPending` = that result) -/
def Flow.ready {τ ρ : Type} (p : Poll τ) (onPending : ρ) : Flow τ ρ :=
  match p with
  | .Ready t => .next t
  | .Pending => .ret onPending

/-- `Poll<Result<T, E>>::map_err(|e| anyhow!(e))`: error values are not modelled, so only the shape remains -/
def Poll.map_err {α : Type} (p : Poll (RResult α)) : Poll (RResult α) := p
/-- `Result<T, E>::map_err(|e| anyhow!(e))` -/
def RResult.map_err {α : Type} (r : RResult α) : RResult α := r

/-- what `continue` / `return` inside a `loop` body hand to the loop -/
inductive LoopCtl (σ ρ : Type) where
  | continue_ (s : σ)
  | return_ (r : ρ)

/-- `loop { body }`: the body falls through (`next`) or `continue`s to go round again, or `return`s; at most `fuel`
rounds are run, `none` = the loop is still running after them (never a guess about termination) -/
def Flow.loop {σ ρ : Type} (body : σ → Flow σ (LoopCtl σ ρ)) : Nat → σ → Flow Empty (Option ρ)
  | 0, _ => .ret none
  | fuel + 1, s =>
    match body s with
    | .next s' => Flow.loop body fuel s'
    | .ret (.continue_ s') => Flow.loop body fuel s'
    | .ret (.return_ r) => .ret (some r)
    | .panic => .panic

/-- `BytesMut::with_capacity(n)` (`Vec::with_capacity`): an empty buffer; panics ("capacity overflow") when `n`
exceeds `isize::MAX` -/
def Flow.with_capacity {ρ : Type} (n : Usize) : Flow Cursor ρ :=
  if n.toNat ≤ 2 ^ 63 - 1 then .next [] else .panic

/-- `tokio_websockets::Message` as far as this file looks at it: the opcode class and the payload -/
inductive Opcode where
  | Text | Binary | Close | Ping | Pong
deriving DecidableEq, Repr
structure Message where
  opcode : Opcode
  payload : Cursor
deriving DecidableEq, Repr
def Message.is_binary (m : Message) : Bool := m.opcode == .Binary
def Message.is_text (m : Message) : Bool := m.opcode == .Text
/-- `as_payload()` (a `&Payload`, read here through `len()` / `extend_from_slice`: its bytes) -/
def Message.as_payload (m : Message) : Cursor := m.payload
/-- `into_payload()` (then `BytesMut::from`: its bytes) -/
def Message.into_payload (m : Message) : Cursor := m.payload
/-- `Message::binary(payload)` -/
def Message.binary (b : Cursor) : Message := ⟨.Binary, b⟩

/-- `opt.as_mut().map(|f| f.as_mut().poll(cx))`: polls the future held in the option in place -/
def Option.as_mut_map_poll {F R : Type} (poll : F → F × R) : Option F → Option F × Option R
  | some f => (some (poll f).1, some (poll f).2)
  | none => (none, none)
"""

EXT_DOC = {
    "stream_poll_next": ("WS → WS × Poll (Option (RResult Message))",
                         "`<WebSocketStream<T> as Stream>::poll_next` (through `StreamExt::poll_next_unpin`): new state of the "
                         "inner stream and what it answered; `RResult.err` = a transport / protocol error"),
    "stream_poll_ready": ("WS → WS × Poll (RResult Unit)", "`<WebSocketStream<T> as Sink<Message>>::poll_ready`"),
    "stream_start_send": ("WS → Message → WS × RResult Unit", "`<WebSocketStream<T> as Sink<Message>>::start_send`"),
    "stream_poll_flush": ("WS → WS × Poll (RResult Unit)", "`<WebSocketStream<T> as Sink<Message>>::poll_flush`"),
    "stream_poll_close": ("WS → WS × Poll (RResult Unit)", "`<WebSocketStream<T> as Sink<Message>>::poll_close`"),
    "codec_decode": ("C → Cursor → Res (C × Cursor × RResult (Option D))",
                     "`<C as Decoder>::decode(&mut self, &mut BytesMut)`: (final codec, final buffer, result), or its panic"),
    "codec_encode": ("C → E → Cursor → Res (C × Cursor × RResult Unit)",
                     "`<C as Encoder<E>>::encode(&mut self, item, &mut BytesMut)`: (final codec, final buffer, result), or its panic"),
    "send_finish": ("Snd → Snd × RResult Unit", "`quinn::SendStream::finish(&mut self)`"),
    "send_stopped": ("Snd → Fut", "`quinn::SendStream::stopped(&self)`: the future that resolves once the peer has taken delivery "
                     "(or stopped the stream); boxed and pinned by the caller"),
    "delivered_poll": ("Fut → Fut × Poll (RResult (Option V))", "`Future::poll` of that boxed future (`V` = `quinn::VarInt`)"),
}
EXT_FIELDS = {"Ext": ["stream_poll_next", "stream_poll_ready", "stream_start_send", "stream_poll_flush", "stream_poll_close",
                      "codec_decode", "codec_encode"],
              "QExt": ["send_finish", "send_stopped", "delivered_poll"]}


def header(path, digest, p, g):
    lines = [
        "/- GENERATED by translate_wsframed.py — do not edit.",
        "   source: %s" % path,
        "   sha256: %s" % digest,
        "",
        "   Statement-by-statement translation of `struct WebSocketFramed` (`new`, `Stream::poll_next`, `Sink::{poll_ready,",
        "   start_send, poll_flush, poll_close}`) and of `struct QuicStream` (`AsyncWrite::poll_shutdown`), located by name.",
        "   Conventions: a method with `&mut self` / `self: Pin<&mut Self>` (the struct is `Unpin`) takes the struct value and",
        "   returns (final `*self`, returned value); `self.f = e` = `{ self_ with f := e }`; `BytesMut` / `Bytes` / `Payload` =",
        "   `Cursor` (List UInt8); `Option` = Option, `Result<T, _>` = RResult T (error values and texts are not modelled:",
        "   `Err(anyhow!(e))` = `RResult.err`), `Poll` = Poll; `match` / `if let` = a Lean `match` with the same arms in the",
        "   same order (first matching arm); `ready!(e)` = Flow.ready, `e?` = Flow.question; `a + b` on usize is preceded by",
        "   `Flow.arith ov (..)` (panic when overflow-checks are on); `BytesMut::with_capacity` panics above isize::MAX;",
        "   `PhantomData` = Unit.  `loop { .. }` = `Flow.loop body fuel state`: `continue` and falling off the end go round again,",
        "   `return` leaves; the function takes the number of rounds it may run as `fuel` and answers `none` when they do",
        "   not suffice (Octo/Proofs/WsFramedGen.lean proves how many do).  The task context `cx` is dropped: waker",
        "   registration is not modelled, a poll function is a function of the polled object's state alone.",
        "   ASSUMED EXTERNALS (not translated; fields of the records `Ext` / `QExt`, never defaulted):",
    ]
    for rec in ("Ext", "QExt"):
        for f in EXT_FIELDS[rec]:
            used = (rec, f) in g.ext_used
            lines.append("     - %s.%s : %s%s" % (rec, f, EXT_DOC[f][0], "" if used else "   (not used by the translated code)"))
    lines.append("   type parameters: WS = `WebSocketStream<T>`, C = the codec, E / D = the encoded / decoded item; Snd / Rcv =")
    lines.append("   `quinn::SendStream` / `quinn::RecvStream`, Fut = the boxed `stopped()` future (`Delivered`), V = `quinn::VarInt`.")
    lines.append("   names are bound through the `use` items of the source (checked for: %s)." % ", ".join(sorted(g.uses_needed)))
    lines.append("   skipped (not parsed, bracket matching only):")
    lines.append("     - %d `use` items (read for name binding only)" % len(p.uses))
    for s in p.skipped:
        lines.append("     - " + s)
    lines.append("-/")
    return "\n".join(lines)


def translate(path):
    with open(path, "rb") as f:
        raw = f.read()
    digest = hashlib.sha256(raw).hexdigest()
    src = raw.decode("utf-8")
    toks = tokenize(src)
    all_idents = {t.text for t in toks if t.kind == "ident"}
    p = Parser(toks)
    p.parse_file()
    g = Gen(p, all_idents)
    out = []
    for sname in ("WebSocketFramed", "QuicStream"):
        if sname not in p.structs:
            raise Unsupported("struct %s not found" % sname, 0)
    body = []
    for sname in ("WebSocketFramed", "QuicStream"):
        st = p.structs[sname]
        g.struct = st
        g.impl = None
        want_t = {"WebSocketFramed": ["T", "C", "E", "D"], "QuicStream": []}[sname]
        if st.tparams != want_t:
            raise Unsupported("struct %s with type parameters other than <%s>" % (sname, ", ".join(want_t)), st.line)
        rec = RECORD_OF[sname]
        body.append("")
        body.append("/-! ### assumed externals of `%s` -/" % sname)
        body.append("structure %s (%s : Type) where" % (rec, " ".join(EXT_PARAMS[rec])))
        for f in EXT_FIELDS[rec]:
            body.append("  /-- %s -/" % EXT_DOC[f][1])
            body.append("  %s : %s" % (f, EXT_DOC[f][0]))
        body.append("")
        body.append("/-! ### struct %s -/" % sname)
        body.append("structure %s (%s : Type) where" % (sname, " ".join(STRUCT_PARAMS[sname])))
        for fname, fty, fl in st.fields:
            body.append("  -- L%d: %s: %s" % (fl, fname, show_type(fty)))
            body.append("  %s : %s" % (fname, lean_type(g.resolve(fty, fl))))
        body.append("")
        body.append("/-! ### methods of `%s` -/" % sname)
        found = set()
        for im in p.impls:
            if im.ty[1][-1] != sname:
                continue
            trait = im.trait[1][-1] if im.trait else None
            if sname == "WebSocketFramed":
                if list(im.tparams) != ["T", "C", "E", "D"] or im.ty[2] != tuple(("path", (x,), ()) for x in "TCED"):
                    raise Unsupported("impl of WebSocketFramed with unexpected type parameters", im.line)
            for fn in im.fns:
                found.add((trait, fn.name))
                body.extend(g.gen_fn(im, fn))
                body.append("")
        for (ty, trait), fns in WANTED_IMPLS.items():
            if ty != sname:
                continue
            for fn in fns:
                if (trait, fn) not in found:
                    raise Unsupported("fn %s of impl %s%s not found" % (fn, trait + " for " if trait else "", ty), 0)
    text = [header(path, digest, p, g),
            "import Octo.Gen.AddrGen",
            "set_option linter.unusedVariables false",
            "namespace Octo.WsFramedGen",
            "open Octo.PWGen Octo.AddrGen",
            SUPPORT]
    text.extend(body)
    text.append("end Octo.WsFramedGen")
    return "\n".join(text) + "\n"


def main(argv):
    if len(argv) != 3:
        sys.stderr.write("usage: translate_wsframed.py <path/to/octo-squirrel/src/codec.rs> <out.lean>\n")
        return 2
    try:
        text = translate(argv[1])
    except Unsupported as u:
        sys.stderr.write("translate_wsframed: unsupported: %s at line %d\n" % (u.what, u.line))
        return 3
    except OSError as e:
        sys.stderr.write("translate_wsframed: %s\n" % e)
        return 2
    try:
        with open(argv[2], "w", encoding="utf-8") as f:
            f.write(text)
    except OSError as e:
        sys.stderr.write("translate_wsframed: %s\n" % e)
        return 2
    return 0


if __name__ == "__main__":
    sys.exit(main(sys.argv))
