#!/usr/bin/env python3
"""Rust-subset -> Lean 4 translator for the Shadowsocks SERVER stream codec `PayloadCodec` of
`octo-squirrel-server/src/server/shadowsocks.rs` (module `tcp`).

usage:  translate_sspayload.py <path/to/octo-squirrel-server/src/server/shadowsocks.rs> <out.lean>

Translated from the argument (located by name, inside `mod tcp { .. }`): every `enum` of the module (here `State`),
`struct PayloadCodec<const N: usize>`, `impl Encoder<OutboundIn> for PayloadCodec<N> { fn encode }` and
`impl Decoder for PayloadCodec<N> { fn decode }` (the `State::{Header, Body}` machine that collects the target address).
Everything else of the file (the UDP relay, `startup*`, `ServerContext`, `PayloadCodec::new`, `impl From<&ServerContext>`,
`mod udp`, cfg-gated items, `use` items) is skipped by balanced-bracket matching and listed in the generated header.

The inner codec `AEADCipherCodec::{decode, encode}` (`octo-squirrel/src/codec/shadowsocks/tcp.rs`) is NOT translated again:
translate_sstcp.py is run in-process on that file (with all the files it reads and all its checks), the generated calls go
to the functions of `Octo.SsTcpGen` (`lean/Octo/Gen/SsTcpGen.lean`), and a `SsTcpGen.lean` next to the output that was
generated from other sources is a usage error (exit 2).  `address::decode` / `address::try_decode_at` are those of
`Octo.AddrGen` (translate_addr.py).  Further source files, found relative to the argument (`<root>` = three directories
above the argument's directory) or - for copies kept in one directory - under the flat name:

  codec    <root>/octo-squirrel/src/codec/shadowsocks/tcp.rs | <dir>/codec_shadowsocks_tcp.rs   (and, relative to it, the
                                                               side files of translate_sstcp.py)
  message  <dir>/template.rs                                   `enum InboundIn`, `enum OutboundIn`,
                                                               `impl From<OutboundIn> for BytesMut` (translated: `item.into()`)

Extends the parser / type checker / emitter of translate_sstcp.py (which extends translate_trojan / _addr / _nonce / _pw)
by: items nested in one named `mod`, `use` items inside it, trait impls with a const generic and associated types
(`Self::Item`), let-else (`let Some([mut] x) = e else { <diverges> };`), byte-buffer methods on a field place
(`self.pending.extend_from_slice(..)`), `BytesMut::split_off`, `Address::clone`, disjoint field borrows of one variable in
one call (`self.cipher.decode(&self.context, &mut self.session, src)`), a tuple pattern inside a constructor pattern.

Exit status: 0 a Lean module was written | 2 usage / IO error | 3 a construct outside the supported subset inside a
target item (or a target item / source file / external signature is missing or changed); one line on stderr; nothing is
written (never a guess).
"""
import hashlib
import os
import re
import sys

sys.path.insert(0, os.path.dirname(os.path.abspath(__file__)))
import translate_pw as pw  # noqa: E402
import translate_nonce as tn  # noqa: E402
import translate_addr as ta  # noqa: E402
import translate_trojan as tt  # noqa: E402
import translate_sstcp as ts  # noqa: E402
from translate_pw import Unsupported, Node  # noqa: E402

TARGET_MOD = "tcp"
TARGET_STRUCT = "PayloadCodec"
TARGET_FNS = {"Encoder": "encode", "Decoder": "decode"}
lean_name = ts.lean_name
lean_type = ts.lean_type
type_str = ts.type_str
show_expr = ts.show_expr
show_type = ts.show_type

# what a name must be imported as for the translator to read it the way it does (added to translate_sstcp's table AFTER
# tcp.rs itself has been translated: there `Context` .. are local definitions)
USE_SUFFIX_MORE = {
    "Context": ["codec", "shadowsocks", "tcp", "Context"],
    "Session": ["codec", "shadowsocks", "tcp", "Session"],
    "AEADCipherCodec": ["codec", "shadowsocks", "tcp", "AEADCipherCodec"],
    "InboundIn": ["template", "message", "InboundIn"],
    "OutboundIn": ["template", "message", "OutboundIn"],
    "Result": ["anyhow", "Result"],
    "Decoder": ["codec", "Decoder"],
    "Encoder": ["codec", "Encoder"],
}

_ts_method_sig = ts.method_sig
_TsGen = ts.Gen


def method_sig(rty, name):
    if rty == "BytesMut" and name == "split_off":
        return (["usize"], "BytesMut", "read", "Flow.split_off")
    return _ts_method_sig(rty, name)


for _m in (ta, tt, ts):
    _m.method_sig = method_sig
ta.MUTATING = re.compile(ta.MUTATING.pattern + "|split_off")


# --------------------------------------------------------------------------------------------
# parser
# --------------------------------------------------------------------------------------------

class Parser(ts.Parser):
    """roles of translate_sstcp, and: pmain (the argument) | pmessage (template.rs)"""

    def __init__(self, toks, role):
        ts.Parser.__init__(self, toks, role)
        self.in_target = False
        self.found_mod = 0
        self.mod_uses = {}

    def target_mod(self, depth, name):
        return depth == 0 and name == {"pmain": TARGET_MOD, "pmessage": "message"}[self.role]

    def wanted_enum(self, name, depth):
        if self.role == "pmain":
            return self.in_target
        if self.role == "pmessage":
            return self.in_target and name in ("InboundIn", "OutboundIn")
        return ts.Parser.wanted_enum(self, name, depth)

    def wanted_struct(self, name):
        if self.role == "pmain":
            return self.in_target and name == TARGET_STRUCT
        if self.role == "pmessage":
            return False
        return ts.Parser.wanted_struct(self, name)

    def wanted_impl(self, trait, targs, ty):
        if self.role == "pmain":
            return self.in_target and ty == TARGET_STRUCT and trait in TARGET_FNS
        if self.role == "pmessage":
            k = self.pos
            texts = [x.text for x in self.toks[k:k + 8]]
            return self.in_target and texts == ["impl", "From", "<", "OutboundIn", ">", "for", "BytesMut", "{"]
        return ts.Parser.wanted_impl(self, trait, targs, ty)

    def parse_items(self, depth, stop, modname=None):
        if self.role not in ("pmain", "pmessage"):
            return ts.Parser.parse_items(self, depth, stop, modname)
        main = self.role == "pmain"
        while not (self.tok.kind == "eof" or (stop == "}" and self.at("}"))):
            if self.at(";"):
                self.advance()
                continue
            first = self.tok
            attrs = self.parse_attrs()
            self.parse_vis()
            t = self.tok
            nxt = self.peek()
            gated = any(re.sub(r"\s+", "", text).startswith(("cfg(", "test")) for text, _ in attrs)
            kw = t.text
            name = nxt.text if nxt.kind == "ident" else ""
            if gated:
                end = self.skip_item()
                if main:
                    self.note_skip("cfg/test-gated %s %s" % (kw, name), first.line, end)
                continue
            if self.at("use"):
                if depth == 0:
                    self.parse_use()
                elif self.in_target:
                    outer, self.uses = self.uses, self.mod_uses
                    try:
                        self.parse_use()
                    finally:
                        self.uses = outer
                else:
                    self.skip_item()
                continue
            if self.at("mod") and self.peek(2).text == "{":
                if self.target_mod(depth, name):
                    self.advance()
                    self.advance()
                    self.expect("{")
                    self.in_target = True
                    self.found_mod += 1
                    self.parse_items(depth + 1, "}")
                    self.in_target = False
                    self.expect("}")
                    continue
                end = self.skip_item()
                if main:
                    self.note_skip("mod %s" % name, first.line, end)
                continue
            if self.in_target:
                if self.at("enum") and self.wanted_enum(name, depth):
                    self.check_attrs(attrs)
                    self.enums.append(self.parse_enum())
                    continue
                if self.at("struct") and self.wanted_struct(name):
                    self.check_attrs(attrs)
                    self.structs.append(self.parse_struct())
                    continue
                if main and t.kind == "ident" and kw in ("struct", "enum", "union", "trait", "type", "mod", "static", "fn", "const") \
                        and (name in tt.LIB_NAMES or name in ts.MAIN_STRUCTS or name in ts.OPAQUE or name in ("Mode", "CipherKind")):
                    raise Unsupported("`%s %s`: a local definition of a name the translator reads as an imported name" % (kw, name), t.line)
                if self.at("impl"):
                    hdr = self.impl_header()
                    if hdr is not None and self.wanted_impl(*hdr[:3]):
                        self.check_attrs(attrs)
                        self.impls.append(self.parse_impl(hdr))
                        continue
                    end = self.skip_item()
                    if main:
                        self.note_skip("impl block `%s`" % self.header_text(first), first.line, end)
                    continue
            if self.at("macro_rules") and nxt.text == "!":
                name = self.peek(2).text
            if (self.at("async") or self.at("const") or self.at("unsafe")) and nxt.text == "fn":
                kw, name = "fn", self.peek(2).text
            end = self.skip_item()
            if main:
                what = "%s %s" % (kw, name) if name else "item starting with `%s`" % kw
                self.note_skip(what + (" (in `mod %s`)" % TARGET_MOD if self.in_target else ""), first.line, end)

    def parse_impl(self, hdr):
        if self.role not in ("pmain", "pmessage"):
            return ts.Parser.parse_impl(self, hdr)
        trait, targs, ty, brace, gen = hdr
        line = self.tok.line
        self.pos = brace
        self.expect("{")
        self.generic = gen
        types, fns = {}, []
        while not self.at("}"):
            attrs = self.parse_attrs()
            self.check_attrs(attrs)
            self.parse_vis()
            if self.at("type"):
                self.advance()
                n = self.ident().text
                self.expect("=")
                types[n] = self.parse_type()
                self.expect(";")
            elif self.at("fn"):
                fn = self.parse_fn()
                fn.generic = gen
                fns.append(fn)
            else:
                raise Unsupported("`%s` item in `impl %s for %s`" % (self.tok.text, trait, ty), self.tok.line)
        self.expect("}")
        self.generic = None
        return Node("impl", line, trait=trait, targs=targs, ty=ty, types=types, fns=fns, generic=gen)

    def parse_let(self):
        if self.peek().text == "Some" and self.peek(2).text == "(":
            line = self.expect("let").line
            self.advance()
            self.expect("(")
            mut = bool(self.accept("mut"))
            if self.tok.kind != "ident" or self.tok.text in pw.RUST_KEYWORDS:
                raise Unsupported("pattern in let-else (only `Some(x)` / `Some(mut x)`)", line)
            name = self.advance().text
            self.expect(")")
            if not self.at("="):
                raise Unsupported("pattern in let-else (only `Some(x)` / `Some(mut x)`)", line)
            self.advance()
            e = self.parse_expr(no_struct=True)
            if not self.at("else"):
                raise Unsupported("refutable pattern in `let` without `else` (rustc would reject)", line)
            self.advance()
            els = self.parse_block()
            self.expect(";")
            return Node("letelse", line, name=name, mut=mut, expr=e, els=els)
        return ts.Parser.parse_let(self)


# --------------------------------------------------------------------------------------------
# type checker + emitter
# --------------------------------------------------------------------------------------------

class Gen(_TsGen):
    INSTANCE = None

    def __init__(self, all_idents, uses):
        _TsGen.__init__(self, all_idents, uses)
        Gen.INSTANCE = self
        self.my_assoc = {}
        self.payload = False       # True once tcp.rs is done and the argument is being translated

    # ------------------------------------------------------------------ types
    def resolve_type(self, t):
        if t.kind == "tname" and t.segs[0] == "Self" and len(t.segs) == 2 and t.segs[1] in self.my_assoc:
            return self.resolve_type(self.my_assoc[t.segs[1]])
        if t.kind == "tname" and self.payload and self.in_main and t.segs == ["Result"] and len(t.args) == 1:
            self.require_use("Result", t.line)
        if t.kind == "tname" and self.payload and self.in_main and len(t.segs) == 1 and t.name in ("InboundIn", "OutboundIn") \
                and t.name in self.enums:
            self.require_use(t.name, t.line)
        return _TsGen.resolve_type(self, t)

    # ------------------------------------------------------------------ calls: disjoint field borrows of one variable
    def emit_call(self, fn_term, recv, arg_nodes, params, ret, what, pre, line):
        if len(arg_nodes) != len(params):
            raise Unsupported("%s takes %d argument(s), %d given (rustc would reject)" % (what, len(params), len(arg_nodes)), line)
        terms, outs = [], []

        def overlaps(v, fields):
            for w, g in outs:
                if w.name == v.name:
                    n = min(len(fields), len(g))
                    if list(fields[:n]) == list(g[:n]):
                        return True
            return False
        if recv is not None:
            v, fields, rmut = recv
            terms.append(self.place_term(v, fields) if v is not None else fields)
            if rmut:
                outs.append((v, fields))
        for a, (want, mut) in zip(arg_nodes, params):
            if mut:
                v, fields, ty = self.place_of(a, "passing `&mut` to %s" % what)
                if not self.compatible(ty, want):
                    raise Unsupported("argument of %s has type `%s`, expected `%s` (rustc would reject)" % (what, type_str(ty), type_str(want)), a.line)
                if overlaps(v, fields):
                    raise Unsupported("`%s` borrowed mutably twice (rustc would reject)" % show_expr(a), a.line)
                terms.append(self.place_term(v, fields))
                outs.append((v, fields))
            else:
                ty, t = self.ex(a, None if want in ("bytes", "SliceU8") else want, pre)
                if not self.compatible(ty, want):
                    raise Unsupported("argument of %s has type `%s`, expected `%s` (rustc would reject)" % (what, type_str(ty), type_str(want)), a.line)
                terms.append(t)
        x = self.fresh()
        names, later = [], []
        for v, fields in outs:
            if fields or getattr(v, "alias", None):
                tmp = self.fresh()
                names.append(tmp)
                later.append((v, fields, tmp))
            else:
                names.append(self.vname(v))
        pat = "(%s)" % ", ".join(names + [x]) if names else x
        pre.append("Flow.bind (Flow.call (%s)) fun %s =>" % (" ".join([fn_term] + terms), pat))
        for v, fields, tmp in later:
            self.write_place(self.lookup(v.name, line), fields, tmp, pre)
        return ret, x

    # ------------------------------------------------------------------ expressions
    def ex_mcall(self, e, expected, pre):
        n = e.name
        if n == "into" and not e.args:
            return tt.Gen.ex_mcall(self, e, expected, pre)
        bt = self.try_type(e.base)
        if n == "clone" and not e.args and bt == "Address":
            # `Address: Clone`: a copy of the value
            return self.ex(e.base, expected, pre)
        base = self.strip(e.base)
        if base.kind == "field" and bt in ("BytesMut", "Bytes", "VecU8"):
            sig = method_sig(bt, n)
            if sig is not None and sig[2] != "pure":
                argtys, ret, kind, fn = sig
                what = "`.%s(..)`" % n
                v, fields, _ = self.place_of(e.base, what)
                terms = self.args(e, argtys, pre, what)
                v = self.lookup(v.name, e.line)
                cur = self.place_term(v, fields)
                if kind == "read":
                    tmp, x = self.fresh(), self.fresh()
                    pre.append("Flow.bind (%s) fun (%s, %s) =>" % (" ".join([fn, cur] + terms), tmp, x))
                    self.write_place(v, fields, tmp, pre)
                    return ret, x
                if kind == "adv":
                    tmp = self.fresh()
                    pre.append("Flow.bind (%s) fun %s =>" % (" ".join([fn, cur] + terms), tmp))
                    self.write_place(v, fields, tmp, pre)
                    return "unit", "()"
                self.write_place(v, fields, "(%s)" % " ".join([fn, cur] + terms), pre)
                return "unit", "()"
        return _TsGen.ex_mcall(self, e, expected, pre)

    def try_type(self, e):
        if e.kind == "mcall" and e.name == "clone" and not e.args:
            t = self.try_type(e.base)
            return t if t == "Address" else None
        return _TsGen.try_type(self, e)

    # ------------------------------------------------------------------ statements
    def stmts(self, stmts, ind):
        idx = next((i for i, s in enumerate(stmts) if s.kind == "letelse"), None)
        if idx is None:
            return _TsGen.stmts(self, stmts, ind)
        if _TsGen.stmts(self, stmts[:idx], ind):
            raise Unsupported("statement after `return`/`bail!`", stmts[idx].line)
        s = stmts[idx]
        self.emit(ind, "-- L%d: let Some(%s%s) = %s else { ... };" % (s.line, "mut " if s.mut else "", s.name, show_expr(s.expr)))
        if not self.diverges(s.els):
            raise Unsupported("`else` block of let-else does not leave the function (only `return` / `bail!`)", s.els.line)
        pre = []
        ty, t = self.ex(s.expr, self.try_type(s.expr), pre)
        if not (isinstance(ty, tuple) and ty[0] == "option"):
            raise Unsupported("`let Some(..)` of a `%s` (rustc would reject)" % type_str(ty), s.line)
        self.emit_pre(ind, pre)
        v = self.fresh()
        self.emit(ind, "Flow.bind (")
        self.emit(ind + 1, "match %s with" % t)
        self.emit(ind + 1, "| some %s => Flow.next %s" % (v, v))
        self.emit(ind + 1, "| none =>")
        self.cf(s.els, ind + 2, ("tail",))
        self.emit(ind, ") fun %s =>" % v)
        self.declare(s.name, ty[1], s.mut, s.line)
        self.emit(ind, "let %s : %s := %s" % (lean_name(s.name), lean_type(ty[1]), v))
        return self.stmts(stmts[idx + 1:], ind)

    def outer_mutated(self, nodes):
        names = _TsGen.outer_mutated(self, nodes)
        # a let-else binding is local
        declared = set()

        def walk(n):
            if isinstance(n, list):
                for x in n:
                    walk(x)
            elif isinstance(n, Node):
                if n.kind == "letelse":
                    declared.add(n.name)
                for key, val in n.__dict__.items():
                    if key not in ("kind", "line", "ty") and isinstance(val, (Node, list)):
                        walk(val)
        walk(nodes)
        return [n for n in names if n not in declared or any(n in sc for sc in self.scopes)]

    # ------------------------------------------------------------------ match: a tuple pattern under a constructor
    def case_tree(self, cols, rows, ind, mode, line):
        newrows, changed = [], False
        for pats, binds, arm in rows:
            pats, binds = list(pats), list(binds)
            for i, p in enumerate(pats):
                term, ty, place = cols[i]
                if p.kind == "ptuple" and isinstance(ty, tuple) and ty[0] == "tuple":
                    if len(ty[1]) != len(p.subs):
                        raise Unsupported("tuple pattern `%s` for a `%s` (rustc would reject)" % (ts.show_pat(p), type_str(ty)), p.line)
                    n = len(p.subs)
                    for j, sp in enumerate(p.subs):
                        proj = "".join(".2" for _ in range(j)) + (".1" if j < n - 1 else "")
                        if sp.kind == "pbind" and not getattr(sp, "byref", None):
                            binds.append((sp, ("%s%s" % (term, proj), ty[1][j], None)))
                        elif sp.kind != "pwild":
                            raise Unsupported("nested pattern inside a tuple pattern", sp.line)
                    pats[i] = Node("pwild", p.line)
                    changed = True
            newrows.append((pats, binds, arm))
        return _TsGen.case_tree(self, cols, newrows if changed else rows, ind, mode, line)


PRELUDE = r'''
/-! ### fixed run-time support (not derived from the source): library semantics

Everything of `Octo.SsTcpGen` (`Flow.call`, `Ext`, `ExtTypes`, the structs `Context` / `Session` / `AEADCipherCodec`, the
functions `AEADCipherCodec.decode` / `.encode`), of `Octo.AddrGen` (`decode`, `try_decode_at`, `Cursor`, `RResult`) and of
`Octo.PWGen` (`Res`, `Flow`) is used as generated there. -/

/-- `BytesMut::split_off(at)`: afterwards `self` holds `[0, at)` and the returned buffer `[at, len)`; panics when
`at > len`; yields (what `self` keeps, the returned buffer) -/
def Flow.split_off {ρ : Type} (b : Cursor) (n : Usize) : Flow (Cursor × Cursor) ρ :=
  if n.toNat ≤ b.length then .next (b.take n.toNat, b.drop n.toNat) else .panic
'''


# --------------------------------------------------------------------------------------------
# driver
# --------------------------------------------------------------------------------------------

def first_existing(cands, what):
    for c in cands:
        if os.path.exists(c):
            return c
    raise Unsupported("source file for %s not found (looked for %s)" % (what, ", ".join(cands)), 1)


def read_tokens(path):
    data = open(path, "rb").read()
    try:
        src = data.decode("utf-8")
    except UnicodeDecodeError:
        raise Unsupported("non-UTF-8 source %s" % path, 1)
    return data, tn.tokenize(src)


def translate(path, out_path):
    data, toks = read_tokens(path)
    digest = hashlib.sha256(data).hexdigest()
    p = Parser(toks, "pmain")
    p.parse_file()
    if p.found_mod != 1:
        raise Unsupported("`mod %s { .. }` not found exactly once" % TARGET_MOD, 1)
    here = os.path.dirname(os.path.abspath(path))
    root = os.path.normpath(os.path.join(here, "..", "..", ".."))
    tcp_path = first_existing([os.path.join(root, "octo-squirrel", "src", "codec", "shadowsocks", "tcp.rs"),
                               os.path.join(here, "codec_shadowsocks_tcp.rs")], "`codec::shadowsocks::tcp`")
    msg_path = first_existing([os.path.join(here, "template.rs")], "`template::message`")
    if os.path.abspath(msg_path) == os.path.abspath(path):
        raise Unsupported("template.rs is the argument itself", 1)

    # -- 1. the codec layer: translate_sstcp's own pipeline on tcp.rs; our `Gen` keeps its tables
    ts.Gen = Gen   # translate_sstcp.translate instantiates `Gen` by this name
    try:
        sstcp_text = ts.translate(tcp_path, out_path)
    except Unsupported as u:
        raise Unsupported("%s (in %s, read by translate_sstcp)" % (u.what, os.path.basename(tcp_path)), u.line)
    g = Gen.INSTANCE
    tcp_digest = hashlib.sha256(open(tcp_path, "rb").read()).hexdigest()
    sstcp_gen = os.path.join(os.path.dirname(os.path.abspath(out_path)), "SsTcpGen.lean")
    if os.path.exists(sstcp_gen):
        have = open(sstcp_gen, encoding="utf-8").read().split("\n")
        want = sstcp_text.split("\n")
        if have[:1] + have[2:] != want[:1] + want[2:]:
            raise OSError("%s was not generated from %s and the files it reads as they are now: run translate_sstcp.py first"
                          % (sstcp_gen, tcp_path))

    # -- 2. the argument
    g.payload = True
    ts.USE_SUFFIX.update(USE_SUFFIX_MORE)
    uses = dict(p.uses)
    uses.update(p.mod_uses)
    mdata, mtoks = read_tokens(msg_path)
    mdigest = hashlib.sha256(mdata).hexdigest()
    mp = Parser(mtoks, "pmessage")
    try:
        mp.parse_file()
    except Unsupported as u:
        raise Unsupported("%s (in %s)" % (u.what, os.path.basename(msg_path)), u.line)
    g.idents |= set(t.text for t in toks if t.kind == "ident") | set(t.text for t in mtoks if t.kind == "ident")
    for bad in (g.ov, g.X, g.T, tt.SELF_NAME[0]):
        if bad in set(t.text for t in toks if t.kind == "ident"):
            raise Unsupported("the source uses the identifier `%s`, which is a generated name" % bad, 1)

    # template.rs: the message enums and `impl From<OutboundIn> for BytesMut`
    side_out = []
    g.out = side_out
    g.in_main = False
    g.uses = mp.uses
    g.generic = None
    for name in ("InboundIn", "OutboundIn"):
        ens = [e for e in mp.enums if e.name == name]
        if len(ens) != 1:
            raise Unsupported("`enum %s` not found exactly once in `mod message` of %s" % (name, os.path.basename(msg_path)), 1)
        g.register_enum(ens[0], True, "template.rs")
    if len(mp.impls) != 1 or len(mp.impls[0].fns) != 1 or mp.impls[0].fns[0].name != "from":
        raise Unsupported("`impl From<OutboundIn> for BytesMut { fn from }` not found exactly once in %s" % os.path.basename(msg_path), 1)
    fn = mp.impls[0].fns[0]
    g.self_type = "BytesMut"
    try:
        sig = g.fn_sig(fn, "BytesMut", "BytesMut.from_OutboundIn")
        if sig.recv is not None or sig.params != [("OutboundIn", False)] or sig.ret != "BytesMut":
            raise Unsupported("signature of `From<OutboundIn> for BytesMut::from`", fn.line)
        side_out.append("/-! ### `impl From<OutboundIn> for BytesMut` (template.rs) -/")
        side_out.extend(g.gen_body(fn, "BytesMut", "BytesMut", sig, False, "template.rs", None))
        side_out.append("")
    except Unsupported as u:
        raise Unsupported("%s (in %s)" % (u.what, os.path.basename(msg_path)), u.line)
    g.froms[("OutboundIn", "BytesMut")] = sig

    # the enums and the struct of `mod tcp`
    main_out = []
    g.out = main_out
    g.in_main = True
    g.uses = uses
    sts = [s for s in p.structs if s.name == TARGET_STRUCT]
    if len(sts) != 1:
        raise Unsupported("`struct %s` not found exactly once in `mod %s`" % (TARGET_STRUCT, TARGET_MOD), 1)
    st = sts[0]
    impls = {}
    for im in p.impls:
        if im.trait in impls:
            raise Unsupported("two `impl %s for %s`" % (im.trait, TARGET_STRUCT), im.line)
        impls[im.trait] = im
    for trait, fname in TARGET_FNS.items():
        if trait not in impls or [f.name for f in impls[trait].fns] != [fname]:
            raise Unsupported("`impl %s for %s { fn %s }` not found" % (trait, TARGET_STRUCT, fname), 1)
        g.require_use(trait, impls[trait].line)
    gens = set([st.generic] + [im.generic for im in p.impls])
    if len(gens) != 1 or None in gens:
        raise Unsupported("`%s` and its impls do not share one const generic" % TARGET_STRUCT, st.line)
    generic = gens.pop()
    for f in g.fns.values():
        if len(getattr(f, "prefix", [])) == 2:
            f.prefix[1] = generic
    for en in p.enums:
        if en.name in g.enums or en.name in g.structs:
            raise Unsupported("`enum %s`: the name is taken" % en.name, en.line)
        g.register_enum(en, True, "mod %s of this file" % TARGET_MOD)
    g.register_struct(st)

    # address::try_decode_at (its body is Octo.AddrGen's)
    spath = ts.find_side(tcp_path, "codec")
    _, _, sp = ts.parse_source(spath, "codec")
    for f in sp.fns:
        if f.name == "try_decode_at":
            f.recv = None
            g.fns[("address", "try_decode_at")] = g.fn_sig(f, "address", "Octo.AddrGen.%s" % lean_name(f.name))
    if ("address", "try_decode_at") not in g.fns:
        raise Unsupported("`try_decode_at` not found in socks5/address.rs", 1)

    # the methods
    main_out.append("/-! ### `impl Encoder<OutboundIn> for %s`, `impl Decoder for %s` -/" % (TARGET_STRUCT, TARGET_STRUCT))
    for trait in ("Encoder", "Decoder"):
        im = impls[trait]
        fn = im.fns[0]
        if fn.recv != "mut":
            raise Unsupported("`%s::%s` without `&mut self`" % (TARGET_STRUCT, fn.name), fn.line)
        g.generic = im.generic
        g.self_type = TARGET_STRUCT
        g.my_assoc = im.types
        sig = g.fn_sig(fn, TARGET_STRUCT, "%s.%s" % (TARGET_STRUCT, lean_name(fn.name)), [g.X, im.generic])
        g.fns[(TARGET_STRUCT, fn.name)] = sig
        g.in_cycle = False
        main_out.extend(g.gen_body(fn, TARGET_STRUCT, TARGET_STRUCT, sig, True, "impl %s for %s" % (trait, TARGET_STRUCT), im.generic))
        main_out.append("")
        g.my_assoc = {}
    g.in_main = False

    out = []
    out.append("/- GENERATED by translate_sspayload.py — do not edit.")
    out.append("   source: %s" % path)
    out.append("   sha256: %s" % digest)
    out.append("   further sources (found relative to the first):")
    out.append("     - codec: %s (sha256 %s): translated by translate_sstcp.py (run in-process, with every file it reads and every check"
               % ("octo-squirrel/src/codec/shadowsocks/tcp.rs" if tcp_path.replace(os.sep, "/").endswith("codec/shadowsocks/tcp.rs")
                  else os.path.basename(tcp_path), tcp_digest))
    out.append("       it makes) into Octo.SsTcpGen; the calls of `AEADCipherCodec::{decode, encode}` go there")
    out.append("     - message: template.rs (sha256 %s): `enum InboundIn`, `enum OutboundIn`, `impl From<OutboundIn> for BytesMut`" % mdigest)
    out.append("     - address: protocol/socks5/address.rs: signatures of `decode`, `try_decode_at` (bodies: Octo.AddrGen)")
    out.append("")
    out.append("   Statement-by-statement translation of `mod %s`: %s, `struct %s`, `%s::encode` (trait `Encoder<OutboundIn>`),"
               % (TARGET_MOD, ", ".join("`enum %s`" % e.name for e in p.enums), TARGET_STRUCT, TARGET_STRUCT))
    out.append("   `%s::decode` (trait `Decoder`), located by name.  Conventions of translate_sstcp.py (see Octo/Gen/SsTcpGen.lean):" % TARGET_STRUCT)
    out.append("   `&mut self` / `&mut` arguments come back as a tuple next to the returned value (also on `Err`, with whatever had been")
    out.append("   assigned by then), `Arc<Context<N>>` is the shared, interior-mutable `Context` (threaded), `e?` = Flow.question.  In addition here:")
    out.append("   * `let Some(x) = e else { .. };` = a `match` whose `none` arm is the (diverging) else block;")
    out.append("   * a byte-buffer method on a field (`self.pending.extend_from_slice(..)`, `.split_off(n)`) rewrites the field;")
    out.append("     `split_off(at)` panics when `at > len`;")
    out.append("   * one call may borrow disjoint fields of `self` (`self.cipher.decode(&self.context, &mut self.session, src)`): each")
    out.append("     comes back updated;")
    out.append("   * `addr.clone()` on an `Address` is the value; `item.into()` is the translated `From<OutboundIn> for BytesMut`.")
    out.append("   ASSUMED EXTERNALS: none of its own; the record `Octo.SsTcpGen.Ext` (cryptography, clock, replay cache, user table, chunk")
    out.append("   layer: see the header of Octo/Gen/SsTcpGen.lean) is passed through to `AEADCipherCodec.decode` / `.encode` as `%s`." % g.X)
    out.append("   names are bound through the `use` items of the file and of `mod %s` (checked for: %s)." % (TARGET_MOD, ", ".join(sorted(
        n for n in g.used_names if n in uses))))
    out.append("   skipped (not parsed, bracket matching only):")
    if p.nuse:
        out.append("     - %d `use` items (read for name binding only)" % p.nuse)
    for s in p.skipped:
        out.append("     - %s" % s)
    out.append("-/")
    out.append("import Octo.Gen.SsTcpGen")
    out.append("set_option linter.unusedVariables false")
    out.append("namespace Octo.SsPayloadGen")
    out.append("open Octo.PWGen Octo.AddrGen Octo.SsTcpGen")
    out.append(PRELUDE)
    out.extend(side_out)
    out.extend(main_out)
    out.append("end Octo.SsPayloadGen")
    return "\n".join(out) + "\n"


def main(argv):
    if len(argv) != 3:
        sys.stderr.write("usage: translate_sspayload.py <path/to/octo-squirrel-server/src/server/shadowsocks.rs> <out.lean>\n")
        return 2
    try:
        text = translate(argv[1], argv[2])
    except Unsupported as u:
        sys.stderr.write("translate_sspayload: unsupported: %s at line %d\n" % (u.what, u.line))
        return 3
    except OSError as e:
        sys.stderr.write("translate_sspayload: %s\n" % e)
        return 2
    try:
        with open(argv[2], "w", encoding="utf-8") as f:
            f.write(text)
    except OSError as e:
        sys.stderr.write("translate_sspayload: %s\n" % e)
        return 2
    return 0


if __name__ == "__main__":
    sys.exit(main(sys.argv))
