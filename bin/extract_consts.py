#!/usr/bin/env python3
"""Constants translator: re-extracts, from /repo's current working tree, every numeric constant the
Lean theorems depend on and regenerates lean/Octo/Gen/Consts.lean.  A pattern that no longer matches
(refactor) keeps the previous value and is reported as `unmatched` (the behavioural correspondence
then decides); it never raises an alarm by itself."""
import json, os, re, sys

REPO = os.environ.get("VERIF_REPO", "/repo")
OUT = os.path.join(os.path.dirname(os.path.abspath(__file__)), "..", "lean", "Octo", "Gen", "Consts.lean")

def src(rel):
    try:
        return open(os.path.join(REPO, rel), encoding="utf-8").read()
    except OSError:
        return ""

KNOWN = {}   # constant name -> value, for expressions that mention constants extracted before

def arith(expr):
    """value of an arithmetic expression over literals (hex/decimal), + - * and parentheses, and the names of
    constants extracted before (`aead_2022::SERVER_STREAM_TIMESTAMP_MAX_DIFF + 1`, `2 * MAX_DIFF + 1`)"""
    if expr is None:
        return None
    def sub(m):
        name = m.group(0).split("::")[-1]
        return str(KNOWN[name]) if name in KNOWN else m.group(0)
    expr = re.sub(r"(?:[A-Za-z_][A-Za-z0-9_]*::)*[A-Z][A-Z0-9_]{2,}", sub, expr)
    expr = re.sub(r"(?<=\d)(?:u8|u16|u32|u64|usize|i32|i64)\b", "", expr)
    if not re.fullmatch(r"[0-9a-fA-FxX+\-* ()_]+", expr):
        return None
    try:
        return int(eval(expr.replace("_", ""), {"__builtins__": {}}))
    except Exception:
        return None

def log2_shift(expr):
    m = re.fullmatch(r"\s*1\s*<<\s*(\d+)\s*", expr)
    return int(m.group(1)) if m else None

def const_expr(text, name):
    m = re.search(r"const\s+%s\s*:\s*[A-Za-z0-9_]+\s*=\s*([^;]+);" % re.escape(name), text)
    return m.group(1).strip() if m else None

def main():
    vals, unmatched = {}, []
    def put(name, value, default):
        if value is None:
            unmatched.append(name)
            value = default
        vals[name] = value
    pw = src("octo-squirrel/src/manager/packet_window.rs")
    e = const_expr(pw, "BLOCK_BIT_LOG")
    put("blockBitLog", int(e) if e and e.isdigit() else None, 6)
    e = const_expr(pw, "RING_BLOCKS")
    put("ringBlocksLog", log2_shift(e) if e else None, 7)
    a22 = src("octo-squirrel/src/codec/shadowsocks/aead_2022.rs")
    e = const_expr(a22, "SERVER_STREAM_TIMESTAMP_MAX_DIFF")
    put("ssMaxTimeDiff", int(e) if e and e.isdigit() else None, 30)
    KNOWN["SERVER_STREAM_TIMESTAMP_MAX_DIFF"] = vals["ssMaxTimeDiff"]
    e = const_expr(a22, "MAX_PADDING_LENGTH")
    put("ssMaxPadding", int(e) if e and e.isdigit() else None, 900)
    tcp = src("octo-squirrel/src/codec/shadowsocks/tcp.rs")
    m = re.search(r"with_expiry_duration_and_capacity\(\s*Duration::from_secs\(([^)]*)\)\s*,\s*(\d+)\s*\)", tcp)
    ttl_expr, cap = (m.group(1), m.group(2)) if m else (None, None)
    if not m:
        # the duration bound to a local first: `let expiry = Duration::from_secs(EXPR); … with_expiry_duration_and_capacity(expiry, N)`
        m2 = re.search(r"with_expiry_duration_and_capacity\(\s*([a-z_][a-z0-9_]*)\s*,\s*(\d+)\s*\)", tcp)
        if m2:
            m3 = re.search(r"let\s+%s\s*(?::[^=]+)?=\s*Duration::from_secs\(([^;]*)\)\s*;" % re.escape(m2.group(1)), tcp)
            ttl_expr, cap = (m3.group(1) if m3 else None), m2.group(2)
    put("ssSaltTtl", arith(ttl_expr), 61)
    put("ssSaltCapacity", int(cap) if cap else None, 102400)
    ctpl = src("octo-squirrel-client/src/client/template.rs")
    m = re.search(r"client_server_cache\s*=\s*LruCache::with_expiry_duration_and_capacity\(\s*\w+\s*,\s*(\d+)\s*\)", ctpl)
    put("clientUdpBindings", int(m.group(1)) if m else None, 64)
    aid = src("octo-squirrel/src/protocol/vmess/aead/auth_id.rs")
    m = re.search(r"\.abs\(\)\s*<=\s*(\d+)", aid)
    put("vmessAuthWindow", int(m.group(1)) if m else None, 120)
    enc = src("octo-squirrel/src/protocol/vmess/aead/encrypt.rs")
    m = re.search(r"timestamp\((\d+)\)", enc)
    put("vmessTimestampJitter", int(m.group(1)) if m else None, 30)
    ssa = src("octo-squirrel/src/codec/shadowsocks/aead.rs")
    m = re.search(r"ChunkEncoder::new\(([^,]*),", ssa)
    put("ssLegacyPayloadLimit", arith(m.group(1)) if m else None, 0x3fff + 34)
    m = re.search(r"ChunkEncoder::new\(([^,]*),", a22)
    put("ss2022PayloadLimit", arith(m.group(1)) if m else None, 0xffff)
    vm = src("octo-squirrel/src/codec/vmess/aead.rs")
    m = re.search(r"payload_limit:\s*(\d+)", vm)
    put("vmessPayloadLimit", int(m.group(1)) if m else None, 2048)
    # ---- finite tables: serde names and predicate sets
    aead = src("octo-squirrel/src/codec/aead.rs")
    cfgrs = src("octo-squirrel/src/config.rs")
    protors = src("octo-squirrel/src/protocol.rs")
    def enum_body(text, name):
        m = re.search(r"pub enum %s\s*\{(.*?)\n\}" % name, text, flags=re.S)
        return m.group(1) if m else ""
    def renames(body):
        out = []
        for m in re.finditer(r'#\[serde\(rename\s*=\s*"([^"]+)"(?:\s*,\s*alias\s*=\s*"([^"]+)")?\)\]\s*(\w+)', body):
            out.append((m.group(1), m.group(3)))
            if m.group(2):
                out.append((m.group(2), m.group(3)))
        return out
    def match_set(text, fn):
        m = re.search(r"fn %s\(&self\)\s*->\s*bool\s*\{\s*matches!\(\s*self\s*,(.*?)\)\s*\}" % fn, text, flags=re.S)
        return re.findall(r"Self::(\w+)", m.group(1)) if m else None
    tables = {}
    unmatched_t = []
    # a table whose pattern no longer matches (the predicate or the enum was rewritten in another form) keeps the
    # documented table — as for the numeric constants, the behavioural correspondence (cfg.* ops through the real
    # serde and the real predicates) then decides; an unmatched pattern never raises an alarm by itself
    DOC = {
        "cipherNames": [("aes-128-gcm", "Aes128Gcm"), ("aes-256-gcm", "Aes256Gcm"), ("chacha20-poly1305", "ChaCha20Poly1305"), ("chacha20-ietf-poly1305", "ChaCha20Poly1305"),
                        ("2022-blake3-aes-128-gcm", "Aead2022Blake3Aes128Gcm"), ("2022-blake3-aes-256-gcm", "Aead2022Blake3Aes256Gcm"),
                        ("2022-blake3-chacha8-poly1305", "Aead2022Blake3ChaCha8Poly1305"), ("2022-blake3-chacha20-poly1305", "Aead2022Blake3ChaCha20Poly1305")],
        "ciphers2022": ["Aead2022Blake3Aes128Gcm", "Aead2022Blake3Aes256Gcm", "Aead2022Blake3ChaCha8Poly1305", "Aead2022Blake3ChaCha20Poly1305"],
        "ciphersEih": ["Aead2022Blake3Aes128Gcm", "Aead2022Blake3Aes256Gcm"],
        "modeNames": [("tcp", "Tcp"), ("udp", "Udp"), ("tcp_and_udp", "TcpAndUdp"), ("quic", "Quic"), ("tcp_and_quic", "TcpAndQuic")],
        "modeTcp": ["Tcp", "TcpAndUdp", "TcpAndQuic"], "modeUdp": ["Udp", "TcpAndUdp"], "modeQuic": ["Quic", "TcpAndQuic"],
        "protocolNames": [("shadowsocks", "Shadowsocks"), ("vmess", "VMess"), ("trojan", "Trojan")],
    }
    def putt(name, value):
        if value is None or value == []:
            unmatched_t.append(name)
            value = DOC[name]
        tables[name] = value
    putt("cipherNames", renames(enum_body(aead, "CipherKind")))
    putt("ciphers2022", match_set(aead, "is_aead_2022"))
    putt("ciphersEih", match_set(aead, "support_eih"))
    putt("modeNames", renames(enum_body(cfgrs, "Mode")))
    putt("modeTcp", match_set(cfgrs, "enable_tcp"))
    putt("modeUdp", match_set(cfgrs, "enable_udp"))
    putt("modeQuic", match_set(cfgrs, "enable_quic"))
    pb = enum_body(protors, "Protocol")
    lower = 'rename_all = "lowercase"' in protors
    putt("protocolNames", [(v.lower() if lower else v, v) for v in re.findall(r"^\s*(\w+),", pb, flags=re.M)])
    unmatched.extend(unmatched_t)
    lines = ["/- GENERATED by /verif/bin/extract_consts.py from /repo — do not edit. -/", "namespace Octo.Consts"]
    for k, v in vals.items():
        lines.append("def %s : Nat := %d" % (k, v))
    def lit(x):
        return '"%s"' % x
    for k, v in tables.items():
        if v and isinstance(v[0], tuple):
            lines.append("def %s : List (String × String) := [%s]" % (k, ", ".join("(%s, %s)" % (lit(a), lit(b)) for a, b in v)))
        else:
            lines.append("def %s : List String := [%s]" % (k, ", ".join(lit(a) for a in v)))
    lines.append("end Octo.Consts")
    text = "\n".join(lines) + "\n"
    old = open(OUT).read() if os.path.exists(OUT) else None
    if old != text:
        with open(OUT, "w") as f:
            f.write(text)
    json.dump({"values": vals, "tables": {k: [list(x) if isinstance(x, tuple) else x for x in v] for k, v in tables.items()}, "unmatched": unmatched, "changed": old != text}, sys.stdout)

main()
